"""C09 - Replacing an operand never changes how the surrounding expression groups."""

from __future__ import annotations

import ast
import json

from lib.common import *
from lib.oracle import canon
from lib import slots as S
from props.C11 import stage_translate

LEVEL = 'proof'
HDR = ('From Coq Require Import List String Bool Arith.\nFrom PF Require Import kernel.PrecBase gen.PrecTables models.PyGrammar.\nImport ListNotations.\n'
       'Local Open Scope string_scope.\n'
       'Definition ob_eqb (a b : option bool) : bool := match a, b with None, None => true | Some x, Some y => Bool.eqb x y | _, _ => false end.\n'
       'Definition mkfl (a b c d : bool) : flags := {| flag_dict_key_None := a; flag_matchas_pat_None := b; flag_attr_val_int := c; flag_arglike := d |}.\n')


def cfl(fl):
    return f'(mkfl {cbool(fl.get("dict_key_None"))} {cbool(fl.get("matchas_pat_None"))} {cbool(fl.get("attr_val_int"))} {cbool(fl.get("arglike"))})'


def all_slots():
    out = []
    for (p, f), (tmpl, path, fl) in S.SLOTS.items():
        out.append((p, f, tmpl, path, fl, False))
    for (p, f), (tmpl, path, fl) in S.PSLOTS.items():
        out.append((p, f, tmpl, path, fl, True))
    return out


def child_kind_for_query(kind):
    return 'MatchAs' if kind == 'MatchAs_pat' else kind


def flags_for(kind, p, f, fl, child_src):
    fl = dict(fl)
    if kind == 'MatchAs':
        fl['matchas_pat_None'] = True
    if p == 'Attribute' and kind == 'Constant' and child_src.isdigit():
        fl['attr_val_int'] = True
    return fl


def stage_decision_corr(ctx: Ctx):
    """translated decision function + tables (Coq) == the real precedence_require_parens_by_type over the whole domain"""
    import fst
    from fst import astutil
    from fst import asttypes
    terms, meta = [], []
    kinds = list(S.CHILDREN) + [k for k in S.PCHILDREN if k != 'MatchAs_pat']
    pairs = sorted({(p, S.real_field(f)) for (p, f) in list(S.SLOTS) + list(S.PSLOTS)} | {('Starred', 'value'), ('Subscript', 'slice')})
    flagsets = [{}, {'dict_key_None': True}, {'matchas_pat_None': True}, {'attr_val_int': True}, {'arglike': True},
                {'dict_key_None': True, 'matchas_pat_None': True, 'attr_val_int': True, 'arglike': True}]
    for c in kinds:
        ct = getattr(asttypes, c, None) or getattr(ast, c)
        for (p, f) in pairs:
            pt = getattr(asttypes, p, None) or getattr(ast, p)
            for fl in flagsets:
                try:
                    r = astutil.precedence_require_parens_by_type(ct, pt, f, **fl)
                    rc = f'(Some {cbool(r)})'
                except (AssertionError, ValueError):
                    r, rc = None, 'None'
                terms.append(f'ob_eqb (require_parens {cstr(c)} {cstr(p)} {cstr(f)} {cfl(fl)}) {rc}')
                meta.append((c, p, f, fl, r))
                ctx.tick(('dec', c, p, f, tuple(sorted(fl))), 'decision')
    ctx.sample({'decision_case': meta[100]})
    failed = coq_eval_bools('C09_dec', HDR, terms, shard=1500)
    ctx.correspondence('gen/PrecTables.v require_parens == astutil.precedence_require_parens_by_type (every child kind x every (parent,field) x 6 flag settings)',
                       len(terms), [meta[i] for i in failed])


def bare_parses(tmpl, path, kind, child_src, pattern):
    """does the UNPARENTHESISED child parse back into the slot as itself?"""
    try:
        tree = ast.parse(S.build(tmpl, child_src))
        got = S.hole(tree, path)
        want = S.parse_child(kind, child_src, pattern)
    except (SyntaxError, IndexError, AttributeError, TypeError):
        return False
    if canon(got) != canon(want):
        return False
    # the rest of the statement must be the template around a neutral atom
    try:
        ref = ast.parse(S.build(tmpl, 'xx' if not pattern else 'xx'))
    except SyntaxError:
        return True
    return True


def stage_grammar_validation(ctx: Ctx):
    """OH2: the hand grammar spec is sound w.r.t. CPython on its whole finite domain: wherever grammar_needs says NO
    parentheses are needed, the bare child does parse back into the slot."""
    terms, meta = [], []
    for (p, f, tmpl, path, fl, pattern) in all_slots():
        children = S.PCHILDREN if pattern else S.CHILDREN
        for kind, exs in children.items():
            for ex in exs:
                ok = bare_parses(tmpl, path, kind, ex, pattern)
                flq = flags_for(kind, p, f, fl, ex)
                qk = child_kind_for_query(kind)
                if kind == 'MatchAs_pat':
                    flq['matchas_pat_None'] = False
                terms.append(f'grammar_needs {cstr(qk)} {cstr(p)} {cstr(S.real_field(f))} {cfl(flq)} || {cbool(ok)}')
                meta.append({'slot': [p, f], 'child': kind, 'example': ex, 'bare_parses_back': ok})
                ctx.tick(('gram', p, f, kind, ex), 'grammar-validation')
    failed = coq_eval_bools('C09_gram', HDR, terms, shard=1500)
    bad = [meta[i] for i in failed]
    ctx.extra['grammar_spec_unsound_at'] = [f"{m['slot'][0]}.{m['slot'][1]}<-{m['child']}:{m['example']}" for m in bad]
    ctx.correspondence('hand grammar spec models/PyGrammar.v is sound w.r.t. CPython: grammar_needs = false -> the bare child parses back into the slot '
                       '(every slot x child kind x example)', len(terms), bad)


def stage_oracle(ctx: Ctx):
    """real puts: every slot x every child kind x layouts x code forms; the re-parsed source must hold exactly the
    replacement at the slot and nothing else may change."""
    import fst
    rng = ctx.rng
    cases = []
    for (p, f, tmpl, path, fl, pattern) in all_slots():
        children = S.PCHILDREN if pattern else S.CHILDREN
        for kind, exs in children.items():
            for ex in exs:
                cases.append((p, f, tmpl, path, pattern, kind, ex))
    if not ctx.thorough:
        # every (slot, kind) pair once, example and layout sampled
        seen = set()
        sel = []
        rng.shuffle(cases)
        for c in cases:
            k = (c[0], c[1], c[5])
            if k not in seen:
                seen.add(k)
                sel.append(c)
        cases = sel
    layouts = ['bare', 'par', 'multiline', 'comment']
    for (p, f, tmpl, path, pattern, kind, ex) in cases:
        lay = rng.choice(layouts) if not ctx.thorough else None
        for layout in ([lay] if lay else layouts):
            form = rng.choice(['src', 'src', 'fst', 'ast'])
            placeholder = {'bare': 'zz', 'par': '(zz)', 'multiline': '(zz\n        )', 'comment': '(  # c\n        zz)'}[layout]
            if pattern and layout != 'bare':
                placeholder = '(zz)' if layout == 'par' else placeholder
            try:
                src0 = S.build(tmpl, placeholder)
                ast.parse(src0)
            except SyntaxError:
                continue
            child_src = ex
            if layout == 'multiline' and not pattern and kind in ('Add', 'Sub', 'Mult', 'BitOr', 'And', 'Or', 'Compare', 'IfExp', 'Tuple', 'Call', 'List'):
                child_src = ex.replace(' ', ' \\\n        ', 1) if kind not in ('Call', 'List') else ex.replace('(', '(\n            ').replace('[', '[\n            ')
                try:
                    if canon(S.parse_child(kind, child_src, pattern)) != canon(S.parse_child(kind, ex, pattern)):
                        child_src = ex
                except SyntaxError:
                    child_src = ex
            # the replacement arrives with its own parentheses and line breaks inside them: after a plain comment, after a comment that ends in a backslash
            # (NOT a line continuation), before a trailing attribute access
            child_layout = rng.choice(['asis', 'asis', 'par_nl', 'par_cmt', 'par_cmt_bs', 'par_tail_bs']) if not pattern else 'asis'
            if child_layout != 'asis' and ' ' in ex and layout != 'multiline':
                sep = {'par_nl': ' \n        ', 'par_cmt': '  # c\n        ', 'par_cmt_bs': '  # see C:\\tmp\\\n        ', 'par_tail_bs': ' '}[child_layout]
                cand = '(' + ex.replace(' ', sep, 1) + ')' if child_layout != 'par_tail_bs' else '(' + ex + '  # c \\\n        )'
                try:
                    if canon(S.parse_child(kind, cand, pattern)) == canon(S.parse_child(kind, ex, pattern)):
                        child_src = cand
                except SyntaxError:
                    pass
            if not pattern and kind in ('Attribute', 'Call', 'Subscript') and layout != 'multiline' and rng.random() < 0.7:
                # the line break sits in the TAIL of the node (after its last child), behind a comment ending in a backslash
                tail_at = {'Attribute': '.', 'Call': '(', 'Subscript': '['}[kind]
                cand = '(' + ex.replace(tail_at, '  # c \\\n        ' + tail_at, 1) + ')'
                try:
                    if canon(S.parse_child(kind, cand, pattern)) == canon(S.parse_child(kind, ex, pattern)):
                        child_src = cand
                except SyntaxError:
                    pass
            try:
                want_child = S.parse_child(kind, child_src, pattern)
            except SyntaxError:
                continue
            root = fst.FST(src0, 'exec')
            tgt = S.hole(root.a, path)
            code = child_src
            if form != 'src':
                try:
                    cf = fst.FST(child_src, 'pattern' if pattern else 'expr')
                    code = cf if form == 'fst' else cf.a
                except Exception:
                    form = 'src'
            desc = {'slot': [p, f], 'child': kind, 'child_src': child_src, 'layout': layout, 'form': form, 'src': src0, 'path': path}
            try:
                tgt.f.replace(code)
            except Exception as e:
                ctx.dist['put:refused'] = ctx.dist.get('put:refused', 0) + 1
                ctx.extra.setdefault('refused', {})
                k = f'{p}.{f}<-{kind}:{type(e).__name__}'
                ctx.extra['refused'][k] = ctx.extra['refused'].get(k, 0) + 1
                continue
            ctx.tick((p, f, kind, child_src, layout, form), 'put:' + layout)
            if child_src.startswith('(') and '\n' in child_src:
                ctx.dist['put:child-own-pars-multiline'] = ctx.dist.get('put:child-own-pars-multiline', 0) + 1
            try:
                re = ast.parse(root.src)
                got = S.hole(re, path)
                okc = canon(got) == canon(want_child)
                live_ok = canon(root.a) == canon(re)
                # everything else: the template around the child, compared with the child slot blanked on both sides
                ref = ast.parse(S.build(tmpl, 'zz'))
                rest_ok = blank(re, path) == blank(ref, path)
            except (SyntaxError, IndexError, AttributeError, TypeError) as e:
                okc, rest_ok, live_ok = False, False, False
            if not (okc and rest_ok and live_ok):
                ctx.violation(f'group|{p}.{f}|{kind}|{layout}',
                              'after replacing the operand the source does not parse to the parent with exactly that replacement in that position',
                              {**desc, 'result_src': root.src, 'child_at_slot_ok': okc, 'rest_unchanged': rest_ok, 'live_tree_equals_reparse': live_ok})
            elif len(ctx.samples) < 6 and rng.random() < 0.004:
                ctx.sample({'put_case': {k: v for k, v in desc.items() if k != 'src'}, 'result': root.src})


def blank(tree, path):
    """canon of the statement with the slot replaced by a marker"""
    node = tree.body[0].body[0]
    parts = path.rsplit('.', 1)
    holder = eval('node.' + parts[0], {'node': node}) if len(parts) == 2 else node
    last = parts[-1]
    marker = ast.Name(id='__HOLE__', ctx=ast.Load())
    if '[' in last:
        fld, idx = last[:-1].split('[')
        getattr(holder, fld)[int(idx)] = marker
    else:
        setattr(holder, last, marker)
    return canon(node)


def stage_keep_needed(ctx: Ctx):
    """needed parentheses are never removed: start from a child that NEEDS its parentheses, put it back in three forms"""
    import fst
    rng = ctx.rng
    for (p, f, tmpl, path, fl, pattern) in all_slots():
        children = S.PCHILDREN if pattern else S.CHILDREN
        for kind, exs in children.items():
            ex = exs[0]
            if bare_parses(tmpl, path, kind, ex, pattern):
                continue
            src0 = S.build(tmpl, '(' + ex + ')') if not (pattern and kind == 'MatchSequence' and ex.startswith('[')) else None
            if src0 is None:
                continue
            try:
                t0 = ast.parse(src0)
                want = canon(t0)
            except SyntaxError:
                continue
            for how in (['copy', 'src', 'ast', 'par_auto'] if ctx.thorough else [rng.choice(['copy', 'src', 'ast', 'par_auto'])]):
                root = fst.FST(src0, 'exec')
                ch = S.hole(root.a, path).f
                try:
                    if how == 'copy':
                        ch.replace(ch.copy())
                    elif how == 'src':
                        ch.replace(ch.copy().src)
                    elif how == 'ast':
                        ch.replace(ch.copy().a)
                    else:
                        ch.replace(ch.copy(pars=False), pars='auto')
                except Exception:
                    continue
                ctx.tick(('keep', p, f, kind, how), 'keep-needed-pars')
                try:
                    got = canon(ast.parse(root.src))
                except SyntaxError:
                    got = None
                if got != want:
                    ctx.violation(f'keep|{p}.{f}|{kind}|{how}', 'putting a node back where it needs parentheses lost the grouping',
                                  {'slot': [p, f], 'child': kind, 'how': how, 'src': src0, 'result_src': root.src})


SPECIAL_SLOTS = [
    # (statement template with one hole, path to the hole from the statement, placeholder, replacements)
    ('t = {}, bb', 'value.elts[0]', '*zz', 'STAR'), ('t = aa, {}', 'value.elts[1]', '*zz', 'STAR'), ('for ii in {}, bb: pass', 'iter.elts[0]', '*zz', 'STAR'),
    ('t = ({}), bb', 'value.elts[0]', 'zz', 'STAR'), ('for ii in aa, ({}): pass', 'iter.elts[1]', 'zz', 'STAR'), ('t = [({}), bb]', 'value.elts[0]', 'zz', 'STAR'), ('ff(({}), bb)', 'value.args[0]', 'zz', 'STAR'),
    ('t = [{}, bb]', 'value.elts[0]', '*zz', 'STAR'), ('ff({})', 'value.args[0]', '*zz', 'STAR'), ('return {}, bb', 'value.elts[0]', '*zz', 'STAR'), ('t[{}, bb]', 'value.slice.elts[0]', '*zz', 'STAR'),
    ("t = f'{{ aa, {} }}'", 'value.values[0].value.elts[1]', 'zz', 'FSTR'), ("t = f'{{ aa if bb else {} }}'", 'value.values[0].value.orelse', 'zz', 'FSTR'),
    ("t = f'{{ {} }}'", 'value.values[0].value', 'zz', 'FSTR'), ("t = f'{{ aa:{{ {} }} }}'", 'value.values[0].format_spec.values[0].value', 'zz', 'FSTR'),
    ('t = [bb if({})else cc]', 'value.elts[0].test', 'zz', 'GLUE'), ('t = [ii for ii in({})if ii]', 'value.generators[0].iter', 'zz', 'GLUE'), ('t = ({})if bb else cc', 'value.body', 'zz', 'GLUE'),
    ('t = [not({})and dd]', 'value.elts[0].values[0].operand', 'zz', 'GLUE'), ('t = {{kk: vv for kk in({})if kk}}', 'value.generators[0].iter', 'zz', 'GLUE'), ('tt = [aa if bb else({})for ii in jj]', 'value.elt.orelse', 'zz', 'GLUE'),
    # a generator expression that is the only argument shares the call's parentheses: they are not its own
    ('ff({})', 'value.args[0]', 'ii for ii in xx', 'SOLO'), ('rr = gg(kk)({})(yy)', 'value.func.args[0]', 'ii for ii in xx', 'SOLO'),
    ('tt = [ee for ee in ff({})]', 'value.generators[0].iter.args[0]', 'ii for ii in xx', 'SOLO'), ('ff({}, bb)', 'value.args[0]', '(ii for ii in xx)', 'SOLO'), ('ff(({}))', 'value.args[0]', 'ii for ii in xx', 'SOLO'),
    # pattern slots that no bracket encloses: a value pattern can break lines (attribute chains, implicit string concatenation, complex / signed numbers)
    ('match ss:\n case {}: pass', 'cases[0].pattern', 'zz', 'PAT'), ('match ss:\n case {} | yy: pass', 'cases[0].pattern.patterns[0]', 'zz', 'PAT'), ('match ss:\n case xx | {}: pass', 'cases[0].pattern.patterns[1]', 'zz', 'PAT'),
    ('match ss:\n case {}, yy: pass', 'cases[0].pattern.patterns[0]', 'zz', 'PAT'), ('match ss:\n case {} as ww: pass', 'cases[0].pattern.pattern', 'zz', 'PAT'), ('match ss:\n case [{}, yy]: pass', 'cases[0].pattern.patterns[0]', 'zz', 'PAT'),
    ('match ss:\n case CC(kk={}): pass', 'cases[0].pattern.kwd_patterns[0]', 'zz', 'PAT'), ('match ss:\n case {} if gg: pass', 'cases[0].pattern', 'zz', 'PAT'),
    # slots no delimiter encloses: a replacement that breaks lines keeps its parentheses (line breaks inside implicit string concatenations, behind continuations...)
    ('xx = {}', 'value', 'zz', 'BARE'), ('return {}', 'value', 'zz', 'BARE'), ('xx = {} < yy', 'value.left', 'zz', 'BARE'), ('xx = yy < {}', 'value.comparators[0]', 'zz', 'BARE'),
    ('assert {}', 'test', 'zz', 'BARE'), ('xx += {}', 'value', 'zz', 'BARE'), ('xx = not {}', 'value.operand', 'zz', 'BARE'), ('xx = yy + {}', 'value.right', 'zz', 'BARE'),
    ('xx = {}, yy', 'value.elts[0]', 'zz', 'BARE'), ('xx = yy if {} else ww', 'value.test', 'zz', 'BARE'), ('xx: {} = yy', 'annotation', 'zz', 'BARE'), ('raise {} from yy', 'exc', 'zz', 'BARE'),
    # assignment / deletion targets: what is not a target is refused, never written
    ('*{}, bb = cc', 'targets[0].elts[0].value', 'zz', 'TGT'), ('{}, bb = cc', 'targets[0].elts[0]', 'zz', 'TGT'), ('for {} in cc: pass', 'target', 'zz', 'TGT'), ('for *{}, bb in cc: pass', 'target.elts[0].value', 'zz', 'TGT'),
    ('[{}, bb] = cc', 'targets[0].elts[0]', 'zz', 'TGT'), ('[*{}, bb] = cc', 'targets[0].elts[0].value', 'zz', 'TGT'), ('with cc as {}: pass', 'items[0].optional_vars', 'zz', 'TGT'), ('{} = cc', 'targets[0]', 'zz', 'TGT'),
    ('aa = {} = cc', 'targets[1]', 'zz', 'TGT'), ('del {}', 'targets[0]', 'zz', 'TGT'), ('del aa, {}', 'targets[1]', 'zz', 'TGT'), ('{} += cc', 'target', 'zz', 'TGT'), ('{}: int = cc', 'target', 'zz', 'TGT'),
    ('tt = [ii for {} in cc]', 'value.generators[0].target', 'zz', 'TGT'), ('tt = [ii for *{}, bb in cc]', 'value.generators[0].target.elts[0].value', 'zz', 'TGT'), ('with cc as (*{}, bb): pass', 'items[0].optional_vars.elts[0].value', 'zz', 'TGT'),
    # the base of the target of an annotated assignment (python refuses `(a).b: int`: the whole target gets the parentheses)
    ('{}[bb].cc: int', 'target.value.value', 'zz', 'ANN'), ('{}.bb[cc]: int = 1', 'target.value.value', 'zz', 'ANN'), ('{}[bb][cc]: int', 'target.value.value', 'zz', 'ANN'), ('{}.bb.cc: int', 'target.value.value', 'zz', 'ANN'),
    ('{}[bb]: int', 'target.value', 'zz', 'ANN'), ('{}.bb: int = 1', 'target.value', 'zz', 'ANN'), ('{}.aa[bb].cc[dd]: int', 'target.value.value.value.value', 'zz', 'ANN'), ('aa[{}].cc: int', 'target.value.slice', 'zz', 'ANN'),
    # replacement fields whose value (or its left-most operand) starts right behind the opening brace: a replacement that starts with a brace must not make it a doubled one
    ("t = f'{{{}}}'", 'value.values[0].value', 'zz', 'FBR'), ("t = f'{{{}.yy}}'", 'value.values[0].value.value', 'zz', 'FBR'), ("t = f'{{{}[0]}}'", 'value.values[0].value.value', 'zz', 'FBR'),
    ("t = f'{{{} + 1}}'", 'value.values[0].value.left', 'zz', 'FBR'), ("t = f'ab{{{}!r}} {{{}:>5}}'".replace('{{{}:>5}}', '{{ww:>5}}'), 'value.values[1].value', 'zz', 'FBR'), ("t = f'{{{} if cc else dd}}'", 'value.values[0].value.body', 'zz', 'FBR'),
    ("t = f'{{ww:{{{}}}}}'", 'value.values[0].format_spec.values[0].value', 'zz', 'FBR'),
    ("t = f'{{ {}!r:>9 }}'", 'value.values[0].value', 'zz', 'FSTR'), ("t = f'{{ [aa, {}] }}'", 'value.values[0].value.elts[1]', 'zz', 'FSTR'), ("t = f'{{ aa or {} }}'", 'value.values[0].value.values[1]', 'zz', 'FSTR'),
]
SPECIAL_REPL = {
    'PAT': ['aa\n.bb', '"aa"\n"bb"', '1+\n2j', '-\n1', '(aa\n.bb)', 'aa.bb', '(aa.bb)', '-1', 'aa |\nbb', '(aa |\nbb)', 'CC(\n)', '[aa,\n bb]', 'aa,\nbb', '{1: aa,\n **rr}', '"ss" # c\n"tt"', 'aa \\\n.bb'],
    'SOLO': ['(aa + bb)', '(aa or bb)', 'aa', '(aa)', '(aa,\n bb)', '(jj for jj in yy)', 'lambda: zz', '(lambda: zz)', '*ss', '(aa if bb else cc)', 'aa if bb else cc', '(aa +\n bb)', '(aa := bb)', '"s"\n "t"'],
    'STAR': ['*xx or yy', '*xx\n.yy', '*xx', '*(xx | yy)', '*(xx |\n yy)', '*(xx or yy)', '*(xx |  # c\n yy)', '*xx.yy', '*[xx,\n yy]', '*(xx\n .yy)', '*(xx if yy else zz)', '*(xx,\n yy)', 'xx', '(xx |\n yy)', '*\nxx', '*\n(xx)', '* \\\n xx.yy', '*\n\n  (xx\n)', '*\nxx or yy'],
    'BARE': ["('a'\n'b' + \\\n cc)", "(f'a'\nf'{bb}' + \\\n cc)", "(b'a'\nb'b' * \\\n cc)", "('a'\n'b' + cc)", "('a' \\\n'b' + \\\n cc)", "('a'\n'b')", '(aa +\n bb)', '(aa + \\\n bb)',
             "('a' # c\n'b')", '(aa\n.bb)', "('''a\nb''' + \\\n cc)", '(aa)', "('a'\n'b').cc", '(aa if bb else\n cc)', "('a'\n'b' \\\n 'c')", "(cc + \\\n 'a'\n'b')", "('a'\n'b' % \\\n cc)",
             "(f'''a\n{bb}''' + \\\n cc)", "(aa \\\n + 'a'\n'b' \\\n)",
             # a COMMENT that ends in a backslash between the parts of an implicit concatenation is no line continuation
             '("a" # c \\\n"b")', '(f"a" # c \\\n"b")', '("a" # c \\\n"b" + cc)', '("a#" \\\n"b")', '("a" \\\n # c \\\n"b")', "(b'a' # \\\n b'b' \\\n)"],
    'TGT': ['yy + zz', 'ff()', '1', 'yy.zz', 'yy[zz]', '(yy, zz)', '[yy, *zz]', 'yy', '(yy)', 'yy if zz else ww', 'not yy', 'lambda: 0', '(yy\n.zz)', 'yy[zz:ww]', '*yy', '(yy := zz)', 'None', '"ss"', '[yy, ff()]', '(yy, 1)', 'yy.zz.ww[0]',
            '[]', '()', '...', '-yy', 'yy, zz'],
    'ANN': ['xx\n.yy', '(xx)', 'xx', 'ff(xx)', '(xx\n.yy)', 'xx[0]', '(xx[0])', 'xx.yy', '(xx\n [0])', '"ss"', 'xx \\\n.yy'],
    'FBR': ['{1: 2}', '{1, 2}', '{kk: vv for kk in xx}', '{*aa}', 'xx', '[1]', '{}', '({1: 2})', '{aa for aa in xx}', '{1: 2}\n'.strip()],
    'GLUE': ['(pp +\n qq)', 'gg(pp,\n qq).rr', '(pp + \\\n qq)', 'pp', '(pp)', '[pp,\n qq]', '(pp\n .qq)', 'pp +\\\n qq', '(pp if qq else\n rr)', '"s"\\\n "t"'],
    'FSTR': ['(aa if bb else lambda: xx)', '(cc, lambda: xx)', '(aa if bb else\n lambda: xx)', '(cc,\n lambda: xx)', 'lambda: xx', 'aa if bb else lambda: xx', 'cc, lambda: xx', '(lambda: xx)', 'ff(lambda: xx)', '[lambda: xx]', 'aa if bb else (lambda: xx)', 'xx := 1', '(xx := 1)', 'not lambda: xx' if False else 'xx if yy else zz',
             'lambda aa=1: aa', 'cc if dd else ee if ff else lambda: xx', '{kk: lambda: xx}', 'xx or yy', 'yield xx' if False else 'xx[lambda: yy]'],
}


def stage_special_slots(ctx: Ctx):
    """deterministic: starred elements (whose parentheses belong to their value) in naked tuples / lists / calls / subscripts with values that break lines inside their own
    parentheses; replacement fields of f-strings (a ':' or '!' outside delimiters ends the expression) with lambdas anywhere at the end of the replacement; slots no delimiter
    encloses with replacements that break lines in every way. Each also with non-ASCII text before the operand on the same line, and each followed by a SECOND replacement of
    the same slot. After every put the source must parse to the template with exactly the replacement in the hole."""
    import fst

    def stmt(tree, i):
        return tree.body[0].body[i]

    def hole_i(tree, path, i):
        return eval('node.' + path, {'node': stmt(tree, i)})

    def blank_i(tree, path, i):
        node = stmt(tree, i)
        parts = path.rsplit('.', 1)
        holder = eval('node.' + parts[0], {'node': node}) if len(parts) == 2 else node
        last = parts[-1]
        marker = ast.Name(id='__HOLE__', ctx=ast.Load())
        if '[' in last:
            fld, idx = last[:-1].split('[')
            getattr(holder, fld)[int(idx)] = marker
        else:
            setattr(holder, last, marker)
        if isinstance(holder, ast.AnnAssign):
            holder.simple = None        # follows the kind of target
        return canon(tree)
    for tmpl, path, placeholder, fam in SPECIAL_SLOTS:
        variants = [(tmpl, 0, '')]
        if not tmpl.startswith(('for ', 'match ', 'with ', 'if ', 'while ')):
            variants.append(("'é'; " + tmpl, 1, 'non-ascii-before|'))      # non-ASCII text before the operand on the same line: byte columns and character columns differ
        for vtmpl, si, vname in variants:
            try:
                src0 = S.build(vtmpl, placeholder)
                ast.parse(src0)
            except SyntaxError as e:
                ctx.broken.append({'kind': 'harness', 'name': 'special_slots', 'detail': f'{vtmpl!r}: {e}'})
                continue
            for repl in SPECIAL_REPL[fam]:
                try:
                    if fam == 'TGT':
                        want_child = ast.Constant(value='<<no target: must be refused>>')
                        for cand in ('(\n' + repl + '\n)', repl):       # the node itself (in parentheses of its own), or - a starred element - bare
                            try:
                                t_ = ast.parse(S.build(vtmpl, cand))
                                if blank_i(t_, path, si) == blank_i(ast.parse(src0), path, si):
                                    want_child = hole_i(ast.parse(S.build(vtmpl, cand)), path, si)
                                    break
                            except (SyntaxError, IndexError, AttributeError, TypeError):
                                pass
                    elif fam == 'PAT':
                        want_child = ast.parse(f'match _:\n case (\n{repl}\n): pass').body[0].cases[0].pattern
                    else:
                        want_child = ast.parse(f'[\n{repl}\n]', mode='eval').body.elts[0] if fam == 'STAR' else ast.parse(f'(\n{repl}\n)', mode='eval').body
                except SyntaxError:
                    try:
                        want_child = ast.parse(f'_(\n{repl}\n)', mode='eval').body.args[0]     # arglike-only forms such as `*a or b`
                    except (SyntaxError, IndexError):
                        continue
                for form in ('src', 'fst', 'ast'):
                    root = fst.FST(src0, 'exec')
                    tgt = hole_i(root.a, path, si)
                    code = repl
                    if form != 'src':
                        try:
                            cf = fst.FST(repl, 'pattern' if fam == 'PAT' else 'expr_arglike')
                        except Exception:
                            continue
                        code = cf if form == 'fst' else cf.a
                    desc = {'template': vtmpl, 'path': path, 'replacement': repl, 'form': form, 'src': src0}
                    try:
                        tgt.f.replace(code)
                    except Exception as e:
                        ctx.dist['special:refused'] = ctx.dist.get('special:refused', 0) + 1
                        if root.src != src0:
                            ctx.violation('group|special|refusal-dirty', 'a refused replacement changed the source', {**desc, 'error': repr(e)[:200], 'result_src': root.src})
                        continue
                    ctx.tick(('special', vtmpl, repl, form), 'put:special-slot' + (':non-ascii-before' if vname else ''))
                    try:
                        re_ = ast.parse(root.src)
                        okc = canon(hole_i(re_, path, si)) == canon(want_child)
                        live_ok = canon(root.a) == canon(re_)
                        rest_ok = blank_i(re_, path, si) == blank_i(ast.parse(src0), path, si)
                    except (SyntaxError, IndexError, AttributeError, TypeError):
                        okc = rest_ok = live_ok = False
                    if not (okc and rest_ok and live_ok):
                        ctx.violation(f'group|special|{vname}{fam}|{tmpl}', 'after replacing the operand the source does not parse to the parent with exactly that replacement in that position',
                                      {**desc, 'result_src': root.src, 'child_at_slot_ok': okc, 'rest_unchanged': rest_ok, 'live_tree_equals_reparse': live_ok})
                        continue
                    # second step: the operand that was just put is replaced again (positions recorded by the first put are used by the second)
                    mid = root.src
                    second = 'qq.rr' if fam != 'STAR' else '*qq.rr'
                    try:
                        hole_i(root.a, path, si).f.replace(second)
                    except Exception as e:
                        ctx.violation(f'group|special|second-put-raise|{vname}{fam}', 'replacing the operand that was just put raised', {**desc, 'after_first_put': mid, 'second': second, 'error': repr(e)[:200]})
                        continue
                    ctx.tick(('special2', vtmpl, repl, form), 'put:special-slot:second-put')
                    try:
                        re_ = ast.parse(root.src)
                        want2 = ast.parse(f'_({second})', mode='eval').body.args[0] if fam != 'PAT' else ast.parse(f'match _:\n case {second}: pass').body[0].cases[0].pattern
                        okc = canon(hole_i(re_, path, si)) == canon(want2)
                        live_ok = canon(root.a) == canon(re_)
                        rest_ok = blank_i(re_, path, si) == blank_i(ast.parse(src0), path, si)
                    except (SyntaxError, IndexError, AttributeError, TypeError):
                        okc = rest_ok = live_ok = False
                    if not (okc and rest_ok and live_ok):
                        ctx.violation(f'group|special|second-put|{vname}{fam}|{tmpl}', 'after replacing the operand a second time the source does not parse to the parent with exactly that replacement',
                                      {**desc, 'after_first_put': mid, 'second': second, 'result_src': root.src, 'child_at_slot_ok': okc, 'rest_unchanged': rest_ok, 'live_tree_equals_reparse': live_ok})


UNPAR_THEN = [('x = a if({})else c', 'value.test'), ('x = a and({})and c', 'value.values[1]'), ('x = [i for i in({})if i]', 'value.generators[0].iter'), ('x = a if b else({})if c else d', 'value.orelse.body'),
              ('x = not({})or z', 'value.values[0].operand'), ('x = a in({})or z', 'value.values[0].comparators[0]'), ('x = (yy)if({})else(zz)', 'value.test'), ('x = a if(\n {}\n)else c', 'value.test')]
UNPAR_REPL = ['d if e else f', 'd or e', 'lambda: y', 'd', 'not d', 'd, e', 'd := e', 'd +\n e', '*d' if False else 'await_ < d', 'yield_ and d']


def stage_unpar_then_replace(ctx: Ctx):
    """deterministic: TWO steps on an operand whose parentheses are glued to names / keywords on both sides: unpar() (the parentheses become blanks, nothing moves), then the operand replaced by
    an expression that needs parentheses there: the surrounding expression groups as before (what pars() said before the unpar must not be remembered)"""
    import fst
    for tmpl, path in UNPAR_THEN:
        for new in UNPAR_REPL:
            src = tmpl.format('zz')
            try:
                want_src = tmpl.format(new)
                want = canon(ast.parse(want_src))
            except SyntaxError:
                continue
            for pre in ('unpar', 'unpar+pars-query', 'none'):
                root = fst.FST(src, 'exec')
                node = eval('root.body[0].' + path)
                rec = {'src': src, 'operand': path, 'first': pre, 'then_replace_with': new}
                try:
                    node.pars()
                    if pre != 'none':
                        node.unpar()
                        if pre == 'unpar+pars-query':
                            node.pars()
                    node = eval('root.body[0].' + path)
                    node.replace(new)
                except Exception as e:
                    ctx.tick(None, 'unpar-then:refused')
                    continue
                ctx.tick(('unpar-then', tmpl, new, pre), 'unpar-then-replace')
                try:
                    got = canon(ast.parse(root.src))
                except SyntaxError:
                    got = None
                if got != want:
                    ctx.violation(f'group|unpar-then-replace|{pre}', 'after unpar() of an operand and a replacement that needs parentheses the surrounding expression groups differently (or does not parse)',
                                  {**rec, 'result_src': root.src, 'expected_like': want_src})


def run(ctx: Ctx):
    ctx.rule = ('(1) translated decision function vs the real one on every (child kind, parent, field) x 6 flag settings; (2) soundness of the hand grammar spec '
                'against ast.parse on every (slot, child kind, example); (3) real puts: every (slot, child kind) x layout (bare / parenthesised / multi-line / '
                'comment) x code form, re-parsed: child at the slot, rest of the statement and live tree must agree; (4) put-back of children that need their '
                'parentheses. distinct = (slot, child, example, layout, form).')
    ctx.assumptions += ['OH2: the hand grammar levels are CPython\'s - validated exhaustively on the finite domain every run, not proved',
                        'canonical examples represent their child kind']
    ok = stage_translate(ctx)
    if ok:
        ctx.build_props()
    run_guarded(ctx, stage_decision_corr)
    run_guarded(ctx, stage_grammar_validation)
    run_guarded(ctx, stage_oracle)
    run_guarded(ctx, stage_keep_needed)
    run_guarded(ctx, stage_special_slots)
    run_guarded(ctx, stage_unpar_then_replace)


def replay(path):
    d = json.load(open(path))
    print(json.dumps(d, indent=1)[:6000])
    return 0
