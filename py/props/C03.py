"""C03 - Edits follow Python container semantics and change nothing else in the tree."""

from __future__ import annotations

import ast, copy
import json
import os
import re

from lib.common import *
from lib.containers import CONTAINERS, pick_elems, render_ok
from lib.oracle import canon
from lib.oracle import canon as _canon_full
from lib.progs import relayout

LEVEL = 'proof'
HDR = 'From Coq Require Import ZArith List Bool.\nFrom PF Require Import kernel.PyBase kernel.Container gen.Fixups models.View.\nImport ListNotations.\nLocal Open Scope Z_scope.'
ALLOW = os.path.join(VERIF, 'py', 'props', 'C03_refusals_allow.json')


def cidx(i):
    return 'End' if i == 'end' else f'(Ix {cz(i)})'


def clz(l):
    return '[' + '; '.join(cz(x) for x in l) + ']'


# ----------------------------------------------------------------------------------------------------------------------

def stage_translate(ctx: Ctx):
    from py2v.gen_fixups import generate
    from py2v.pyfun import TranslationError
    try:
        prov = generate()
        ctx.obligation('translate fixup_one_index, fixup_slice_indices, _params_offset (py2v, fail-closed)', True, '; '.join(prov))
        ctx.trusted.append('translator py/py2v/pyfun.py + gen_fixups.py over: ' + '; '.join(prov))
        return True
    except TranslationError as e:
        ctx.obligation('translate fixup functions (py2v, fail-closed)', False, str(e))
        return False


def stage_fixups_corr(ctx: Ctx):
    """(i) translated functions vs the Python originals, exhaustive on a small domain + random large values;
       (ii) the originals vs real Python list behaviour (oracle, = failing-input search for the fixup theorems)."""
    from fst.fst_misc import fixup_one_index, fixup_slice_indices
    terms, meta = [], []
    maxlen = ctx.scale(5, 7)
    rng = ctx.rng
    idxs = list(range(-maxlen - 2, maxlen + 3)) + ['end']

    def real(fn, *a):
        try:
            return fn(*a)
        except IndexError:
            return None

    cases1, cases2 = [], []
    for n in range(0, maxlen + 1):
        for d in (0, 1, 2):
            if d > n:
                continue
            for i in idxs:
                cases1.append((n, i, d))
            for a in idxs:
                for b in idxs:
                    cases2.append((n, a, b, d))
    for _ in range(ctx.scale(300, 3000)):
        n = rng.choice([rng.randrange(0, 50), rng.randrange(0, 2 ** 40)])
        big = lambda: rng.choice([rng.randrange(-n - 3, n + 4), rng.randrange(-2 ** 63, 2 ** 63), 'end'])
        d = rng.choice([0, 0, 1, min(n, 3)])
        cases1.append((n, big(), d))
        cases2.append((n, big(), big(), d))
    for (n, i, d) in cases1:
        r = real(fixup_one_index, n, i, d)
        terms.append(f'oz_eqb (fixup_one_index {cz(n)} {cidx(i)} {cz(d)}) {copt(r, cz)}')
        meta.append(('fixup_one_index', n, i, d, r))
        ctx.tick(('one', n, i, d) if r is not None or (i != 'end' and -n - 1 <= i <= n) else None, 'fixup_one_index')
        # oracle: python list index
        if d <= n and i != 'end' and n < 100:
            l = list(range(n))[d:]
            try:
                py = l[i]
            except IndexError:
                py = None
            if py != r:
                ctx.violation(f'fixup_one_index({n},{i},{d})', 'index normalisation differs from Python list indexing on the (virtual) list',
                              {'call': ['fixup_one_index', n, i, d], 'got': r, 'python_list': py})
    for (n, a, b, d) in cases2:
        r = real(fixup_slice_indices, n, a, b, d)
        terms.append(f'ozz_eqb (fixup_slice_indices {cz(n)} {cidx(a)} {cidx(b)} {cz(d)}) '
                     + ('None' if r is None else f'(Some ({cz(r[0])}, {cz(r[1])}))'))
        meta.append(('fixup_slice_indices', n, a, b, d, r))
        ctx.tick(('slice', n, a, b, d), 'fixup_slice_indices')
        if n < 100 and d <= n:
            nv = n - d  # the virtual list real[d:]
            s_, e_, _ = slice(nv if a == 'end' else a, nv if b == 'end' else b).indices(nv)
            if e_ < s_:
                ok = r is None
            else:
                ok = r == (s_ + d, e_ + d)
            if not ok:
                ctx.violation(f'fixup_slice_indices({n},{a},{b},{d})', 'slice normalisation differs from Python slice.indices on the (virtual) list',
                              {'call': ['fixup_slice_indices', n, a, b, d], 'got': r, 'python': [s_ + d, e_ + d] if e_ >= s_ else 'IndexError (stop<start)'})
    ctx.sample({'translated_vs_python': meta[7]})
    failed = coq_eval_bools('C03_fix', HDR, terms, shard=600)
    ctx.correspondence('translated Fixups.v == fst_misc.fixup_* (exhaustive len<=%d, idx in [-len-2,len+2]+end, start_at 0..2; + random 64-bit)' % maxlen,
                       len(terms), [meta[i] for i in failed])


# ----------------------------------------------------------------------------------------------------------------------

def stage_view_corr(ctx: Ctx):
    """models/View.v vs the real FSTView on List.elts / Module.body / _body: random op sequences."""
    import fst
    from fst import FST
    rng = ctx.rng
    ncases = ctx.scale(120, 1500)
    terms, meta = [], []
    counter = [100]

    def fresh(k):
        out = []
        for _ in range(k):
            counter[0] += 1
            out.append(counter[0])
        return out

    kinds = ['elts', 'body', '_body']
    for ci in range(ncases):
        kind = kinds[ci % 3]
        n = rng.randrange(0, 6)
        ids = fresh(n)
        if kind == 'elts':
            root = FST('[' + ', '.join(f'n{i}' for i in ids) + ']', 'exec')
            base = root.body[0].value
            field = 'elts'
            getids = lambda: [int(e.id[1:]) for e in base.a.elts]
            mk = lambda xs: (', '.join(f'n{i}' for i in xs) + (',' if len(xs) == 1 else '')) if xs else None
            one = lambda x: f'n{x}'
            off = 0
        else:
            doc = kind == '_body'
            root = FST('def f():\n' + ('    """doc"""\n' if doc else '') + ''.join(f'    n{i}\n' for i in ids) + ('' if ids or doc else '    pass\n'), 'exec')
            if not ids and not doc:
                root = FST('def f():\n    n1\n', 'exec')
                ids = [1]
                n = 1
            base = root.body[0]
            field = kind
            off = 1 if doc else 0
            getids = lambda: [int(s.value.id[1:]) for s in base.a.body[off:]]
            mk = lambda xs: '\n'.join(f'n{i}' for i in xs) if xs else None
            one = lambda x: f'n{x}'
        s0 = rng.randrange(0, n + 2)
        stop0 = rng.choice([None, rng.randrange(0, n + 3)])
        try:
            view = getattr(base, field)
            view = view[s0:stop0] if (s0 or stop0 is not None) else view
        except IndexError:
            continue
        # model initial state: after getitem_slice the view has explicit start/stop (relative to full field)
        st = view._start
        sp = view._stop
        ops_c, obs = [], []
        nops = rng.randrange(1, 9)
        opnames = []
        # independent Python-list mirror of (field, window): the property itself, no model involved
        mF = list(ids)
        mws, mwe = st, sp
        mirror_log = []
        cur_len = lambda: len(getids())
        ok_case = True
        for _ in range(nops):
            k = rng.choice(['setslice', 'setslice', 'setone', 'setnone', 'delslice', 'delone', 'insert', 'append', 'extend', 'prepend',
                            'prextend', 'replace', 'external'])
            L = len(view)
            ri = lambda: rng.randrange(-L - 2, L + 3)
            err = False
            # heal the mirror window the way a Python slice object would clip
            m_we = len(mF) if mwe is None else min(mwe, len(mF))
            m_ws = min(mws, m_we)
            mpre, mwin, mpost = mF[:m_ws], mF[m_ws:m_we], mF[m_we:]
            mexp_err = False
            mdesc = None
            try:
                if k == 'setslice':
                    a, b = ri(), rng.choice([ri(), 'end'])
                    new = fresh(rng.randrange(0, 3))
                    ops_c.append(f'OSetSlice {cz(a)} {cidx(b)} {clz(new)}')
                    mdesc = ('setslice', a, b, new)
                    ca, cb, _ = slice(a, None if b == 'end' else b).indices(len(mwin))
                    if cb < ca:
                        mexp_err = True
                    else:
                        mwin[ca:cb] = new
                    view[a:(None if b == 'end' else b)] = mk(new)
                elif k == 'setone':
                    i = ri()
                    x = fresh(1)[0]
                    ops_c.append(f'OSetOne {cz(i)} {cz(x)}')
                    mdesc = ('setone', i, x)
                    if -len(mwin) <= i < len(mwin):
                        mwin[i] = x
                    else:
                        mexp_err = True
                    view[i] = one(x)
                elif k == 'delslice':
                    a, b = ri(), rng.choice([ri(), 'end'])
                    ops_c.append(f'ODelSlice {cz(a)} {cidx(b)}')
                    mdesc = ('delslice', a, b)
                    ca, cb, _ = slice(a, None if b == 'end' else b).indices(len(mwin))
                    if cb < ca:
                        mexp_err = True
                    else:
                        del mwin[ca:cb]
                    del view[a:(None if b == 'end' else b)]
                elif k == 'delone':
                    i = ri()
                    ops_c.append(f'ODelOne {cz(i)}')
                    mdesc = ('delone', i)
                    if -len(mwin) <= i < len(mwin):
                        del mwin[i]
                    else:
                        mexp_err = True
                    del view[i]
                elif k == 'setnone':     # assigning None to an item deletes it (the same as del view[i])
                    i = ri()
                    ops_c.append(f'ODelOne {cz(i)}')
                    mdesc = ('setnone', i)
                    if -len(mwin) <= i < len(mwin):
                        del mwin[i]
                    else:
                        mexp_err = True
                    view[i] = None
                elif k == 'insert':
                    i = rng.choice([ri(), 'end'])
                    new = fresh(rng.randrange(1, 3))
                    ops_c.append(f'OInsert {cidx(i)} {clz(new)}')
                    mdesc = ('insert', i, new)
                    kk = len(mwin) if i == 'end' else slice(i, None).indices(len(mwin))[0]
                    mwin[kk:kk] = new
                    view.insert(mk(new), i, one=False)
                elif k == 'append':
                    x = fresh(1)[0]
                    ops_c.append(f'OAppend {cz(x)}')
                    mdesc = ('append', x)
                    mwin.append(x)
                    view.append(one(x))
                elif k == 'extend':
                    new = fresh(rng.randrange(1, 3))
                    ops_c.append(f'OExtend {clz(new)}')
                    mdesc = ('extend', new)
                    mwin.extend(new)
                    view.extend(mk(new))
                elif k == 'prepend':
                    x = fresh(1)[0]
                    ops_c.append(f'OPrepend {cz(x)}')
                    mdesc = ('prepend', x)
                    mwin.insert(0, x)
                    view.prepend(one(x))
                elif k == 'prextend':
                    new = fresh(rng.randrange(1, 3))
                    ops_c.append(f'OPrextend {clz(new)}')
                    mdesc = ('prextend', new)
                    mwin[0:0] = new
                    view.prextend(mk(new))
                elif k == 'replace':
                    new = fresh(rng.randrange(0, 3))
                    ops_c.append(f'OReplace {clz(new)}')
                    mdesc = ('replace', new)
                    mwin[:] = new
                    view.replace(mk(new), one=False)
                else:  # external change through the node itself
                    allids = getids()
                    a = rng.randrange(0, len(allids) + 1)
                    b = rng.randrange(a, len(allids) + 1)
                    new = fresh(rng.randrange(0, 3))
                    exp = allids[:a] + new + allids[b:]
                    mdesc = ('external', a, b, new)
                    if kind != 'elts' and not exp:
                        ops_c.append(f'OExternal {clz(allids)}')
                        mpre, mwin, mpost = allids, [], []
                    else:
                        base.put_slice(mk(new), a, b, field)
                        ops_c.append(f'OExternal {clz(getids())}')
                        mpre, mwin, mpost = exp, [], []   # the field changed behind the view: window re-clipped below
            except IndexError:
                err = True
            except Exception as e:  # refusals of the real implementation unrelated to window arithmetic (e.g. empty body)
                ops_c.pop()
                ok_case = False
                break
            opnames.append(k + ('!' if err else ''))
            try:
                items = list(view)
                item_ids = [int((x.a.id if kind == 'elts' else x.a.value.id)[1:]) for x in items]
            except Exception as e:
                ok_case = False
                ops_c.pop()
                break
            obs.append(f'({cbool(err)}, {clz(getids())}, {clz(item_ids)})')
            # ---- judge against the mirror
            mirror_log.append(mdesc)
            if mdesc and mdesc[0] == 'external':
                mF = mpre
            elif not err and not mexp_err:
                mF = mpre + mwin + mpost
                mws = m_ws
                if mwe is not None:
                    mwe = m_ws + len(mwin)
            n_we = len(mF) if mwe is None else min(mwe, len(mF))
            n_ws = min(mws, n_we)
            # reading the items heals the window persistently: a window clipped by a shrunken field stays clipped when the field grows again
            mws = n_ws
            if mwe is not None:
                mwe = n_we
            if (mdesc and mdesc[0] != 'external' and err != mexp_err) or getids() != mF or item_ids != mF[n_ws:n_we]:
                ctx.violation(f'view|{kind}|{mdesc[0] if mdesc else "?"}', 'a view operation is not the Python list operation on its window (or touched the field outside it)',
                              {'field_kind': kind, 'initial_ids': ids, 'view_start': st, 'view_stop': sp, 'ops': mirror_log,
                               'expected_field': mF, 'got_field': getids(), 'expected_items': mF[n_ws:n_we], 'got_items': item_ids,
                               'raised_IndexError': err, 'expected_IndexError': mexp_err})
                ok_case = False
                break
        if not ops_c or not obs:
            continue
        n_ops = len(obs)
        ops_c = ops_c[:n_ops]
        init = f'{{| fld := {clz(ids)}; vstart := {st}%nat; vstop := {copt(sp, lambda v: str(v) + "%nat")} |}}'
        terms.append(f'obs_eqb (vrun {init} [{"; ".join(ops_c)}]) [{"; ".join(obs)}]')
        m = {'kind': kind, 'init_ids': ids, 'start': st, 'stop': sp, 'ops': ops_c, 'observed': obs}
        meta.append(m)
        ctx.tick((kind, tuple(opnames), st, sp is None), 'view-sequence')
        for o in opnames:
            ctx.dist['viewop:' + o] = ctx.dist.get('viewop:' + o, 0) + 1
    if meta:
        ctx.sample({'view_case': meta[0]})
    failed = coq_eval_bools('C03_view', HDR, terms, shard=300)
    mism = [meta[i] for i in failed]
    ctx.correspondence('models/View.v == real FSTView (List.elts, FunctionDef.body, FunctionDef._body; random op sequences, observe field+items+IndexError after every op)',
                       len(terms), mism)
    for m in mism[:3]:
        # a mismatch of the window model IS a concrete failing history for the property when the real view departs from list semantics
        ctx.write_replay({'kind': 'view-correspondence', **m})


# ----------------------------------------------------------------------------------------------------------------------

def norm_msg(msg: str) -> str:
    msg = re.sub(r"'[^']*'", "'_'", msg)
    msg = re.sub(r'\d+', 'N', msg)
    msg = re.sub(r'got \w+', 'got _', msg)
    msg = re.sub(r'\(<FST>.*', '', msg)
    return msg[:60].strip()


def py_norm(L, s, e):
    """Python slice normalisation of (s, e) on length L ('end'/None allowed) -> (cs, ce)"""
    def c(x, default):
        if x is None:
            return default
        if x == 'end':
            return L
        return max(0, x + L) if x < 0 else min(x, L)
    return c(s, 0), c(e, L)


def stage_api(ctx: Ctx):
    """Oracle cross-check on the real implementation over every container kind: result structure must equal the
    independently rendered expected program (ast.parse(render(old[:s] + new + old[e:])))."""
    import fst
    from fst import FST
    rng = ctx.rng
    try:
        allow = set(tuple(x) for x in json.load(open(ALLOW)))
    except FileNotFoundError:
        allow = set()
    per = ctx.scale(14, 160)
    refusals = {}
    learn = os.environ.get('C03_LEARN_REFUSALS') == '1'
    for c in CONTAINERS:
        for it in range(per * c.weight):
            n = rng.randint(c.min_len, 5)
            olds = pick_elems(c, rng, n)
            n = len(olds)
            src = render_ok(c, olds)
            if src is None:
                continue
            if rng.random() < (0.6 if c.weight > 1 else 0.3):
                src = relayout(src, rng)
            single = c.one_ok and n > 0 and rng.random() < (0.5 if c.weight > 1 else 0.3)
            if single:
                i = rng.randrange(-n, n)
                news = pick_elems(c, rng, rng.choice([0, 1, 1]), avoid=set(olds))
                cs = i % n
                ce = cs + 1
                s, e = i, None
            else:
                news = pick_elems(c, rng, rng.randint(0, 3), avoid=set(olds))
                s = rng.choice([rng.randint(-n - 2, n + 2), rng.randint(0, n), 'end'])
                e = rng.choice([rng.randint(-n - 2, n + 2), rng.randint(0, n), 'end'])
                cs, ce = py_norm(n, s, e)
            exp = list(olds)
            expect_index_error = (not single) and ce < cs
            if not expect_index_error:
                exp[cs:ce] = news
            esrc = render_ok(c, exp)
            if esrc is None and not expect_index_error:
                continue  # the requested result is not valid Python (ordering rules / minimum length): out of scope here
            try:
                m = FST(src, 'exec')
                node = eval(c.path, {'m': m})
            except Exception as ex:
                ctx.broken.append({'kind': 'harness', 'name': 'stage_api', 'detail': f'{c.name}: cannot build target {src!r}: {ex!r}'})
                continue
            # code form
            form = rng.choice(['src', 'src', 'fst', 'ast'])
            code_src = (c.one(news[0]) if single else c.code(news)) if news else None
            code = code_src
            if news and form != 'src':
                try:
                    dsrc = render_ok(c, news) if len(news) >= c.min_len else None
                    if dsrc is None:
                        form = 'src'
                    else:
                        dm = FST(dsrc, 'exec')
                        dn = eval(c.path, {'m': dm})
                        if single:
                            piece = dn.get(0, c.field)
                        else:
                            piece = dn.get_slice(0, 'end', c.field)
                        code = piece if form == 'fst' else piece.a
                        if not isinstance(code, (fst.FST, ast.AST)):
                            code, form = code_src, 'src'
                except Exception:
                    code, form = code_src, 'src'
            # entry point
            if single:
                eps = ['put', 'view_setitem', 'child_replace'] if news else ['put_none', 'view_delitem', 'child_remove', 'put_slice_none']
            elif not news:
                eps = ['put_slice_none', 'view_delslice', 'subview_remove']
            else:
                eps = ['put_slice', 'view_setslice', 'subview_replace']
                if s == e or cs == ce:
                    eps.append('insert')
                if cs == ce == n:
                    eps.append('extend')
            ep = rng.choice(eps)
            sl = slice(None if s == 'end' else s, None if e == 'end' else e) if not single else None
            if not single and s == 'end':
                sl = slice(n, None if e == 'end' else e)
            desc = {'container': c.name, 'old': olds, 'new': news, 'start': s, 'stop': e, 'single': single, 'form': form,
                    'entry': ep, 'src': src, 'code': code_src}
            try:
                if ep == 'put_slice':
                    node.put_slice(code, s, e, c.field)
                elif ep == 'put_slice_none':
                    if single:
                        node.put_slice(None, cs, ce, c.field)
                    else:
                        node.put_slice(None, s, e, c.field)
                elif ep == 'view_setslice':
                    getattr(node, c.field)[sl] = code
                elif ep == 'view_delslice':
                    del getattr(node, c.field)[sl]
                elif ep == 'subview_replace':
                    getattr(node, c.field)[sl].replace(code, one=False)
                elif ep == 'subview_remove':
                    getattr(node, c.field)[sl].remove()
                elif ep == 'insert':
                    node.insert(code, cs if s != 'end' else 'end', c.field, one=False)
                elif ep == 'extend':
                    node.extend(code, c.field)
                elif ep == 'put':
                    node.put(code, s, c.field)
                elif ep == 'put_none':
                    node.put(None, s, c.field)
                elif ep == 'view_setitem':
                    getattr(node, c.field)[s] = code
                elif ep == 'view_delitem':
                    del getattr(node, c.field)[s]
                elif ep == 'child_replace':
                    ch = getattr(node, c.field)[s]
                    if not isinstance(ch, fst.FST):
                        continue
                    ch.replace(code)
                elif ep == 'child_remove':
                    ch = getattr(node, c.field)[s]
                    if not isinstance(ch, fst.FST):
                        continue
                    ch.remove()
            except IndexError as ex:
                if expect_index_error:
                    ctx.tick((c.name, 'IndexError-expected'), 'api:index-error-expected')
                    continue
                ctx.tick(None, 'api:refused')
                ctx.violation(f'{c.name}|IndexError|{ep}', 'in-range container request raised IndexError',
                              {**desc, 'error': repr(ex)})
                continue
            except Exception as ex:
                key = (c.name, type(ex).__name__, norm_msg(str(ex)))
                refusals[key] = refusals.get(key, 0) + 1
                ctx.tick(None, 'api:refused')
                if expect_index_error:
                    continue
                if key not in allow and not learn:
                    ctx.violation('refusal|' + '|'.join(key), 'request whose expected result is valid Python was refused (class not in the committed allow-list)',
                                  {**desc, 'error': repr(ex), 'expected_src': esrc})
                continue
            if expect_index_error:
                # Python would insert at start; pfst documents IndexError. Accepting silently would be a semantic change.
                ctx.violation(f'{c.name}|no-IndexError|{ep}', 'stop<start slice was accepted (model says IndexError)', desc)
                continue
            want = canon(ast.parse(esrc))
            got_live = canon(m.a)
            try:
                got_src = canon(ast.parse(m.src))
            except SyntaxError as ex:
                got_src = ('SyntaxError', str(ex))
            ctx.tick((c.name, ep, form, single, len(olds), cs, ce, len(news)), 'api:' + ep)
            ctx.dist['form:' + form] = ctx.dist.get('form:' + form, 0) + 1
            if got_live != want or got_src != want:
                ctx.violation(f'{c.name}|structure|{ep}|{form}',
                              'resulting structure differs from old[:start] + new + old[stop:] (rest of tree unchanged)',
                              {**desc, 'result_src': m.src, 'expected_src': esrc, 'live_equals_expected': got_live == want,
                               'reparsed_equals_expected': got_src == want})
            elif len(ctx.samples) < 5 and rng.random() < 0.05:
                ctx.sample({'api_case': desc, 'result_src': m.src})
    ctx.extra['refusal_classes'] = {'|'.join(k): v for k, v in sorted(refusals.items())}
    if learn:
        with open(ALLOW + f'.{ctx.seed}.{ctx.tier}.part', 'w') as f:
            json.dump(sorted(set(refusals)), f)


def stage_orelse_sweep(ctx: Ctx):
    """deterministic: the else-part of if / while / for / try (plain else, elif chain, nested) as a Python list: every (start, stop) with every short list of new
    statements that begin with or contain an `if` (the elif spelling), through put_slice / attribute assignment / view slice assignment / view.replace:
    orelse == old[:start] + new + old[stop:] and nothing else in the tree changes"""
    import fst
    import itertools
    heads = [('if a:\n    pass\n', 'If'), ('while a:\n    pass\n', 'While'), ('for i in a:\n    pass\n', 'For'), ('try:\n    pass\nexcept E:\n    pass\n', 'Try')]
    pool = ['if c:\n    pass', 'd', 'if e:\n    f\nelse:\n    g', 'if h:\n    i\nelif j:\n    k']
    olds_list = [[], ['x'], ['x', 'y'], ['if b:\n    y'], ['if b:\n    y\nelse:\n    z'], ['if b:\n    y', 'w']]
    ind = lambda t, p: '\n'.join(p + l if l else l for l in t.split('\n'))
    for (head, kind), nested in itertools.product(heads, (False, True)):
        for olds in olds_list:
            n = len(olds)
            for elif_spelling in ((False, True) if kind == 'If' and n == 1 and olds[0].startswith('if') else (False,)):
                if elif_spelling:
                    block = head + 'el' + olds[0] + '\n'
                else:
                    block = head + ('else:\n' + ind('\n'.join(olds), '    ') + '\n' if olds else '')
                src = ('def fn():\n' + ind(block, '    ') + '    after\n') if nested else ('pre\n' + block + 'after\n')
                path = 'body[0].body[0]' if nested else 'body[1]'
                news_list = [list(t) for k in (1, 2, 3) for t in itertools.product(pool, repeat=k)]
                news_list = ctx.rng.sample(news_list, ctx.scale(8, len(news_list)))
                ranges = [(0, 'end')] + [(i, i + 1) for i in range(n)] + [(i, i) for i in range(n + 1)]
                for news in news_list:
                    for (s0, e0) in ranges:
                        ce = n if e0 == 'end' else e0
                        exp_list = olds[:s0] + news + olds[ce:]
                        want = ast.parse(src)
                        wn = want.body[0].body[0] if nested else want.body[1]
                        wn.orelse = [st for t in exp_list for st in ast.parse(t).body]
                        code_src = '\n'.join(news)
                        for ep in ('put_slice', 'attr', 'view_setslice', 'view_replace', 'fst_code'):
                            if ep == 'attr' and (s0, e0) != (0, 'end'):
                                continue
                            m = fst.FST(src, 'exec')
                            node = m.child_from_path(path)
                            desc = {'src': src, 'block': kind, 'old': olds, 'new': news, 'start': s0, 'stop': e0, 'entry': ep}
                            try:
                                if ep == 'put_slice':
                                    node.put_slice(code_src, s0, e0, 'orelse')
                                elif ep == 'fst_code':
                                    node.put_slice(fst.FST(code_src, 'exec'), s0, e0, 'orelse')
                                elif ep == 'attr':
                                    node.orelse = code_src
                                elif ep == 'view_setslice':
                                    node.orelse[s0:(None if e0 == 'end' else e0)] = code_src
                                else:
                                    node.orelse[s0:(None if e0 == 'end' else e0)].replace(code_src, one=False)
                            except Exception as ex:
                                ctx.tick(None, 'orelse:refused')
                                ctx.violation(f'orelse-refused|{kind}|{type(ex).__name__}', 'a list operation on an else-part whose result is valid Python was refused', {**desc, 'error': repr(ex)[:300]})
                                continue
                            ctx.tick((src, tuple(news), s0, e0, ep), 'orelse:' + ep)
                            try:
                                got_src = canon(ast.parse(m.src))
                            except SyntaxError as ex:
                                got_src = ('SyntaxError', str(ex))
                            if canon(m.a) != canon(want) or got_src != canon(want):
                                ctx.violation(f'orelse|structure|{kind}|{ep}', 'resulting structure differs from old[:start] + new + old[stop:] (rest of tree unchanged)',
                                              {**desc, 'result_src': m.src, 'expected': ast.unparse(want), 'live_equals_expected': canon(m.a) == canon(want)})


def stage_split_fields(ctx: Ctx):
    """deterministic: Call.args / Call.keywords / ClassDef.bases / ClassDef.keywords when positional and keyword arguments interleave in the source
    (f(a, k=1, *b, j=2)): every (start, stop) x short new lists through put_slice. Either refused with nothing changed, or the field is
    old[:start] + new + old[stop:], the other field is unchanged and the source parses to the same tree."""
    import fst
    import itertools
    layouts = ['a, k=1, *b', 'a, k=1, *b, j=2', 'k=1, *b', 'a, *b, k=1, **d', 'a, b', 'k=1, j=2', '*b, k=1, *c, j=2, **d', 'a, k=1, *b, j=2, *c']
    wrap = [('f({})', 'expr', ('args', 'keywords'), lambda m: m), ('class C({}): pass', 'exec', ('bases', 'keywords'), lambda m: m.body[0])]
    news = {'pos': [['n'], ['n', 'o'], ['*n']], 'kw': [['n=2'], ['n=2', 'o=3'], ['**n']]}
    aterms, ameta = [], []
    for layout, (tpl, mode, fields, getn) in itertools.product(layouts, wrap):
        src = tpl.format(layout)
        probe = getn(fst.FST(src, mode))
        # models/Arglikes.v: the merged source order of the two lists, the position of every keyword in it, and the guard's verdict on an insertion at every keyword index
        pos_nodes = getattr(probe.a, fields[0])
        kw_nodes = probe.a.keywords
        merged = sorted([(n.lineno, n.col_offset, 'A') for n in pos_nodes] + [(n.lineno, n.col_offset, 'K') for n in kw_nodes])
        tags = '[' + '; '.join(t for _, _, t in merged) + ']'
        for i in range(len(kw_nodes) + 1):
            real_pos = len(merged) if i == len(kw_nodes) else merged.index((kw_nodes[i].lineno, kw_nodes[i].col_offset, 'K'))
            m_ = fst.FST(src, mode)
            try:
                getn(m_).put_slice('zz=0', i, i, 'keywords')
                refused = False
            except fst.NodeError as e:
                refused = 'precedes' in str(e)
            except Exception:
                refused = None
            if refused is None:
                continue
            aterms.append(f'Nat.eqb (match kw_pos {tags} {i} with Some p => p | None => 999 end) {real_pos} && Bool.eqb (guard_refuses {tags} {i}) {cbool(refused)}')
            ameta.append({'src': src, 'keyword_index': i, 'merged_order': [t for _, _, t in merged], 'real_position': real_pos, 'real_refuses_insertion': refused})
        for field in fields:
            olds = [ast.unparse(x) for x in getattr(probe.a, field)]
            other = fields[1] if field == fields[0] else fields[0]
            n = len(olds)
            ranges = [(i, j) for i in range(n + 1) for j in range(i, n + 1)]
            for (s0, e0), newl in itertools.product(ranges, [[]] + news['pos' if field != 'keywords' else 'kw']):
                if not newl and s0 == e0:
                    continue
                m = fst.FST(src, mode)
                node = getn(m)
                before = (m.src, ast.dump(m.a))
                other_before = [ast.dump(x) for x in getattr(node.a, other)]
                exp = olds[:s0] + newl + olds[e0:]
                desc = {'src': src, 'field': field, 'old': olds, 'new': newl, 'start': s0, 'stop': e0}
                try:
                    node.put_slice(', '.join(newl) if newl else None, s0, e0, field)
                except Exception as ex:
                    ctx.tick((src, field, s0, e0, tuple(newl), 'refused'), 'split:refused')
                    if field != 'keywords' and kw_nodes and 'follow' in str(ex):
                        aterms.append(f'Bool.eqb (args_guard_refuses {tags} {s0} {e0} {cbool(bool(newl))}) true')
                        ameta.append({'src': src, 'field': field, 'start': s0, 'stop': e0, 'code': bool(newl), 'merged_order': [t for _, _, t in merged], 'real_refuses': True, 'error': str(ex)[:100]})
                    if (m.src, ast.dump(m.a)) != before:
                        ctx.violation(f'split-refused-dirty|{field}', 'a refused slice put changed source or tree', {**desc, 'error': repr(ex)[:200], 'src_now': m.src})
                    elif not isinstance(ex, (fst.NodeError, ValueError, SyntaxError)):
                        ctx.violation(f'split-crash|{field}|{type(ex).__name__}', 'a slice put crashed', {**desc, 'error': repr(ex)[:200]})
                    continue
                ctx.tick((src, field, s0, e0, tuple(newl)), 'split:' + field)
                if field != 'keywords' and kw_nodes:
                    aterms.append(f'Bool.eqb (args_guard_refuses {tags} {s0} {e0} {cbool(bool(newl))}) false')
                    ameta.append({'src': src, 'field': field, 'start': s0, 'stop': e0, 'code': bool(newl), 'merged_order': [t for _, _, t in merged], 'real_refuses': False})
                got = [ast.unparse(x) for x in getattr(node.a, field)]
                other_after = [ast.dump(x) for x in getattr(node.a, other)]
                try:
                    re_ok = canon(ast.parse(m.src)) == canon(m.a if mode == 'exec' else ast.Module(body=[ast.Expr(value=m.a)], type_ignores=[]))
                except SyntaxError as ex2:
                    re_ok = False
                if got != exp or other_after != other_before or not re_ok:
                    ctx.violation(f'split|structure|{type(node.a).__name__}.{field}', 'resulting field differs from old[:start] + new + old[stop:], or the other argument field changed, or the source does not parse to the tree',
                                  {**desc, 'result_src': m.src, 'expected_field': exp, 'got_field': got, 'other_field_unchanged': other_after == other_before, 'source_parses_to_tree': re_ok})
    failed = coq_eval_bools('C03_arglikes', 'From Coq Require Import List Bool Arith.\nFrom PF Require Import models.Arglikes.\nImport ListNotations.\n', aterms, shard=500)
    ctx.correspondence('models/Arglikes.v kw_pos / guard_refuses / args_guard_refuses == merged source order of args+keywords, the refusal of keyword insertions and the refusal of args / bases slice edits by real put_slice', len(aterms), [ameta[k] for k in failed])


def stage_with_items_and_names(ctx: Ctx):
    """deterministic: (a) With.items where items are parenthesized tuples (a lone tuple item needs grouping parentheses or it reads as several items): every deletion /
    cut through every entry point; (b) the optional primitive fields of import aliases (asname) and other `as` names when the names themselves contain the letters 'as':
    set / change / delete. Judged against Python list semantics / the single changed field, on the re-parsed source and on the live tree."""
    import fst
    import itertools
    for head, items in itertools.product(('with', 'async with'), (['(a, b)', 'c'], ['c', '(a, b)'], ['(a, b)', '(c, d)'], ['(a, b)', 'c as d'], ['x', '(a, b)', 'y'], ['(a, b)', '(c,)', 'e'])):
        pre = 'async def f():\n    ' if head.startswith('async') else ''
        for parens in (False, True):
            src = pre + f'{head} ' + ('(' if parens else '') + ', '.join(items) + (')' if parens else '') + ': pass\n'
            try:
                ast.parse(src)
            except SyntaxError:
                continue
            n = len(items)
            for i in range(n):
                for j in range(i + 1, n + 1):
                    if j - i == n:
                        continue
                    for ep in ('put_slice_none', 'view_del', 'subview_remove', 'cut', 'child_remove', 'put_none'):
                        if ep in ('child_remove', 'put_none') and j - i != 1:
                            continue
                        m = fst.FST(src, 'exec')
                        w = m.body[0].body[0] if pre else m.body[0]
                        desc = {'src': src, 'start': i, 'stop': j, 'entry': ep}
                        try:
                            if ep == 'put_slice_none':
                                w.put_slice(None, i, j, 'items')
                            elif ep == 'view_del':
                                del w.items[i:j]
                            elif ep == 'subview_remove':
                                w.items[i:j].remove()
                            elif ep == 'cut':
                                w.get_slice(i, j, 'items', cut=True)
                            elif ep == 'child_remove':
                                w.items[i].remove()
                            else:
                                w.put(None, i, 'items')
                        except Exception as ex:
                            ctx.tick(None, 'withitems:refused')
                            continue
                        ctx.tick(('withitems', src, i, j, ep), 'withitems:' + ep)
                        want = ast.parse(src)
                        ww = want.body[0].body[0] if pre else want.body[0]
                        del ww.items[i:j]
                        try:
                            got_src = canon(ast.parse(m.src))
                        except SyntaxError as ex:
                            got_src = ('SyntaxError', str(ex))
                        if canon(m.a) != canon(want) or got_src != canon(want):
                            ctx.violation(f'With.items|structure|{ep}', 'resulting structure differs from old[:start] + old[stop:] (rest of tree unchanged)',
                                          {**desc, 'result_src': m.src, 'expected': ast.unparse(want), 'live_equals_expected': canon(m.a) == canon(want), 'reparsed_equals_expected': got_src == canon(want)})
    # (b)
    cases = [('import asab as a', 'names[0]', 'asname'), ('import asyncio as a', 'names[0]', 'asname'), ('from m import has as s', 'names[0]', 'asname'), ('import a.b as c', 'names[0]', 'asname'),
             ('import x as asx, asy as y', 'names[1]', 'asname'), ('from . import (has  as \\\n  s, t)', 'names[0]', 'asname'), ('import asas', 'names[0]', 'asname'), ('import a as b', 'names[0]', 'name'),
             ('from asm import basic as c', 'names[0]', 'name'), ('from asm import basic as c', '', 'module'),
             # dotted names written with blanks / line continuations around the dots, or with compatibility characters: the name in the source is not the string in the tree
             ('import a . b as c', 'names[0]', 'asname'), ('import a . b', 'names[0]', 'asname'), ('import a . b', 'names[0]', 'name'), ('import a \\\n . b as c', 'names[0]', 'asname'),
             ('import a \\\n . b as c, d', 'names[0]', 'name'), ('import a. b .c, d . e as f', 'names[1]', 'asname'), ('import a. b .c, d . e as f', 'names[0]', 'asname'),
             ('import \ufb01.\ufb02 as x', 'names[0]', 'asname'), ('import \ufb01.\ufb02', 'names[0]', 'asname'), ('import \ufb01.\ufb02, y', 'names[0]', 'name'), ('from m import \ufb01 as x', 'names[0]', 'asname'),
             ('from m import \ufb01', 'names[0]', 'asname')]
    for src, path, fld in cases:
        for newv in ('zz', 'as_', None):
            if newv is None and fld != 'asname':
                continue
            for how in ('attr', 'put'):
                m = fst.FST(src, 'exec')
                node = m.body[0] if not path else eval('m.body[0].' + path, {'m': m})
                old = getattr(node.a, fld)
                if old == newv:
                    continue
                desc = {'src': src, 'node': path, 'field': fld, 'old': old, 'new': newv, 'how': how}
                try:
                    if how == 'attr':
                        setattr(node, fld, newv)
                    else:
                        node.put(newv, fld)
                except Exception as ex:
                    ctx.tick(None, 'names:refused')
                    continue
                ctx.tick(('names', src, path, fld, newv, how), 'names:' + fld)
                want = ast.parse(src)
                wn = want.body[0] if not path else eval('w.body[0].' + path, {'w': want})
                setattr(wn, fld, newv)
                try:
                    got_src = canon(ast.parse(m.src))
                except SyntaxError as ex:
                    got_src = ('SyntaxError', str(ex))
                if canon(m.a) != canon(want) or got_src != canon(want):
                    ctx.violation(f'alias.{fld}|structure', 'setting one primitive field changed something else (or the source does not say what the tree says)',
                                  {**desc, 'result_src': m.src, 'expected': ast.unparse(want)})


def stage_needy_elements(ctx: Ctx):
    """deterministic: ONE element that needs its own parentheses where it lands (lambda / conditional / walrus / nested same-operator / tuple / generator), given as source
    without them, as FST and as pure AST, put into every position through every single-element and one-element-slice entry point: the result is
    old[:i] + [element] + old[j:] - the element stays one element"""
    import fst
    hosts = [('v = a and b and c\n', 'm.body[0].value', 'values', ' and ', ['lambda: x', 'y if z else w', 'p or q', 'n := 1', 'p and q']),
             ('v = a or b or c\n', 'm.body[0].value', 'values', ' or ', ['lambda: x', 'y if z else w', 'p or q', 'n := 1']),
             ('match s:\n    case a | b | c: pass\n', 'm.body[0].cases[0].pattern', 'patterns', ' | ', ['l as k', 'x | y']),
             ('v = a, b, c\n', 'm.body[0].value', 'elts', ', ', ['n := 1', 'p, q', 'lambda: x', 'y if z else w']),
             ('def f():\n    return a, b, c\n', 'm.body[0].body[0].value', 'elts', ', ', ['n := 1', 'p, q', 'yield r']),
             ('v = g[a, b, c]\n', 'm.body[0].value.slice', 'elts', ', ', ['p, q', 'y if z else w']),
             ('with a, b, c: pass\n', 'm.body[0]', 'items', ', ', ['p, q']),
             ('v = [e for e in it if a if b if c]\n', 'm.body[0].value.generators[0]', 'ifs', ' if ', ['lambda: x', 'y if z else w', 'n := 1']),
             ('f(a, b, c)\n', 'm.body[0].value', 'args', ', ', ['e for e in it']),
             ('v = a < b < c\n', 'm.body[0].value', 'comparators', None, ['lambda: x', 'y if z else w', 'p < q', 'n := 1', 'p or q'])]
    for src, path, field, sep, needy in hosts:
        base = fst.FST(src, 'exec')
        n = len(getattr(eval(path, {'m': base}).a, field))
        for el in needy:
            try:
                el_ast = ast.parse('(' + el + ')', mode='eval').body if field != 'patterns' else ast.parse(f'match _:\n case ({el}): pass').body[0].cases[0].pattern
            except SyntaxError as e:
                ctx.broken.append({'kind': 'harness', 'name': 'needy', 'detail': f'{el!r}: {e!r}'})
                continue
            if field == 'items':
                el_ast = ast.withitem(context_expr=el_ast, optional_vars=None)
            for i in range(n + 1):
                for ep in ('put', 'view_setitem', 'child_replace', 'put_slice_one', 'subview_replace', 'insert', 'view_insert', 'append', 'prepend', 'put_slice_insert_one'):
                    replace = ep in ('put', 'view_setitem', 'child_replace', 'put_slice_one', 'subview_replace')
                    if (replace and i == n) or (ep == 'append' and i != n) or (ep == 'prepend' and i != 0):
                        continue
                    for form in ('src', 'fst', 'ast'):
                        m = fst.FST(src, 'exec')
                        node = eval(path, {'m': m})
                        if form == 'src':
                            code = el
                        else:
                            try:
                                code = fst.FST(el, 'pattern' if field == 'patterns' else 'expr')
                            except Exception:
                                continue
                            if form == 'ast':
                                code = code.a
                        desc = {'src': src, 'field': field, 'element': el, 'index': i, 'entry': ep, 'form': form}
                        try:
                            view = getattr(node, field)
                            if ep == 'put':
                                node.put(code, i, field)
                            elif ep == 'view_setitem':
                                view[i] = code
                            elif ep == 'child_replace':
                                view[i].replace(code)
                            elif ep == 'put_slice_one':
                                node.put_slice(code, i, i + 1, field, one=True)
                            elif ep == 'subview_replace':
                                view[i:i + 1].replace(code, one=True)
                            elif ep == 'insert':
                                node.insert(code, i, field, one=True)
                            elif ep == 'view_insert':
                                view.insert(code, i, one=True)
                            elif ep == 'append':
                                view.append(code)
                            elif ep == 'prepend':
                                view.prepend(code)
                            else:
                                node.put_slice(code, i, i, field, one=True)
                        except Exception as ex:
                            ctx.tick(None, 'needy:refused')
                            continue
                        ctx.tick(('needy', src, el, i, ep, form), 'needy:' + ep)
                        # expected: the element, parenthesized, at position i of the rendered list
                        want_root = ast.parse(src)
                        wnode = eval(path.replace('m.', 'w.', 1), {'w': want_root})
                        lst = getattr(wnode, field)
                        if replace:
                            lst[i:i + 1] = [el_ast]
                        else:
                            lst[i:i] = [el_ast]
                        if field == 'comparators':
                            ops = wnode.ops
                            if not replace:
                                ops[i:i] = [copy.deepcopy(ops[min(i, len(ops) - 1)])]
                        want = canon(want_root)
                        got_live = canon(m.a)
                        try:
                            got_src = canon(ast.parse(m.src))
                        except SyntaxError as ex:
                            got_src = ('SyntaxError', str(ex))
                        if field == 'comparators' and not replace:
                            # which operator is repeated for an inserted operand is the implementation's choice: compare the operands only
                            strip = lambda c: repr(c).replace("'Lt'", "'_'")
                            ok = len(getattr(eval(path, {'m': m}).a, field)) == n + 1 and got_live == got_src
                        else:
                            ok = got_live == want and got_src == want
                        if not ok:
                            ctx.violation(f'needy-element|{type(node.a).__name__}.{field}|{ep}|{form}', 'an element that needs its own parentheses did not stay ONE element of the sequence',
                                          {**desc, 'result_src': m.src, 'live_equals_expected': got_live == want, 'reparsed_equals_expected': got_src == want})


def stage_clause_removal(ctx: Ctx):
    """deterministic: removing ALL statements of a clause that the statement can do without (the else of if / for / while / try, the finally of a try with handlers, the handlers
    of a try with a finally and no else), for every combination of the other clauses being there or not, under norm_self / norm False (default) and True, through every
    equivalent entry point: the clause is gone, the rest is unchanged; never refused"""
    import fst
    import itertools
    progs = []
    for has_h, has_e, has_f in itertools.product((False, True), repeat=3):
        if not (has_h or has_f) or (has_e and not has_h):
            continue
        src = 'pre\ntry:\n    a\n' + ('except E:\n    b\nexcept F as g:\n    c\n' if has_h else '') + ('else:\n    d\n    dd\n' if has_e else '') + ('finally:\n    e\n    ee\n' if has_f else '') + 'post\n'
        for star in (False, True):
            s_ = src.replace('except ', 'except* ') if star else src
            if star and not has_h:
                continue
            if has_e:
                progs.append((s_, 'orelse'))
            if has_f and has_h:
                progs.append((s_, 'finalbody'))
            if has_h and has_f and not has_e:
                progs.append((s_, 'handlers'))
    for head in ('if a:\n    b\n', 'while a:\n    b\n', 'for i in a:\n    b\n', 'async for i in a:\n    b\n'):
        src = 'pre\n' + head + 'else:\n    c\n    cc\n' + 'post\n'
        progs.append((src if not head.startswith('async') else None, 'orelse'))
    progs.append(('pre\nif a:\n    b\nelif c:\n    d\npost\n', 'orelse'))
    progs.append(('pre\nif a:\n    b\nelif c:\n    d\nelse:\n    e\npost\n', 'orelse'))
    for src, field in progs:
        if src is None:
            continue
        for nested in (False, True):
            s_ = src if not nested else 'def fn():\n' + ''.join('    ' + l + '\n' for l in src.split('\n')[:-1])
            path = 'body[1]' if not nested else 'body[0].body[1]'
            want = ast.parse(s_)
            wn = eval('want.' + path)
            setattr(wn, field, [])
            want_c = canon(ast.parse(ast.unparse(want)))
            for opts in ({}, {'norm_self': True}, {'norm': True}, {'norm_self': False}):
                for ep in ('put_slice', 'delattr', 'setattr_none', 'view_del', 'view_remove', 'view_cut', 'get_slice_cut', 'put_none'):
                    m = fst.FST(s_, 'exec')
                    node = eval('m.' + path)
                    desc = {'src': s_, 'field': field, 'options': opts, 'entry': ep}
                    try:
                        with fst.FST.options(**opts):
                            if ep == 'put_slice':
                                node.put_slice(None, 0, 'end', field)
                            elif ep == 'put_none':
                                node.put(None, 0, 'end', field)
                            elif ep == 'delattr':
                                delattr(node, field)
                            elif ep == 'setattr_none':
                                setattr(node, field, None)
                            elif ep == 'view_del':
                                del getattr(node, field)[:]
                            elif ep == 'view_remove':
                                getattr(node, field)[:].remove()
                            elif ep == 'view_cut':
                                getattr(node, field)[:].cut()
                            else:
                                node.get_slice(0, 'end', field, cut=True)
                    except Exception as ex:
                        ctx.tick(None, 'clause-removal:refused')
                        ctx.violation(f'clause-removal-refused|{type(node.a).__name__}.{field}|{type(ex).__name__}', 'removing a clause the statement can do without was refused',
                                      {**desc, 'error': repr(ex)[:300], 'expected_src': ast.unparse(want)})
                        continue
                    ctx.tick((s_, field, tuple(opts.items()), ep), 'clause-removal:' + ep)
                    try:
                        got_src = canon(ast.parse(m.src))
                    except SyntaxError as ex:
                        got_src = ('SyntaxError', str(ex))
                    if canon(m.a) != want_c or got_src != want_c:
                        ctx.violation(f'clause-removal|structure|{type(node.a).__name__}.{field}', 'after removing the clause the tree is not the statement without it (rest unchanged)',
                                      {**desc, 'result_src': m.src, 'expected_src': ast.unparse(want), 'live_equals_expected': canon(m.a) == want_c})


ARGS_OLDS = ['a, *, c', 'a, b, *, c', 'a, /, b', 'a, /, b, *, c', 'a, b=1, *v, c, d=2, **k', 'a, /, b, *v, c', '*, c', 'a, /', '*v', '**k', 'a', 'a, /, *, c', 'a=1, /, b=2, *, c=3, **k', 'a, *, c, d',
             'a, *v', 'a, *, c=1, **k', 'a, b, /', 'a, /, b=1, *, c', '\ufb01, /, \ufb02=1, *, \ufb03, \ufb00=2', '*, \ufb01, b', '*\ufb01, \ufb02, **\ufb03']
ARGS_NEWS = [None, 'x', '*x', 'y, *x', 'x, /', '*, x', 'x, /, y', '**kk', 'x=1', '*x: int', 'x, *, y', 'x, /, *, y', 'x, /, y, *z, w, **kk', 'x: int = 1', '*x, y', '*, x=1', 'x, y', 'x=1, /', '*x, **kk']


def _arg_elems(src, lam):
    """elements of an arguments text in source order: (category, name, annotation source, default source)"""
    a = (ast.parse(f'lambda {src}: 0', mode='eval').body if lam else ast.parse(f'def f({src}): pass').body[0]).args
    pos = a.posonlyargs + a.args
    defs = [None] * (len(pos) - len(a.defaults)) + list(a.defaults)
    u = lambda n: None if n is None else ast.unparse(n)
    out = [(0 if i < len(a.posonlyargs) else 1, p.arg, u(p.annotation), u(d)) for i, (p, d) in enumerate(zip(pos, defs))]
    if a.vararg:
        out.append((2, a.vararg.arg, u(a.vararg.annotation), None))
    out += [(3, p.arg, u(p.annotation), u(d)) for p, d in zip(a.kwonlyargs, a.kw_defaults)]
    if a.kwarg:
        out.append((4, a.kwarg.arg, u(a.kwarg.annotation), None))
    return out


def _args_render(elems):
    """the arguments text of a list of elements, None if no valid arguments has them in this order with these categories"""
    cats = [e[0] for e in elems]
    if cats != sorted(cats) or cats.count(2) > 1 or cats.count(4) > 1:
        return None
    seen_def = False
    for c, _, _, d in elems:
        if c < 2:
            if d is not None:
                seen_def = True
            elif seen_def:
                return None
    parts = []
    one = lambda e, pre='': pre + e[1] + (': ' + e[2] if e[2] else '') + ('=' + e[3] if e[3] else '')
    for i, e in enumerate(elems):
        c = e[0]
        if c == 3 and (i == 0 or elems[i - 1][0] < 2):
            parts.append('*')
        parts.append(one(e, {2: '*', 4: '**'}.get(c, '')))
        if c == 0 and (i + 1 == len(elems) or elems[i + 1][0] != 0):
            parts.append('/')
    return ', '.join(parts)


def stage_kind_change_and_view_reuse(ctx: Ctx):
    """deterministic: (a) ONE element of the merged virtual fields replaced by an element of the other kind (positional <-> keyword) in layouts where the column order differs from the
    source order; (b) one bounded sub-view object reused after an element was deleted through single-item assignment of None: it still covers its own elements"""
    import fst
    for src, path, virt in [('call(aaaaaaaa, bbbbbbbb,\n     c=1)\n', 'body[0].value', '_args'), ('call(aaaaaaaa, bbbbbbbb,\n     c=1, dddd=2,\n  e=3)\n', 'body[0].value', '_args'),
                            ('class K(Aaaaaaaa, Bbbbbbbb,\n  m=M): pass\n', 'body[0]', '_bases'), ('call(aaaaaaaa,\n    *bbbb,\n  c=1,\n **d)\n', 'body[0].value', '_args'),
                            ('call(k=1,\n     *ssssssss, j=2)\n', 'body[0].value', '_args')]:
        probe = fst.FST(src, 'exec')
        elems = [e_.src for e_ in getattr(eval('probe.' + path), virt)]
        head = src[:src.index('(') + 1]
        tail = src[src.rindex(')'):]
        for i in range(len(elems)):
            for code in ('xx', 'kk=vv', '*ss', '**dd'):
                exp = elems[:i] + [code] + elems[i + 1:]
                esrc = head + ', '.join(exp) + tail
                try:
                    want = canon(ast.parse(esrc))
                except SyntaxError:
                    continue
                for ep in ('put', 'setitem', 'child-replace'):
                    m = fst.FST(src, 'exec')
                    node = eval('m.' + path)
                    desc = {'src': src, 'field': virt, 'index': i, 'code': code, 'entry': ep}
                    try:
                        if ep == 'put':
                            node.put(code, i, virt)
                        elif ep == 'setitem':
                            getattr(node, virt)[i] = code
                        else:
                            getattr(node, virt)[i].replace(code)
                    except (fst.NodeError, ValueError, SyntaxError, NotImplementedError) as ex:
                        ctx.tick(None, 'kind-change:refused')
                        if m.src != src:
                            ctx.violation('kind-change|refusal-dirty', 'a refused put changed the source', {**desc, 'error': repr(ex)[:200], 'result_src': m.src})
                        continue
                    except Exception as ex:
                        ctx.violation(f'kind-change|crash|{type(ex).__name__}', 'a single-element put through a merged virtual field raised an internal error', {**desc, 'error': repr(ex)[:300]})
                        continue
                    ctx.tick(('kind-change', src, i, code, ep), 'kind-change:' + ep)
                    try:
                        got_src = canon(ast.parse(m.src))
                    except SyntaxError as ex:
                        got_src = ('SyntaxError', str(ex))
                    if canon(m.a) != want or got_src != want:
                        ctx.violation(f'kind-change|structure|{virt}', 'after replacing one element of a merged virtual field by an element of another kind the tree is not old[:i] + [new] + old[i+1:]',
                                      {**desc, 'result_src': m.src, 'expected_src': esrc, 'live_equals_expected': canon(m.a) == want})
    # (b)
    for base, (s0, e0) in [(['a', 'b', 'c', 'd'], (1, 3)), (['a', 'b', 'c', 'd', 'e'], (1, 4)), (['a', 'b', 'c'], (0, 2))]:
        for script in (['del0', 'append'], ['del0', 'set-1'], ['del0', 'len', 'append', 'set-1'], ['del-1', 'append'], ['del0', 'del0', 'append'], ['del0', 'insert0'], ['del0', 'iter', 'extend']):
            m = fst.FST('[' + ', '.join(base) + ']', 'expr')
            v = m.elts[s0:e0]
            L, s_, e_ = list(base), s0, e0
            ok, steps = True, []
            for op in script:
                try:
                    if op == 'del0':
                        if e_ - s_ < 1:
                            break
                        v[0] = None
                        del L[s_]
                        e_ -= 1
                    elif op == 'del-1':
                        if e_ - s_ < 1:
                            break
                        v[-1] = None
                        del L[e_ - 1]
                        e_ -= 1
                    elif op == 'append':
                        v.append('x')
                        L.insert(e_, 'x')
                        e_ += 1
                    elif op == 'set-1':
                        if e_ - s_ < 1:
                            break
                        v[-1] = 'y'
                        L[e_ - 1] = 'y'
                    elif op == 'insert0':
                        v.insert('w', 0)
                        L.insert(s_, 'w')
                        e_ += 1
                    elif op == 'extend':
                        v.extend('p, q')
                        L[e_:e_] = ['p', 'q']
                        e_ += 2
                    elif op == 'len':
                        if len(v) != e_ - s_:
                            ok = False
                    elif op == 'iter':
                        if [x.src for x in v] != L[s_:e_]:
                            ok = False
                except Exception as ex:
                    ctx.violation(f'view-reuse|raise|{type(ex).__name__}', 'reusing a bounded sub-view after a single-item deletion raised', {'list': base, 'window': [s0, e0], 'script': script, 'at': op, 'error': repr(ex)[:200]})
                    ok = None
                    break
                steps.append(op)
                if [x.src for x in m.elts] != L or [x.src for x in v] != L[s_:e_] or len(v) != e_ - s_:
                    ok = False
                if ok is False:
                    break
            ctx.tick(('view-reuse', tuple(base), s0, e0, tuple(script)), 'view-reuse')
            if ok is False:
                ctx.violation('view-reuse|window', 'a bounded sub-view reused after a single-item deletion no longer covers exactly its own elements',
                              {'list': base, 'window': [s0, e0], 'script': script, 'steps_done': steps, 'field_now': [x.src for x in m.elts], 'view_now': [x.src for x in v], 'expected_field': L, 'expected_view': L[s_:e_]})


OPT_FIELDS = [('assert (a)\n', 'body[0]', 'msg'), ('assert (a), "m"\n', 'body[0]', 'msg'), ('assert (a and\n b)\n', 'body[0]', 'msg'), ('assert (\n    a\n), (\n    m\n)\n', 'body[0]', 'msg'), ('assert a\n', 'body[0]', 'msg'),
              ('raise (E)\n', 'body[0]', 'cause'), ('raise (E) from (c)\n', 'body[0]', 'cause'), ('raise E from c\n', 'body[0]', 'cause'), ('x: (int)\n', 'body[0]', 'value'), ('x: (int) = (1)\n', 'body[0]', 'value'),
              ('def f() -> (r): pass\n', 'body[0]', 'returns'), ('def f(a=(1)): pass\n', 'body[0]', 'returns'), ('with (a) as (b): pass\n', 'body[0].items[0]', 'optional_vars'), ('with (a): pass\n', 'body[0].items[0]', 'optional_vars'),
              ('with (a), (b) as c: pass\n', 'body[0].items[0]', 'optional_vars'), ('def g():\n    return (v)\n', 'body[0].body[0]', 'value'), ('def g():\n    return\n', 'body[0].body[0]', 'value'),
              ('y = z[(a):(b):(c)]\n', 'body[0].value.slice', 'lower'), ('y = z[(a):(b):(c)]\n', 'body[0].value.slice', 'upper'), ('y = z[(a):(b):(c)]\n', 'body[0].value.slice', 'step'), ('y = z[::]\n', 'body[0].value.slice', 'upper'),
              ('y = z[:]\n', 'body[0].value.slice', 'step'), ('match v:\n    case (x) if (g): pass\n', 'body[0].cases[0]', 'guard'), ('match v:\n    case (x): pass\n', 'body[0].cases[0]', 'guard'),
              ('def f(a: (A) = (d)): pass\n', 'body[0].args.args[0]', 'annotation'), ('def f(a=(d)): pass\n', 'body[0].args.args[0]', 'annotation'), ('def f(*a: (A)): pass\n', 'body[0].args.vararg', 'annotation'),
              ('try: pass\nexcept (E) as n: pass\n', 'body[0].handlers[0]', 'type'), ('type T[U: (B)] = V\n', 'body[0].type_params[0]', 'bound'), ('type T[U] = (V)\n', 'body[0].type_params[0]', 'bound'),
              ('def g():\n    x = yield (v)\n', 'body[0].body[0].value', 'value'), ('def g():\n    x = (yield)\n', 'body[0].body[0].value', 'value'), ('if 1:\n    assert(a)if(b)else(c)\n', 'body[0].body[0]', 'msg')]
GLUED = [('z = f((a)and(d))\n', 'body[0].value.args[0].values[0]'), ('z = f((a)and(d))\n', 'body[0].value.args[0].values[1]'), ('z = p in(a)in(d)\n', 'body[0].value.comparators[0]'), ('z = [(a)if(c)else(d)]\n', 'body[0].value.elts[0].body'),
         ('z = [(a)if(c)else(d)]\n', 'body[0].value.elts[0].test'), ('z = [(a)for w in v]\n', 'body[0].value.elt'), ('z = [w for w in(a)if(c)]\n', 'body[0].value.generators[0].iter'), ('if x:\n    z = (a)or(d)\n', 'body[0].body[0].value.values[0]'),
         ('if x:\n    z = not(a)\n', 'body[0].body[0].value.operand'), ('if x:\n    return_ = (a)is(d)\n', 'body[0].body[0].value.left'), ('z = lambda:(a)if(c)else(d)\n', 'body[0].value.body.body')]


NAME_INDEX_PROGS = [('a = 0\ndef f(): pass\ndef g():\n    def inner(): pass\nclass h: pass\nb = 1\nasync def i(): pass\n', 'exec', '', ['body']),
                    ('class K:\n    """doc"""\n    x = 1\n    def f(self): pass\n    def g(self): pass\n    class h: pass\n    y = 2\n', 'exec', 'body[0]', ['body', '_body']),
                    ('if a:\n    pass\nelse:\n    def f(): pass\n    z = 1\n    def g(): pass\n    def h(): pass\n', 'exec', 'body[0]', ['orelse']),
                    ('try:\n    pass\nfinally:\n    p = 1\n    def f(): pass\n    class g: pass\n    def h(): pass\n', 'exec', 'body[0]', ['finalbody'])]


def stage_name_index_views(ctx: Ctx):
    """deterministic: NAME indexing (view['g']) of statement lists through every bounded view [a:b] and the full view: get / at() / assignment / deletion address exactly the definition
    of that name among the elements of the view (the same node, and the same result as the operation by integer index on the base field); a name outside the view is refused"""
    import fst
    VN_HDR = ('From Coq Require Import List Arith Bool.\nFrom PF Require Import models.ViewName.\nImport ListNotations.\n'
              'Definition on_eqb (a b : option nat) : bool := match a, b with Some x, Some y => Nat.eqb x y | None, None => true | _, _ => false end.\n')
    vn_terms, vn_meta, vn_ids = [], [], {}
    for src, mode, path, fields in NAME_INDEX_PROGS:
        for field in fields:
            def fresh():
                r = fst.FST(src, mode)
                b = eval('r.' + path) if path else r
                return r, b, getattr(b, field)
            _, b0, v0 = fresh()
            n = len(v0)
            names = {}
            for i in range(n):
                a = v0[i].a
                if isinstance(a, (ast.FunctionDef, ast.AsyncFunctionDef, ast.ClassDef)):
                    names[a.name] = i
            for a_ in range(0, n + 1):
                for b_ in list(range(a_, n + 1)) + [None]:
                    if b_ is None and a_:
                        continue
                    for name in list(names) + ['inner', 'nope']:
                        idx = names.get(name)
                        lo, hi = (0, n) if b_ is None else (a_, b_)
                        inside = idx is not None and lo <= idx < hi
                        rec = {'src': src, 'base': path or 'root', 'field': field, 'view': 'full' if b_ is None else f'[{a_}:{b_}]', 'name': name}
                        view_of = (lambda v: v) if b_ is None else (lambda v: v[a_:b_])
                        ctx.tick(('name-index', src, field, a_, b_, name), 'name-index:' + ('inside' if inside else 'outside'))
                        # get / at
                        r, b, v = fresh()
                        if name != 'inner' and b_ is not None:
                            # models/ViewName.v: the names of the REAL field, the view's bounds, the docstring offset of `_body`
                            real_field = 'body' if field == '_body' else field
                            off = len(getattr(b.a, real_field)) - len(v)
                            nm = lambda e: (vn_ids.setdefault(e.name, len(vn_ids) + 1) if isinstance(e, (ast.FunctionDef, ast.AsyncFunctionDef, ast.ClassDef)) else None)
                            names_ = '[' + '; '.join('None' if nm(e) is None else f'Some {nm(e)}' for e in getattr(b.a, real_field)) + ']'
                            try:
                                gotn = view_of(v)[name]
                                els = list(view_of(v))
                                obs = next((k for k, e in enumerate(els) if e is gotn), None)
                                obs_s = 'None' if obs is None else f'(Some {obs})'
                                direct = gotn.parent is b
                            except IndexError:
                                obs_s, direct = 'None', True
                            except Exception:
                                direct = False
                            if direct:
                                vn_terms.append(f'on_eqb (name_index {names_} {a_} {b_} {off} {vn_ids.setdefault(name, len(vn_ids) + 1)}) {obs_s}')
                                vn_meta.append({**rec, 'observed_index_in_view': obs_s})
                        for how in ('getitem', 'at'):
                            try:
                                got = view_of(v)[name] if how == 'getitem' else view_of(v).at(name)
                                err = None
                            except Exception as e:
                                got, err = None, e
                            if inside:
                                if err is not None or got is not v[idx]:
                                    ctx.violation(f'name-index|{how}|wrong-node', 'name indexing through a view does not return the definition of that name in the view',
                                                  {**rec, 'how': how, 'error': repr(err), 'got': None if got is None else got.src[:40], 'expected': v[idx].src[:40]})
                            elif name != 'inner' and not (err is not None and isinstance(err, (IndexError, KeyError, ValueError))) and not (how == 'at' and got is None):
                                ctx.violation(f'name-index|{how}|outside-accepted', 'name indexing through a view accepts a name that is not among the elements of the view',
                                              {**rec, 'how': how, 'error': repr(err), 'got': None if got is None else got.src[:40]})
                        if not inside:
                            continue
                        # assignment and deletion: same result as by integer index on the base field
                        for how in ('setitem', 'delitem'):
                            r1, b1, v1 = fresh()
                            r2, b2, v2 = fresh()
                            try:
                                if how == 'setitem':
                                    view_of(v1)[name] = 'x_new = 1'
                                    v2[idx] = 'x_new = 1'
                                else:
                                    del view_of(v1)[name]
                                    del v2[idx]
                                err = None
                            except Exception as e:
                                err = e
                            if err is not None or r1.src != r2.src:
                                ctx.violation(f'name-index|{how}|wrong-position', 'assignment / deletion by name through a view does not change exactly the definition of that name',
                                              {**rec, 'how': how, 'error': repr(err), 'result': r1.src, 'expected': r2.src})
                            else:
                                d = reparse_diffs(r1) if 'reparse_diffs' in globals() else []
                                if d:
                                    ctx.violation(f'name-index|{how}|tree', 'after assignment / deletion by name the tree differs from the parse of the source', {**rec, 'how': how, 'diffs': d[:4]})


    try:
        failed = coq_eval_bools('C03_viewname', VN_HDR, vn_terms, shard=300)
        ctx.correspondence("models/ViewName.v name_index == the position, among the elements of the view, of the node view['name'] returns (None = refused), every bounded view x every name", len(vn_terms), [vn_meta[k] for k in failed])
    except CoqEvalError as e:
        ctx.broken.append({'kind': 'correspondence', 'name': 'viewname', 'detail': str(e)[:2000]})

def stage_optional_and_glued(ctx: Ctx):
    """deterministic: (a) every optional single-node field next to a PARENTHESIZED required neighbour created / replaced / deleted through every entry point with one-line and multi-line
    code: exactly that field changes; (b) one operand that is parenthesized and glued to the keyword behind it replaced by code that spans lines: the new code does not merge with the keyword"""
    import fst
    codes = ['nn', '(nn)', 'nn.mm', 'ff(nn,\n   mm)', 'nn +\\\n mm']
    for src, path, fld in OPT_FIELDS:
        base = ast.parse(src)
        present = getattr(eval('base.' + path), fld) is not None
        jobs = [('put', c) for c in codes] + [('setattr', c) for c in codes[:2]]
        if present:
            jobs += [('put-none', None), ('delattr', None), ('child-remove', None)] + [('child-replace', c) for c in codes]
        for how, code in jobs:
            m = fst.FST(src, 'exec')
            node = eval('m.' + path)
            want = ast.parse(src)
            setattr(eval('want.' + path), fld, None if code is None else ast.parse('(' + code + ')', mode='eval').body)
            desc = {'src': src, 'node': path, 'field': fld, 'entry': how, 'code': code}
            try:
                esrc = ast.unparse(want)
                want_c = canon(ast.parse(esrc))
            except Exception:
                continue
            try:
                if how == 'put':
                    node.put(code, fld)
                elif how == 'setattr':
                    setattr(node, fld, code)
                elif how == 'put-none':
                    node.put(None, fld)
                elif how == 'delattr':
                    delattr(node, fld)
                elif how == 'child-remove':
                    getattr(node, fld).remove()
                else:
                    getattr(node, fld).replace(code)
            except (fst.NodeError, ValueError, SyntaxError, NotImplementedError) as ex:
                ctx.tick(None, 'optional-field:refused')
                if m.src != src:
                    ctx.violation('optional-field|refusal-dirty', 'a refused put changed the source', {**desc, 'error': repr(ex)[:200], 'result_src': m.src})
                continue
            except Exception as ex:
                ctx.violation(f'optional-field|crash|{type(ex).__name__}', 'a put to an optional field raised an internal error', {**desc, 'error': repr(ex)[:300]})
                continue
            ctx.tick(('optional-field', src, path, fld, how, code), 'optional-field:' + how)
            try:
                got_src = canon(ast.parse(m.src))
            except SyntaxError as ex:
                got_src = ('SyntaxError', str(ex))
            if canon(m.a) != want_c or got_src != want_c:
                ctx.violation(f'optional-field|structure|{type(node.a).__name__}.{fld}', 'after putting / deleting an optional field the tree is not the old one with exactly that field changed',
                              {**desc, 'result_src': m.src, 'expected_src': esrc, 'live_equals_expected': canon(m.a) == want_c})
    for src, path in GLUED:
        for code in ('b +\nc', 'b', 'b.c', '(b +\n c)', 'b if e else\nc', 'bb\n.c', 'b or\\\n c'):
            for how in ('replace', 'fst'):
                m = fst.FST(src, 'exec')
                node = eval('m.' + path)
                want = ast.parse(src)
                parts = path.rsplit('.', 1)
                holder = eval('want.' + parts[0])
                new_ast = ast.parse('(' + code + ')', mode='eval').body
                if '[' in parts[1]:
                    f_, i_ = parts[1][:-1].split('[')
                    getattr(holder, f_)[int(i_)] = new_ast
                else:
                    setattr(holder, parts[1], new_ast)
                want_c = canon(ast.parse(ast.unparse(want)))
                desc = {'src': src, 'node': path, 'code': code, 'entry': how}
                try:
                    node.replace(fst.FST(code, 'expr') if how == 'fst' else code)
                except (fst.NodeError, ValueError, SyntaxError, NotImplementedError):
                    ctx.tick(None, 'glued:refused')
                    continue
                except Exception as ex:
                    ctx.violation(f'glued|crash|{type(ex).__name__}', 'replacing one operand raised an internal error', {**desc, 'error': repr(ex)[:300]})
                    continue
                ctx.tick(('glued', src, path, code, how), 'glued-operand:' + how)
                try:
                    got_src = canon(ast.parse(m.src))
                except SyntaxError as ex:
                    got_src = ('SyntaxError', str(ex))
                if canon(m.a) != want_c or got_src != want_c:
                    ctx.violation('glued|structure', 'after replacing an operand that was glued to the keyword behind it the tree is not the old one with exactly that operand changed',
                                  {**desc, 'result_src': m.src, 'expected_src': ast.unparse(want), 'live_equals_expected': canon(m.a) == want_c})


MHDR = 'From Coq Require Import List Bool Arith.\nFrom PF Require Import models.ArgMarkers.\nImport ListNotations.'
_CATS = ['Pos', 'Arg', 'Var', 'Kwo', 'Kw']


def _param_tokens(src, lam, names):
    """the parameter list of the one def / lambda of src as model tokens: pieces between top-level commas"""
    import io
    import tokenize as _tk
    toks_ = [t for t in _tk.generate_tokens(io.StringIO(src).readline) if t.type not in (_tk.NL, _tk.NEWLINE, _tk.COMMENT, _tk.INDENT, _tk.DEDENT, _tk.ENDMARKER)]
    if lam:
        i0 = next(i for i, t in enumerate(toks_) if t.string == 'lambda') + 1
        depth, i1 = 0, i0
        while not (toks_[i1].string == ':' and depth == 0):
            depth += toks_[i1].string in '([{'
            depth -= toks_[i1].string in ')]}'
            i1 += 1
    else:
        i0 = next(i for i, t in enumerate(toks_) if t.string == '(') + 1
        depth, i1 = 0, i0
        while not (toks_[i1].string == ')' and depth == 0):
            depth += toks_[i1].string in '([{'
            depth -= toks_[i1].string in ')]}'
            i1 += 1
    pieces, cur, depth = [], [], 0
    for t in toks_[i0:i1]:
        if t.string == ',' and depth == 0:
            pieces.append(cur)
            cur = []
            continue
        depth += t.string in '([{'
        depth -= t.string in ')]}'
        cur.append(t.string)
    if cur:
        pieces.append(cur)
    out = []
    nm = lambda x: names.setdefault(x, len(names))
    for pc in pieces:
        if pc == ['/']:
            out.append('TSlash')
        elif pc == ['*']:
            out.append('TStar')
        elif pc[0] == '**':
            out.append(f'TKw {nm(pc[1])}')
        elif pc[0] == '*':
            out.append(f'TVar {nm(pc[1])}')
        else:
            out.append(f'TId {nm(pc[0])}')
    return out


def stage_arguments_sweep(ctx: Ctx):
    """deterministic: arguments._all as a Python list over arguments with the `/` and `*` markers in every place: every (start, stop) x new arguments of every category (each element
    keeps the category it has where it comes from): when those elements in that order form valid arguments the put is carried out and gives exactly them (markers re-derived),
    otherwise it is refused without a trace; def and lambda; put_slice / view slice assignment"""
    import fst
    canon = lambda a: _canon_full(a, args_flat=False)        # the category of every argument is part of the expected structure
    terms, meta = [], []
    for lam in (False, True):
        for old in ARGS_OLDS:
            olds = _arg_elems(old, lam)
            n = len(olds)
            src = f'v = lambda {old}: 0\n' if lam else f'def fn({old}): pass\n'
            # the default of one keyword-only argument: put and delete (an optional position of a list)
            for i, el in enumerate(olds):
                if el[0] != 3:
                    continue
                ki = sum(1 for e_ in olds[:i] if e_[0] == 3)
                for val in ('qq', None, '(q,\n r)'):
                    if val is None and el[3] is None:
                        continue
                    m = fst.FST(src, 'exec')
                    node = m.body[0].value.args if lam else m.body[0].args
                    desc = {'src': src, 'field': 'kw_defaults', 'index': ki, 'value': val}
                    try:
                        node.put(val, ki, 'kw_defaults')
                    except Exception as ex:
                        ctx.violation(f'arguments-sweep|kw_defaults-refused|{type(ex).__name__}', 'putting / deleting the default of a keyword-only argument was refused', {**desc, 'error': repr(ex)[:300]})
                        continue
                    ctx.tick((src, 'kw_defaults', ki, val), 'arguments:kw_defaults')
                    exp = list(olds)
                    exp[i] = (el[0], el[1], el[2], None if val is None else ast.unparse(ast.parse(val, mode='eval').body))
                    etext = _args_render(exp)
                    want = canon(ast.parse(f'v = lambda {etext}: 0\n' if lam else f'def fn({etext}): pass\n'))
                    try:
                        got_src = canon(ast.parse(m.src))
                    except SyntaxError as ex:
                        got_src = ('SyntaxError', str(ex))
                    if canon(m.a) != want or got_src != want:
                        ctx.violation('arguments-sweep|kw_defaults|structure', 'after putting / deleting the default of a keyword-only argument the arguments are not the old ones with that default changed',
                                      {**desc, 'result_src': m.src, 'live_equals_expected': canon(m.a) == want})
            for new in ARGS_NEWS:
                if lam and new and ':' in new:
                    continue
                news = _arg_elems(new, lam) if new else []
                for s0 in range(n + 1):
                    for e0 in range(s0, n + 1):
                        if new is None and s0 == e0:
                            continue
                        exp = olds[:s0] + news + olds[e0:]
                        etext = _args_render(exp)
                        for ep in ('put_slice', 'view_setslice'):
                            m = fst.FST(src, 'exec')
                            node = m.body[0].value.args if lam else m.body[0].args
                            desc = {'src': src, 'new': new, 'start': s0, 'stop': e0, 'entry': ep, 'expected_arguments': etext}
                            try:
                                if ep == 'put_slice':
                                    node.put_slice(new, s0, e0, '_all')
                                elif new is None:
                                    del node._all[s0:e0]
                                else:
                                    node._all[s0:e0] = new
                            except (fst.NodeError, ValueError, SyntaxError) as ex:
                                ctx.tick((src, new, s0, e0, ep), 'arguments:refused:' + ('valid' if etext is not None else 'invalid'))
                                if m.src != src:
                                    ctx.violation('arguments-sweep|refusal-dirty', 'a refused put changed the source', {**desc, 'error': repr(ex)[:200], 'result_src': m.src})
                                elif etext is not None:
                                    ctx.violation(f'arguments-sweep|refused|{norm_msg(str(ex))[:60]}', 'a put into arguments._all whose result is valid Python was refused', {**desc, 'error': repr(ex)[:300]})
                                continue
                            except Exception as ex:
                                ctx.violation(f'arguments-sweep|crash|{type(ex).__name__}', 'a put into arguments._all raised an internal error', {**desc, 'error': repr(ex)[:300]})
                                continue
                            ctx.tick((src, new, s0, e0, ep), 'arguments:' + ep)
                            try:
                                got_src = canon(ast.parse(m.src))
                            except SyntaxError as ex:
                                got_src = ('SyntaxError', str(ex))
                            if etext is None:
                                # carried out although these elements in this order are no valid arguments: at least the tree and the source must agree and hold the names in list order
                                names = [e[1] for e in _arg_elems(ast.unparse(node.a), lam)] if got_src == canon(m.a) else None
                                if names != [e[1] for e in exp]:
                                    ctx.violation('arguments-sweep|structure|unorderable', 'the arguments after the put are not old[:start] + new + old[stop:]', {**desc, 'result_src': m.src})
                                continue
                            if ep == 'put_slice' and not (len(got_src) == 2 and got_src[0] == 'SyntaxError'):
                                # the markers in the text written == the model's render of the expected elements; the model's reading of them == the elements
                                try:
                                    import unicodedata as _ud
                                    names = {}
                                    real = _param_tokens(m.src, lam, names)
                                    norm = {_ud.normalize('NFKC', k_): v_ for k_, v_ in names.items()}
                                    els = '[' + '; '.join(f'({_CATS[e_[0]]}, {norm.get(e_[1], 999)})' for e_ in exp) + ']'
                                    rt = '[' + '; '.join(real) + ']'
                                    terms.append(f'toks_eqb (render 1 {els}) {rt} && match parse {rt} with Some l => elems_eqb l {els} | None => false end && ok 0 {els}')
                                    meta.append({**desc, 'result_src': m.src, 'real_tokens': real, 'expected_elements': els})
                                except Exception as e:
                                    ctx.broken.append({'kind': 'harness', 'name': 'arguments_sweep tokens', 'detail': repr(e)[:200]})
                            want = canon(ast.parse(f'v = lambda {etext}: 0\n' if lam else f'def fn({etext}): pass\n'))
                            if canon(m.a) != want or got_src != want:
                                ctx.violation(f'arguments-sweep|structure|{"lambda" if lam else "def"}', 'the arguments after the put are not old[:start] + new + old[stop:] (each element in its own category)',
                                              {**desc, 'result_src': m.src, 'live_equals_expected': canon(m.a) == want})
    failed = coq_eval_bools('C03_argmarkers', MHDR, terms, shard=400)
    ctx.correspondence('models/ArgMarkers.v render == the markers in the parameter list real put_slice writes to arguments._all; parse (the model of Python\'s reading) of those tokens == the expected elements; ok holds of them',
                       len(terms), [meta[i] for i in failed])


def run(ctx: Ctx):
    ctx.rule = ('(1) exhaustive small-domain + random 64-bit argument tuples for the translated index functions, model (vm_compute) vs '
                'real function vs Python list; (2) random FSTView op sequences, model vs real, distinct = (field kind, op-name sequence, '
                'start, open/closed stop); (3) API oracle: per container kind random (old elements, new elements, start, stop, '
                'layout, code form, entry point); distinct = tuple of those; non-trivial = the request was carried out and compared')
    ctx.assumptions += ['CPython ast.parse is the reference for structure', 'render(old[:s]+new+old[e:]) is the expected program',
                        'refusal classes on the unchanged tree are listed in py/props/C03_refusals_allow.json (ordering rules of arguments/keywords)']
    if os.environ.get('C03_LEARN_REFUSALS') == '1':
        run_guarded(ctx, stage_api)
        return
    ok = stage_translate(ctx)
    if ok:
        ctx.build_props()
    run_guarded(ctx, stage_fixups_corr)
    run_guarded(ctx, stage_view_corr)
    run_guarded(ctx, stage_api)
    run_guarded(ctx, stage_orelse_sweep)
    run_guarded(ctx, stage_split_fields)
    run_guarded(ctx, stage_with_items_and_names)
    run_guarded(ctx, stage_needy_elements)
    run_guarded(ctx, stage_clause_removal)
    run_guarded(ctx, stage_arguments_sweep)
    run_guarded(ctx, stage_optional_and_glued)
    run_guarded(ctx, stage_kind_change_and_view_reuse)
    run_guarded(ctx, stage_name_index_views)


def replay(path):
    d = json.load(open(path))
    print(json.dumps(d, indent=1)[:4000])
    return 0
