"""C04 - Formatting and comments outside the edited element are preserved byte for byte."""

from __future__ import annotations

import ast
import collections
import re
import io
import json
import tokenize

from lib.common import *
from lib import edits
from lib.oracle import cmp_ast
from lib.progs import corpus
from props.C11 import stage_translate

LEVEL = 'proof'
HDR = ('From Coq Require Import List NArith Bool Arith.\nFrom PF Require Import kernel.PyBase models.Trivia.\nImport ListNotations.\n'
       'Definition res_eqb (a b : (nat * nat) * option nat * bool) : bool :=\n'
       '  let \'((l1, c1), s1, i1) := a in let \'((l2, c2), s2, i2) := b in\n'
       '  Nat.eqb l1 l2 && Nat.eqb c1 c2 && Bool.eqb i1 i2 && match s1, s2 with None, None => true | Some x, Some y => Nat.eqb x y | _, _ => false end.\n')

LINE_ALPHA = [' ', ' ', '\t', '#', '\\', 'a', 'b', ';', 'é']


def gen_line(rng):
    k = rng.randrange(7)
    if k == 0:
        return ''
    if k == 1:
        return ' ' * rng.randrange(1, 5)
    if k == 2:
        return ' ' * rng.randrange(0, 5) + '# c' + rng.choice(['', ' x', ' \\'])
    if k == 3:
        return ' ' * rng.randrange(0, 5) + '\\'
    if k == 4:
        return ' ' * rng.randrange(0, 5) + 'code' + rng.choice(['', '  # tail', ' \\'])
    return ''.join(rng.choice(LINE_ALPHA) for _ in range(rng.randrange(0, 6)))


def stage_trivia_corr(ctx: Ctx):
    from fst.fst_trivia import leading_trivia
    rng = ctx.rng
    terms, meta = [], []
    for it in range(ctx.scale(1200, 20000)):
        n = rng.randrange(1, 8)
        lines = [gen_line(rng) for _ in range(n)]
        ln = rng.randrange(0, n)
        indent = ' ' * rng.randrange(0, 5) if rng.random() < 0.8 else 'x '
        lines[ln] = indent + 'elem'
        col = len(indent)
        bound_ln = rng.randrange(0, ln + 1)
        bound_col = rng.choice([0, 0, rng.randrange(0, len(lines[bound_ln]) + 1)])
        cm = rng.choice(['none', 'all', 'block', rng.randrange(0, n + 1)])
        sp = rng.choice([False, True, 0, 1, 2, 3])
        try:
            r = leading_trivia(lines, bound_ln, bound_col, ln, col, cm, sp)
        except AssertionError:
            continue
        (tl, tc), spos, ind = r
        # the theorems' predicates evaluated on the REAL result (failing-input search at function level)
        import re as _re
        top = bound_ln + (1 if bound_col else 0)
        is_triv = lambda l: _re.fullmatch(r'[ \t]*(\\|#.*)?', l) is not None
        is_comm = lambda l: _re.match(r'[ \t]*#', l) is not None
        is_blank = lambda l: _re.fullmatch(r'[ \t]*(\\)?', l) is not None
        why = None
        if not (tl <= ln):
            why = 'text start below the element'
        elif (tl, tc) != (ln, col) and not (top <= tl):
            why = 'text start above the bound'
        elif cm == 'none' and (tl, tc) != (ln, col):
            why = "comments='none' selected lines above the element"
        elif (tl, tc) != (ln, col) and not all(is_triv(lines[i]) for i in range(tl, ln)):
            why = 'a code line inside the selected leading trivia'
        elif cm == 'block' and (tl, tc) != (ln, col) and not all(is_comm(lines[i]) for i in range(tl, ln)):
            why = "comments='block' selected a non-comment line"
        elif spos is not None and not (top <= spos[0] <= tl):
            why = 'space start outside [bound, text start]'
        elif spos is not None and not all(is_blank(lines[i]) for i in range(spos[0], tl)):
            why = 'a non-blank line inside the selected leading space'
        elif spos is not None and isinstance(sp, int) and not isinstance(sp, bool) and cm != 'all' and tl - spos[0] > sp:
            why = 'more blank lines selected than space=n allows'
        if why:
            ctx.violation(f'leading_trivia|{why}', 'leading_trivia selected lines it may not hand to an edit',
                          {'lines': lines, 'bound': [bound_ln, bound_col], 'elem': [ln, col], 'comments': cm, 'space': sp, 'result': [list(r[0]), list(spos) if spos else None, ind], 'why': why})
        cmc = {'none': 'CNone', 'all': 'CAll', 'block': 'CBlock'}.get(cm) if isinstance(cm, str) else f'(CLine {cm})'
        spc = 'SFalse' if sp is False else 'STrue' if sp is True else f'(SInt {sp})'
        exp = f'(({tl}, {tc}), {copt(spos[0] if spos else None, str)}, {cbool(ind is not None)})'
        terms.append(f'res_eqb (leading_trivia {clines(lines)} {bound_ln} {bound_col} {ln} {col} {cmc} {spc}) {exp}')
        meta.append({'lines': lines, 'bound': [bound_ln, bound_col], 'elem': [ln, col], 'comments': cm, 'space': sp, 'real': [list(r[0]), list(spos) if spos else None, ind]})
        ctx.tick(('triv', tuple(lines), bound_ln, bound_col, ln, col, str(cm), str(sp)), f'leading_trivia:{cm if isinstance(cm, str) else "int"}')
    ctx.sample({'trivia_case': meta[0]})
    failed = coq_eval_bools('C04_triv', HDR, terms, shard=600)
    ctx.correspondence('models/Trivia.v leading_trivia == fst_trivia.leading_trivia (random line blocks; comments in none/all/block/int; space in False/True/0..3)',
                       len(terms), [meta[i] for i in failed])


# ---- token-stream oracle ------------------------------------------------------------------------------------------

SOFT_LEFT = {'[', '@', 'as', '=', '->', ':', 'finally', 'else', 'elif', 'from', 'if', '*', '**', 'case', 'except', '|', 'and', 'or'}
SOFT_RIGHT = {']', ':', 'else', 'elif', 'if', '|', 'and', 'or', '='}


def toks(src):
    out = []
    try:
        for t in tokenize.generate_tokens(io.StringIO(src).readline):
            if t.type in (tokenize.NL, tokenize.NEWLINE, tokenize.INDENT, tokenize.DEDENT, tokenize.ENDMARKER):
                continue
            out.append((t.type, t.string, t.start, t.end))
    except (tokenize.TokenError, IndentationError, SyntaxError):
        return None
    return out


def key(t):
    return (t[0], t[1])


def target_extent(before_src, op):
    """(start, end) positions (1-based line, char col) of the edited element in the BEFORE source, or None"""
    a = ast.parse(before_src)
    try:
        n = edits.node_at(a, op['path'])
    except Exception:
        return None
    kind = op['kind']
    lines = before_src.split('\n')

    def pos(node):
        if getattr(node, 'end_col_offset', None) is None:
            return None
        s = (node.lineno, len(lines[node.lineno - 1].encode()[:node.col_offset].decode()))
        e = (node.end_lineno, len(lines[node.end_lineno - 1].encode()[:node.end_col_offset].decode()))
        deco = getattr(node, 'decorator_list', None)
        if deco:
            s = min(s, (deco[0].lineno, 0))
        return s, e
    if kind in ('replace_expr', 'replace_stmt', 'replace_pattern', 'remove', 'cut'):
        return pos(n)
    if kind in ('put_one', 'view_set', 'view_del'):
        v = getattr(n, op['field'])
        el = v[op['idx']]
        return pos(el) if isinstance(el, ast.AST) else None
    if kind in ('attr_assign', 'attr_del'):
        v = getattr(n, op['field'], None)
        if isinstance(v, ast.AST):
            return pos(v)
        if isinstance(v, list) and v and isinstance(v[0], ast.AST):
            p0, p1 = pos(v[0]), pos(v[-1])
            return (p0[0], p1[1]) if p0 and p1 else None
        return None
    if kind == 'replace_op':
        return None
    return None


GLOBAL_SOFT = {',', ';', '(', ')'}   # container separators / grouping parentheses may be added or dropped anywhere in the container (e.g. singleton tuple comma)


def judge(before_src, after_src, op, put_code_src):
    """returns None (fine / not judged) or a description of what changed outside the allowed window"""
    B, A = toks(before_src), toks(after_src)
    if B is None or A is None:
        return None
    B = [t for t in B if t[1] not in GLOBAL_SOFT]
    A = [t for t in A if t[1] not in GLOBAL_SOFT]
    ext = target_extent(before_src, op)
    if ext is None:
        return None
    if op['kind'] == 'attr_del' and op.get('field') in ('type', 'exc'):
        return None   # deleting an except handler's type also deletes its `as name`; deleting Raise.exc also deletes `from cause` (required)
    (s, e) = ext
    # indices of target tokens in B
    idx = [i for i, t in enumerate(B) if t[2] >= s and t[3] <= e]
    if not idx:
        return None
    i0, i1 = idx[0], idx[-1]
    # extend over the element's adjoining separator / introducer tokens, its own parentheses, and comments lying in the
    # gaps around the element (trivia that the options may select)
    lo = i0
    while lo > 0 and (B[lo - 1][1] in SOFT_LEFT or B[lo - 1][0] == tokenize.COMMENT):
        lo -= 1
    hi = i1
    while hi + 1 < len(B) and (B[hi + 1][1] in SOFT_RIGHT or B[hi + 1][0] == tokenize.COMMENT):
        hi += 1
    pre = [key(t) for t in B[:lo]]
    post = [key(t) for t in B[hi + 1:]]
    Ak = [key(t) for t in A]
    if len(Ak) >= len(pre) + len(post) and Ak[:len(pre)] == pre and (not post or Ak[-len(post):] == post):
        return None
    # where does it differ?
    p = 0
    while p < len(pre) and p < len(Ak) and pre[p] == Ak[p]:
        p += 1
    q = 0
    while q < len(post) and q < len(Ak) and post[-1 - q] == Ak[-1 - q]:
        q += 1
    return {'why': 'tokens outside the element (+separator/parentheses/adjacent comments) changed',
            'element_window': [key(t) for t in B[lo:hi + 1]][:14],
            'first_changed_before_window': pre[p:p + 6] if p < len(pre) else None,
            'last_changed_after_window': post[max(0, len(post) - q - 6):len(post) - q] if q < len(post) else None,
            'after_tokens_there': Ak[p:p + 6]}


def trivia_kinds(opt):
    """(leading kind, trailing kind) in {'none','block','all','line'} from a trivia option value (blank-line counts ignored)"""
    import re as _re

    def one(v, lead):
        if v is True:
            return 'block' if lead else 'line'
        if v is False:
            return 'none'
        if isinstance(v, int):
            return 'all'
        k = _re.sub(r'[+-]\d*$', '', v)
        return k or ('block' if lead else 'line')
    if isinstance(opt, tuple):
        if len(opt) == 0:
            return 'none', 'none'
        if len(opt) == 1:
            return 'block', one(opt[0], False)
        return one(opt[0], True), one(opt[1], False)
    return one(opt, True), 'line'


def strict_comment_check(before_src, after_src, op, put_code_src):
    """comments that the trivia option does NOT select must survive, in order (deletion-type ops on a single element)"""
    ext = target_extent(before_src, op)
    if ext is None:
        return None
    B, A = toks(before_src), toks(after_src)
    if B is None or A is None:
        return None
    (l0, c0), (l1, c1) = ext
    lines = before_src.split('\n')
    blk = lambda T: sum(1 for t in T if t[1] in ('else', 'finally', 'elif', 'except', 'case'))
    if blk(A) < blk(B):
        return None   # the edit removed a whole block clause (its last statement): comments inside that clause have nowhere to stay
    import re as _re
    is_comm = lambda i: 1 <= i <= len(lines) and _re.match(r'[ \t]*#', lines[i - 1]) is not None
    is_blank = lambda i: 1 <= i <= len(lines) and _re.fullmatch(r'[ \t]*\\?', lines[i - 1]) is not None
    lead, trail = trivia_kinds((op.get('options') or {}).get('trivia', True))
    allowed = set(range(l0, l1 + 1))
    # comments inside the element's own grouping parentheses belong to the (parenthesised) element
    idx = [i for i, t in enumerate(B) if t[2] >= (l0, c0) and t[3] <= (l1, c1)]
    if idx:
        lo, hi = idx[0], idx[-1]
        while True:
            j = lo - 1
            cs = []
            while j >= 0 and B[j][0] == tokenize.COMMENT:
                cs.append(j)
                j -= 1
            k = hi + 1
            ce = []
            while k < len(B) and B[k][0] == tokenize.COMMENT:
                ce.append(k)
                k += 1
            if j >= 0 and k < len(B) and B[j][1] == '(' and B[k][1] == ')':
                for q_ in cs + ce:
                    allowed.add(B[q_][2][0])
                lo, hi = j, k
            else:
                break
    starts_line = lines[l0 - 1][:c0].strip() == ''
    if starts_line:
        i = l0 - 1
        if lead == 'block':
            while is_comm(i):
                allowed.add(i)
                i -= 1
        elif lead == 'all':
            while is_comm(i) or is_blank(i):
                allowed.add(i)
                i -= 1
    if trail in ('block', 'all'):
        i = l1 + 1
        while is_comm(i) or (trail == 'all' and is_blank(i)):
            allowed.add(i)
            i += 1
    own_last_line_comment = True
    if trail == 'none':
        # the comment on the element's own last line is not selected: keep only comments strictly inside the element lines. For a BLOCK statement that comment is the line
        # comment of its last inner statement, which goes with the element
        try:
            own_last_line_comment = not any(isinstance(n_, (ast.stmt, ast.ExceptHandler, ast.match_case)) and getattr(n_, 'body', None) and isinstance(n_.body, list)
                                            and getattr(n_, 'lineno', None) == l0 and getattr(n_, 'end_lineno', None) == l1 and l1 > l0 for n_ in ast.walk(ast.parse(before_src)))
        except SyntaxError:
            pass
    required = [t[1] for t in B if t[0] == tokenize.COMMENT and not (t[2][0] in allowed and (trail != 'none' or not own_last_line_comment or t[2][0] != l1 or t[2] < (l1, c1)))]
    have = [t[1] for t in A if t[0] == tokenize.COMMENT]
    j = 0
    for c in required:
        while j < len(have) and have[j] != c:
            j += 1
        if j == len(have):
            return {'why': 'a comment not selected by the trivia option was lost or moved', 'comment': c, 'trivia_kinds': [lead, trail],
                    'element_lines': [l0, l1]}
        j += 1
    return None


def comment_check(before_src, after_src, put_code_src):
    """no comment duplicated: multiset of comments after <= before + comments in the code put"""
    B, A = toks(before_src), toks(after_src)
    if B is None or A is None:
        return None
    from collections import Counter
    cb = Counter(t[1] for t in B if t[0] == tokenize.COMMENT)
    ca = Counter(t[1] for t in A if t[0] == tokenize.COMMENT)
    extra = Counter()
    if put_code_src:
        P = toks(put_code_src if put_code_src.endswith('\n') else put_code_src + '\n')
        if P:
            extra = Counter(t[1] for t in P if t[0] == tokenize.COMMENT)
        else:
            for l in put_code_src.split('\n'):
                if '#' in l:
                    extra[l[l.index('#'):]] += 1
    dup = ca - cb - extra
    if dup:
        return {'why': 'comment duplicated or invented', 'comments': dict(dup)}
    return None


PHDR = 'From Coq Require Import List Bool Arith.\nFrom PF Require Import models.TriviaParams.\nImport ListNotations.\n'


def stage_params_corr(ctx: Ctx):
    """models/TriviaParams.v params == fst_trivia.get_trivia_params: every shape of the option (single value, pair, (), (x,)) over every kind of part
    (bool, int, KIND, KIND+N, KIND+, KIND-N, KIND-, +N, +, -N, -) and both values of `neg` (exhaustive up to the numbers used)"""
    from fst.fst_trivia import get_trivia_params
    kinds = {None: '', 'KNone': 'none', 'KAll': 'all', 'KBlock': 'block', 'KLine': 'line'}
    parts = [(f'PBool {cbool(b)}', b) for b in (True, False)] + [(f'PInt {n}', n) for n in (0, 1, 5)]
    for ck, pk in kinds.items():
        kc = 'None' if ck is None else f'(Some {ck})'
        if ck is not None:
            parts.append((f'PStr {kc} XNone', pk))
        for n in (None, 0, 1, 3):
            nc = 'None' if n is None else f'(Some {n})'
            parts.append((f'PStr {kc} (XPlus {nc})', f'{pk}+{"" if n is None else n}'))
            parts.append((f'PStr {kc} (XMinus {nc})', f'{pk}-{"" if n is None else n}'))

    def c_tri(c, s, n):
        cc = f'CInt {c}' if isinstance(c, int) and not isinstance(c, bool) else 'CKind ' + {'none': 'KNone', 'all': 'KAll', 'block': 'KBlock', 'line': 'KLine'}[c]
        sc = 'SpFalse' if s is False else 'SpTrue' if s is True else f'SpN {s}'
        return f'({cc}, {sc}, {cbool(n)})'

    terms, meta = [], []
    opts = [(f'OOne ({pc})', pv) for pc, pv in parts] + [('OEmpty', ())] + [(f'OSingle ({pc})', (pv,)) for pc, pv in parts] + \
           [(f'OPair ({lc}) ({tc})', (lv, tv)) for lc, lv in parts for tc, tv in parts]
    for oc, ov in opts:
        for neg in (False, True):
            try:
                r = get_trivia_params(ov, neg)
            except AssertionError:
                continue      # 'line' on the leading side is asserted against
            if r[0] == '' or r[3] == '':
                continue
            terms.append(f'params_eqb (params {cbool(neg)} ({oc})) ({c_tri(*r[:3])}, {c_tri(*r[3:])})')
            meta.append({'trivia': repr(ov), 'neg': neg, 'real': repr(r)})
            ctx.tick(('params', repr(ov), neg), 'trivia-params')
    failed = coq_eval_bools('C04_params', PHDR, terms, shard=3000)
    ctx.correspondence('models/TriviaParams.v params == fst_trivia.get_trivia_params (all option shapes x all part kinds x neg)', len(terms), [meta[i] for i in failed])


def stage_oracle(ctx: Ctx, progs):
    import fst
    rng = ctx.rng
    nseq = ctx.scale(300, 6000)
    judged = 0
    for si in range(nseq):
        src = rng.choice(progs)
        root = fst.FST(src, 'exec')
        hist = []
        for step in range(rng.randrange(1, ctx.scale(6, 20))):
            op = edits.gen_op(rng, root)
            if not op or op['kind'] in ('put_docstr', 'put_line_comment'):
                continue
            before = root.src
            r, e = edits.apply(root, op)
            hist.append({'op': edits.op_brief(op), 'result': r})
            if r != 'ok':
                continue
            after = root.src
            code = op.get('code') if isinstance(op.get('code'), str) else None
            ctx.tick((hash(before) & 0xffffff, json.dumps(edits.op_brief(op), default=repr, sort_keys=True)), 'op:' + op['kind'])
            if edits.eof_trailing_space_case(before, op) or edits.continuation_semicolon_case(before, op):
                # the recorded C01 findings: the splice can leave tree and source out of step although this step's tokens look fine; judging LATER steps of
                # this history would only re-report that under other names
                from lib.oracle import reparse_diffs as _rd
                dd = _rd(root)
                if dd:
                    ctx.violation('stmt-put-at-eof-without-newline-with-trailing-space-trivia' if edits.eof_trailing_space_case(before, op) else 'stmt-put-before-continuation-semicolon-with-trailing-trivia',
                                  'a statement-level edit left source and tree out of step', {'start_src': src, 'history': hist, 'before': before, 'after': after, 'last_op': edits.op_brief(op), 'diffs': dd})
                    break
            try:
                ast.parse(after)
                parses = True
            except SyntaxError as ex:
                parses = False
                v = {'why': 'the edited source no longer parses (text damaged)', 'error': str(ex)}
            if parses:
                v = judge(before, after, op, code)
                if v is None:
                    v = comment_check(before, after, code)
                else:
                    judged += 1
                if v is None and op['kind'] in ('remove', 'cut', 'view_del', 'replace_stmt', 'replace_expr', 'put_one', 'view_set'):
                    v = strict_comment_check(before, after, op, code)
            if v:
                sig = f'text|{op["kind"]}|{v["why"][:40]}'
                if edits.eof_trailing_space_case(before, op):
                    sig = 'stmt-put-at-eof-without-newline-with-trailing-space-trivia'
                if v['why'].startswith('a comment not selected') and before.count('elif') < after.count('elif'):
                    # the lost comment stood between a block body and its `else:` line, and the edit merged `else:` + `if` into `elif`
                    sig = 'comment-lost|else-if-merged-into-elif'
                ctx.violation(sig, 'an edit changed tokens or comments outside the edited element',
                              {'start_src': src, 'history': hist, 'before': before, 'after': after, 'last_op': edits.op_brief(op), **v})
                break
            if parses:
                from lib.oracle import reparse_diffs as _rd2
                if _rd2(root):
                    break     # a documented incomplete node (e.g. an Assign whose only target was removed without norm): tree and source are out of step by design,
                              # whether edits keep them in step is C01's subject (with norm); later steps of this history would only inherit the state
    ctx.extra['edits_judged_by_window'] = judged


def stage_line_comment(ctx: Ctx, progs):
    """put_line_comment / put_docstr: only the addressed comment / docstring may change"""
    import fst
    rng = ctx.rng
    for it in range(ctx.scale(150, 2500)):
        src = rng.choice(progs)
        root = fst.FST(src, 'exec')
        stmts = [n for n in ast.walk(root.a) if isinstance(n, ast.stmt)]
        if not stmts:
            continue
        n = rng.choice(stmts)
        before = root.src
        cm = rng.choice(['new', 'x y', None, 'ü'])
        try:
            n.f.put_line_comment(cm)
        except Exception:
            continue
        after = root.src
        ctx.tick(('lc', hash(before) & 0xffffff, n.lineno, cm), 'put_line_comment')
        B, A = toks(before), toks(after)
        if B is not None and A is None:
            sig = 'line-comment-put-before-continuation-semicolon' if edits.stmt_before_continuation_semicolon(before, n) else 'line-comment|untokenizable'
            ctx.violation(sig, 'the source after put_line_comment no longer tokenizes', {'src': before, 'after': after, 'comment': cm, 'stmt_line': n.lineno})
            continue
        if B is None or A is None:
            continue
        cb = [key(t) for t in B if t[0] != tokenize.COMMENT and t[1] != ';']   # a statement followed by `;` is split onto its own line
        ca = [key(t) for t in A if t[0] != tokenize.COMMENT and t[1] != ';']
        commb = [t[1] for t in B if t[0] == tokenize.COMMENT]
        comma = [t[1] for t in A if t[0] == tokenize.COMMENT]
        if cb != ca:
            sig = 'line-comment-put-before-continuation-semicolon' if edits.stmt_before_continuation_semicolon(before, n) else 'line-comment|code'
            ctx.violation(sig, 'put_line_comment changed code tokens', {'src': before, 'after': after, 'comment': cm, 'stmt_line': n.lineno})
            continue
        # at most one comment differs (added / removed / replaced), all others identical and in order
        i = 0
        while i < len(commb) and i < len(comma) and commb[i] == comma[i]:
            i += 1
        j = 0
        while j < len(commb) - i and j < len(comma) - i and commb[-1 - j] == comma[-1 - j]:
            j += 1
        if len(commb) - i - j > 1 or len(comma) - i - j > 1:
            ctx.violation('line-comment|comments', 'put_line_comment changed more than the addressed comment', {'src': before, 'after': after, 'comment': cm, 'stmt_line': n.lineno})


def stage_targeted(ctx: Ctx):
    """deterministic sweeps of two situations random edits rarely hit: (a) statement delete / cut / replace with trailing-space
    trivia when blank lines and then a comment of the NEXT statement follow; (b) two successive replacements of an expression
    that stands behind non-ASCII text on its line"""
    import fst
    import tokenize as _tk
    import io as _io

    def comments(src):
        try:
            return sorted(t.string for t in _tk.generate_tokens(_io.StringIO(src).readline) if t.type == _tk.COMMENT)
        except Exception:
            return None

    def comment_lines(src):
        return [(t.start[0] - 1, t.string) for t in _tk.generate_tokens(_io.StringIO(src).readline) if t.type == _tk.COMMENT]

    # (a)
    trivias = [(True, 'line+2'), 'line+', (False, 'block+2'), ('all+', 'line+1'), (True, 'block+'), ('block', 'line+1'), (True, 'none+2'), (True, True), None,
               (False, '+1'), (True, '+'), ('block', '+2'), ('+1', '+1'), (True, 'line'), ('none', '-1'), (True, '-')]   # '+N' / '-N' alone is shorthand for 'line+N' / 'line-N' (trailing)
    for blanks in (0, 1, 2, 3):
        for own in ('', '  # own'):
            for ind, head in (('', ''), ('    ', 'if c:\n')):
                body = f'{ind}a = 1{own}\n' + '\n' * blanks + f'{ind}# belongs to b\n{ind}b = 2\n' + f'{ind}c = 3\n'
                src = head + body
                for tv in trivias:
                    for act in ('remove', 'cut', 'replace', 'put_slice_del'):
                        root = fst.FST(src, 'exec')
                        holder = root.body[0] if head else root
                        st = holder.body[0]
                        kw = {} if tv is None else {'trivia': tv}
                        try:
                            if act == 'remove':
                                st.remove(**kw)
                            elif act == 'cut':
                                st.cut(**kw)
                            elif act == 'replace':
                                st.replace('z = 0', **kw)
                            else:
                                holder.put_slice(None, 0, 1, 'body', **kw)
                        except Exception:
                            continue
                        ctx.tick(('targeted-a', blanks, own, ind, repr(tv), act), 'op:targeted-trailing-space')
                        after = root.src
                        want = ['# belongs to b'] + (['# own'] if own and act == 'replace' and False else [])
                        have = comments(after)
                        # documented reading of the trailing part of the option: bool -> 'line' / 'none'; a string is KIND[+N|-N] where a missing KIND means 'line'
                        tpart = True if tv is None else (tv[-1] if isinstance(tv, tuple) and tv else True if not isinstance(tv, tuple) else False)
                        tkind = ('line' if tpart else 'none') if isinstance(tpart, bool) else (re.split(r'[+-]', tpart)[0] or 'line')
                        if blanks == 0 and tkind in ('block', 'all'):
                            continue      # the comment block directly below the statement IS selected by a trailing 'block' / 'all'
                        if have is None or '# belongs to b' not in have:
                            ctx.violation('comment-lost|next-statement-comment-after-blank-lines', 'deleting a statement with trailing-space trivia removed a comment line that belongs to the next statement',
                                          {'before': src, 'after': after, 'action': act, 'trivia': repr(tv)})
                        try:
                            ast.parse(after)
                        except SyntaxError as e:
                            ctx.violation('text|targeted|unparsable', 'the edited source no longer parses', {'before': src, 'after': after, 'action': act, 'trivia': repr(tv), 'error': str(e)})
    # (h) the line above the removed statement ends in a comment whose last character is a backslash (NOT a line continuation): the comment stays
    for ind, head in (('', ''), ('    ', 'if c:\n'), ('        ', 'class K:\n    def m(self):\n')):
        for above in (f'{ind}a = 1  # dir is C:\\tools\\\n', f'{ind}a = 1; aa = 2  # after a semicolon \\\n', None):
            if above is None:
                if not head:
                    continue
                lines_ = head.split('\n')
                src = '\n'.join(lines_[:-2] + [lines_[-2] + '  # header comment \\']) + '\n' + f'{ind}b = 2\n{ind}c = 3\n'
                idx = 0
            else:
                src = head + above + f'{ind}b = 2\n{ind}c = 3\n'
                idx = 2 if ';' in above else 1
            try:
                ast.parse(src)
            except SyntaxError as e:
                ctx.broken.append({'kind': 'harness', 'name': 'targeted-h', 'detail': f'{src!r}: {e}'})
                continue
            for tv in (None, (False, False), (True, True), ('all', 'all'), ('block', 'line'), False, 'all+'):
                for act in ('remove', 'cut', 'replace', 'put_slice_del', 'put_slice_repl'):
                    root = fst.FST(src, 'exec')
                    holder = root
                    for _ in range(head.count(':\n')):
                        holder = holder.body[0]
                    st = holder.body[idx]
                    kw = {} if tv is None else {'trivia': tv}
                    try:
                        if act == 'remove':
                            st.remove(**kw)
                        elif act == 'cut':
                            st.cut(**kw)
                        elif act == 'replace':
                            st.replace('z = 0', **kw)
                        elif act == 'put_slice_del':
                            holder.put_slice(None, idx, idx + 1, 'body', **kw)
                        else:
                            holder.put_slice('z = 0', idx, idx + 1, 'body', **kw)
                    except Exception:
                        continue
                    ctx.tick(('targeted-h', src, repr(tv), act), 'op:targeted-backslash-comment-above')
                    if comments(root.src) != comments(src):
                        ctx.violation('comment-lost|comment-ending-in-backslash-above', 'removing / replacing a statement lost the comment on the line above it (a comment that ends in a backslash is not a line continuation)',
                                      {'before': src, 'after': root.src, 'action': act, 'trivia': repr(tv)})
    # (i) leading operands of a BoolOp deleted when the operator is written directly against the next operand: nothing but the operands and their operators goes
    for src, path, n in [('x = a or(b) or c\n', 'body[0].value', 3), ('x = a and[b] and c\n', 'body[0].value', 3), ('x = a and"s"and d\n', 'body[0].value', 3), ('if a and(b or c) and d: pass\n', 'body[0].test', 3),
                         ('x = a or-b or c\n', 'body[0].value', 3), ('x = (a)or(b)or(c)or d\n', 'body[0].value', 4), ('x = a  or\\\n  b or{c}\n', 'body[0].value', 3), ('x = not a or not b or not c\n', 'body[0].value', 3)]:
        for k in range(1, n - 1):
            for act in ('put_slice_del', 'remove_first'):
                if act == 'remove_first' and k != 1:
                    continue
                root = fst.FST(src, 'exec')
                node = eval('root.' + path)
                want = ast.parse(src)
                wn = eval('want.' + path)
                del wn.values[:k]
                try:
                    if act == 'put_slice_del':
                        node.put_slice(None, 0, k, 'values')
                    else:
                        node.values[0].remove()
                except Exception as e:
                    continue
                ctx.tick(('targeted-i', src, k, act), 'op:targeted-boolop-glued-operator')
                try:
                    ok = ast.dump(ast.parse(root.src)) == ast.dump(ast.parse(ast.unparse(want)))
                except SyntaxError:
                    ok = False
                if not ok:
                    ctx.violation('text|targeted|boolop-leading-operands', 'deleting the leading operands of a BoolOp removed (or damaged) text of the operands that stay',
                                  {'before': src, 'after': root.src, 'deleted_operands': k, 'action': act, 'expected': ast.unparse(want)})
    # (j) after the extents of the enclosing blocks were read, the line comment of a block's last (nested) statement is replaced by a longer / shorter one, added or removed, THEN
    #     the block is removed / cut / replaced: the result is what the same removal gives on a fresh tree of the commented source
    for src, cpath, bpaths in [('if x:\n    a = 1  # c\nb = 2\n', 'body[0].body[0]', ['body[0]']), ('def f():\n    if x:\n        a = 1  # c\n    z\nb = 2\n', 'body[0].body[0].body[0]', ['body[0].body[0]', 'body[0]']),
                               ('class K:\n    def m(self):\n        while q:\n            t  # c\nafter  # d\n', 'body[0].body[0].body[0].body[0]', ['body[0].body[0].body[0]', 'body[0].body[0]', 'body[0]']),
                               ('try:\n    a\nfinally:\n    b  # c\nd\n', 'body[0].finalbody[0]', ['body[0]'])]:
        for newc in ('a much longer comment than before', 'x', None, 'é ü'):
            for bpath in bpaths:
                for act in ('remove', 'cut', 'replace'):
                    for tv in (None, (False, False), ('all', 'all')):
                        kw = {} if tv is None else {'trivia': tv}
                        root = fst.FST(src, 'exec')
                        for g_ in root.walk(True):
                            g_.bloc
                            g_.loc
                        eval('root.' + bpath).copy()
                        try:
                            eval('root.' + cpath).put_line_comment(newc)
                        except Exception:
                            continue
                        mid = root.src
                        fresh = fst.FST(mid, 'exec')
                        outs = []
                        for t_ in (root, fresh):
                            try:
                                b_ = eval('t_.' + bpath, {'t_': t_})
                                if act == 'remove':
                                    b_.remove(**kw)
                                elif act == 'cut':
                                    b_.cut(**kw)
                                else:
                                    b_.replace('zz = 0', **kw)
                                outs.append(t_.src)
                            except Exception as e:
                                outs.append('!' + type(e).__name__)
                        ctx.tick(('targeted-j', src, newc, bpath, act, repr(tv)), 'op:targeted-comment-then-block-removal')
                        if outs[0] != outs[1]:
                            ctx.violation('text|targeted|comment-then-block-removal', 'removing a block after the line comment of its last statement was rewritten does not give what the same removal gives on a fresh tree',
                                          {'before': src, 'after_comment': mid, 'block': bpath, 'action': act, 'trivia': repr(tv), 'after': outs[0], 'fresh_tree_gives': outs[1]})
    # (k) the tail of a sequence whose closing bracket is followed on the same line by the separator of the ENCLOSING sequence, edited with non-ASCII code: nothing of the enclosing sequence goes
    for src, path in [('x = f((a, b), c)\n', 'body[0].value.args[0]'), ('y = [(a, b), c]\n', 'body[0].value.elts[0]'), ('z = f(\n    (a, b), c,\n)\n', 'body[0].value.args[0]'), ('w = {(a, b): c, d: e}\n', 'body[0].value.keys[0]'),
                      ('v = g([a, b], k=c)\n', 'body[0].value.args[0]'), ("u = ('é', (a, b), c)\n", 'body[0].value.elts[1]')]:
        for how, code in (('append', "'日本'"), ('append', 'éé'), ('replace-last', "'日本語'"), ('put_slice-last', "'éé', ü"), ('extend', "ü, 'ö'"), ('append', 'x')):
            root = fst.FST(src, 'exec')
            node = eval('root.' + path)
            want = ast.parse(src)
            wn = eval('want.' + path)
            new_elts = [e_ for e_ in ast.parse('(' + code + ',)', mode='eval').body.elts]
            try:
                if how in ('append', 'extend'):
                    (node.elts.append if how == 'append' else node.elts.extend)(code)
                    wn.elts = wn.elts + new_elts
                elif how == 'replace-last':
                    node.elts[-1] = code
                    wn.elts = wn.elts[:-1] + new_elts
                else:
                    node.put_slice(code, len(wn.elts) - 1, len(wn.elts), 'elts')
                    wn.elts = wn.elts[:-1] + new_elts
            except Exception:
                continue
            ctx.tick(('targeted-k', src, how, code), 'op:targeted-tail-before-outer-separator')
            try:
                ok = ast.dump(ast.parse(root.src)) == ast.dump(ast.parse(ast.unparse(want)))
            except SyntaxError:
                ok = False
            if not ok:
                ctx.violation('text|targeted|tail-before-outer-separator', 'editing the tail of a sequence damaged the enclosing sequence (its separator / elements)', {'before': src, 'after': root.src, 'how': how, 'code': code, 'expected': ast.unparse(want)})
    # (c) docstr=False / 'strict': moving or re-indenting statements never touches the inside of multi-line strings that are not docstrings
    strs = lambda t: sorted(n.value for n in ast.walk(t) if isinstance(n, ast.Constant) and isinstance(n.value, str))
    progs_c = ['if a:\n    pass\nelif b:\n    x = 1\n    \'\'\'not a docstring\ncontinued at col 0\n      and more\'\'\'\n    y = 2\n',
               'if a:\n    pass\nelse:\n    if b:\n        \'\'\'bare\nstring\'\'\'\n',
               'def f():\n    x = 0\n    \'\'\'not first\nso no docstring\'\'\'\n    if c:\n        s = \'\'\'assigned\nvalue\'\'\'\n']
    for src in progs_c:
        for docstr in (False, 'strict'):
            probe = fst.FST(src, 'exec')
            blocks = [(probe.child_path(f), fld) for f in probe.walk(True) for fld in ('body', 'orelse') if isinstance(getattr(f.a, fld, None), list) and getattr(f.a, fld) and isinstance(f.a, (ast.stmt, ast.Module))]
            for path, fld in blocks:
                n = len(getattr(probe.child_from_path(path).a, fld))
                for idx in range(n + 1):
                    for act in ('insert', 'insert_if', 'cut_put_back', 'indent_move'):
                        if docstr == 'strict' and act in ('cut_put_back', 'indent_move'):
                            continue      # a bare string that becomes the first statement of the extracted piece IS a docstring there under 'strict'
                        root = fst.FST(src, 'exec')
                        node = root.child_from_path(path)
                        before = strs(root.a)
                        try:
                            if act == 'insert':
                                node.put_slice('new_stmt = 1', idx, idx, fld, docstr=docstr)
                            elif act == 'insert_if':
                                node.put_slice('if q:\n    r', idx, idx, fld, docstr=docstr)
                            elif act == 'cut_put_back':
                                if idx >= n:
                                    continue
                                piece = node.get_slice(idx, idx + 1, fld, cut=True, docstr=docstr)
                                node.put_slice(piece, idx, idx, fld, docstr=docstr)
                            else:
                                if idx >= n:
                                    continue
                                piece = node.get_slice(idx, idx + 1, fld, docstr=docstr)
                                root.put_slice(fst.FST('if deeper:\n    if more:\n        pass', 'exec'), 'end', 'end', 'body')
                                root.body[-1].body[0].put_slice(piece, 0, 1, 'body', docstr=docstr)
                        except Exception:
                            continue
                        ctx.tick(('targeted-c', src, str(path), fld, idx, act, docstr), 'op:targeted-docstr-option')
                        try:
                            after = strs(ast.parse(root.src))
                        except SyntaxError as e:
                            ctx.violation('text|targeted|unparsable', 'the edited source no longer parses', {'before': src, 'after': root.src, 'action': act, 'docstr': docstr, 'error': str(e)})
                            continue
                        extra = list(before)
                        lost = [v for v in before if v not in after]
                        if lost:
                            ctx.violation(f'string-changed|docstr={docstr}', 'with docstr=False/strict an edit changed the text inside a multi-line string that is not a docstring',
                                          {'before': src, 'after': root.src, 'action': act, 'field': fld, 'idx': idx, 'docstr': docstr, 'changed': lost[:2]})
    # (d) pure insertions (empty target slice) into multi-line sequences whose elements carry line comments: nothing is replaced, so no comment may disappear
    seqs = [('x = [\n    a{c0}  # ca\n]\n', 'body[0].value', 'elts', 'b'), ('x = [\n    a,  # ca\n    c{c0}  # cc\n]\n', 'body[0].value', 'elts', 'b'),
            ('f(a{c0}  # ca\n)\n', 'body[0].value', 'args', 'b'), ('x = {{\n    a: 1,  # ca\n    c: 2{c0}  # cc\n}}\n', 'body[0].value', '_all', 'b: 3'),
            ('x = (\n    a,  # ca\n    c{c0}  # cc\n)\n', 'body[0].value', 'elts', 'b'), ('def f(\n    a,  # ca\n    c{c0}  # cc\n): pass\n', 'body[0].args', '_all', 'b'),
            ('from m import (\n    a,  # ca\n    c{c0}  # cc\n)\n', 'body[0]', 'names', 'b'), ('with (\n    a,  # ca\n    c{c0}  # cc\n): pass\n', 'body[0]', 'items', 'b'),
            ('class K(\n    A,  # ca\n    C{c0}  # cc\n): pass\n', 'body[0]', 'bases', 'B'), ('x = {{\n    a,  # ca\n    c{c0}  # cc\n}}\n', 'body[0].value', 'elts', 'b'),
            ('match q:\n    case [\n        a,  # ca\n        c{c0}  # cc\n    ]: pass\n', 'body[0].cases[0].pattern', 'patterns', 'b'), ('del (\n    a,  # ca\n    c{c0}  # cc\n)\n', 'body[0].targets[0]', 'elts', 'b')]
    for tmpl, path, fld, new in seqs:
        for c0 in ('', ','):
            src = tmpl.format(c0=c0)
            try:
                probe = fst.FST(src, 'exec')
                n = len(getattr(probe.child_from_path(path), fld))
            except Exception as e:
                ctx.broken.append({'kind': 'harness', 'name': 'targeted-d', 'detail': f'{src!r}: {e!r}'[:200]})
                continue
            for idx in range(n + 1):
                for how in ('put_slice', 'insert', 'append'):
                    if how == 'append' and idx != n:
                        continue
                    root = fst.FST(src, 'exec')
                    node = root.child_from_path(path)
                    try:
                        if how == 'put_slice':
                            node.put_slice(new, idx, idx, fld, one=True)
                        elif how == 'insert':
                            getattr(node, fld).insert(new, idx)
                        else:
                            getattr(node, fld).append(new)
                    except Exception:
                        continue
                    ctx.tick(('targeted-d', src, idx, how), 'op:targeted-insert-multiline-seq')
                    have = comments(root.src)
                    want = comments(src)
                    if have is None:
                        ctx.violation('text|targeted|unparsable', 'the edited source no longer tokenizes', {'before': src, 'after': root.src, 'action': how})
                    elif have != want:
                        where = 'at-end' if idx == n else 'inside'
                        ctx.violation(f'comment-lost|insert-into-multiline-sequence|{where}', 'a pure insertion (nothing replaced) into a multi-line sequence removed the line comment of a neighbouring element',
                                      {'before': src, 'after': root.src, 'action': how, 'field': fld, 'idx': idx, 'lost': [c for c in want if c not in have]})
    # (e) multi-line code put into unparenthesized statement-level sequences whose lines hold '#' INSIDE string literals (the line gets a continuation backslash: what
    #     follows the last code of the line must not be taken for a comment)
    def code_toks(t):
        try:
            return [x.string for x in _tk.generate_tokens(_io.StringIO(t).readline) if x.type not in (_tk.COMMENT, _tk.NL, _tk.NEWLINE, _tk.INDENT, _tk.DEDENT, _tk.ENDMARKER)]
        except Exception:
            return None
    hash_progs = [('del cfg.colors["#fff"], cfg.tags.html["#id"], old\n', 'body[0]', 'targets'), ('a = b["#x"], c.d.e["#y"], f\n', 'body[0].value', 'elts'),
                  ('def r():\n    return x["#"], y.z["# q"], w\n', 'body[0].body[0].value', 'elts'), ('for i in a["#"], b.c["#2"], d: pass\n', 'body[0].iter', 'elts'),
                  ('x = "#a", y.z("#b"), w  # real comment\n', 'body[0].value', 'elts'), ('del env.vars["# HOME"], env.shell.aliases.table["ll # long"], junk\n', 'body[0]', 'targets'),
                  ('import a.b as c, d as e, f\n', 'body[0]', 'names'), ('global g1, g2, g3\n', 'body[0]', 'names'), ('with a["#"] as b, c.d["#e"]: pass\n', 'body[0]', 'items')]
    for src, path, fld in hash_progs:
        probe = fst.FST(src, 'exec')
        n = len(getattr(probe.child_from_path(path), fld))
        new = {'names': ('n1,\nn2' if 'import' not in src else 'n1 as n2,\nn3'), 'items': 'n1 as n2,\nn3'}.get(fld, 'x,\ny')
        for i in range(n + 1):
            for j in range(i, n + 1):
                root = fst.FST(src, 'exec')
                node = root.child_from_path(path)
                elems = [e.src if hasattr(e, 'src') else str(e) for e in getattr(node, fld)]
                try:
                    node.put_slice(new, i, j, fld)
                except Exception:
                    continue
                ctx.tick(('targeted-e', src, i, j), 'op:targeted-hash-in-string')
                after = root.src
                ta = code_toks(after)
                want_kept = [t for k, e in enumerate(elems) if not (i <= k < j) for t in (code_toks(e) or [])]
                ok = ta is not None
                if ok:
                    pool = collections.Counter(ta)
                    ok = all(pool[t] >= c for t, c in collections.Counter(want_kept).items())
                if ok:
                    try:
                        ast.parse(after)
                    except SyntaxError:
                        ok = False
                if not ok or comments(after) != comments(src):
                    ctx.violation('text|targeted|hash-in-string-line-continuation', 'a multi-line put into an unparenthesized sequence damaged untouched elements on a line that holds "#" inside a string',
                                  {'before': src, 'after': after, 'field': fld, 'start': i, 'stop': j, 'put': new})
    # (f) several edits through ONE single-item view: after the item is cut the view is empty, a following replace is a pure insertion there and a remove / second cut a no-op;
    #     the neighbouring items, their separators and their comments stay
    view_progs = [('d = {\n    "a": 1,  # first\n    "b": 2,  # second\n    "c": 3,  # third\n}\n', 'body[0].value', '_all', '"x": 9'),
                  ('def g():\n    global a, b, c  # names\n    pass\n', 'body[0].body[0]', 'names', 'x'),
                  ('def h(\n    a,  # first\n    b=1,  # second\n    *c,  # third\n): pass\n', 'body[0].args', '_all', 'x'),
                  ('v = [\n    a,  # first\n    b,  # second\n    c,  # third\n]\n', 'body[0].value', 'elts', 'x'),
                  ('match m:\n    case {1: a,  # first\n          2: b,  # second\n          3: c}: pass\n', 'body[0].cases[0].pattern', '_all', '9: x'),
                  ('z = p < q <= r > s\n', 'body[0].value', '_all', None)]
    for src, path, fld, new in view_progs:
        probe = fst.FST(src, 'exec')
        n = len(getattr(probe.child_from_path(path), fld))
        for i in range(n):
            for second in ('replace', 'remove', 'cut', 'len'):
                if second == 'replace' and new is None:
                    continue
                root = fst.FST(src, 'exec')
                view = getattr(root.child_from_path(path), fld)
                try:
                    item = view.at(i) if hasattr(view, 'at') else view[i:i + 1]
                    if not hasattr(item, 'cut') or isinstance(item, fst.FST):
                        item = view[i:i + 1]
                    item.cut()
                    after_cut = root.src
                    if second == 'replace':
                        item.replace(new, one=False)
                    elif second == 'remove':
                        item.remove()
                    elif second == 'cut':
                        item.cut()
                    else:
                        k = len(item)
                        if k != 0:
                            ctx.violation('view-after-cut|nonempty', 'a view whose only item was cut still reports items', {'before': src, 'field': fld, 'idx': i, 'len': k})
                            continue
                except Exception as e:
                    ctx.dist['targeted-f:refused'] = ctx.dist.get('targeted-f:refused', 0) + 1
                    continue
                ctx.tick(('targeted-f', src, i, second), 'op:targeted-view-reuse')
                after = root.src
                if second in ('remove', 'cut', 'len') and after != after_cut:
                    ctx.violation(f'view-after-cut|{second}', 'an edit through an emptied single-item view changed the source', {'before': src, 'field': fld, 'idx': i, 'after_cut': after_cut, 'after': after})
                elif second == 'replace':
                    ca, cc = comments(after), comments(after_cut)
                    ta, tc = code_toks(after), code_toks(after_cut)
                    if ta is None or tc is None or ca is None or any(c not in ca for c in cc) or any(collections.Counter(ta)[t] < c for t, c in collections.Counter(tc).items() if t not in (',',)):
                        ctx.violation('comment-lost|insert-into-multiline-sequence|at-end' if i == n - 1 and ta is not None and tc is not None and all(collections.Counter(ta)[t] >= c for t, c in collections.Counter(tc).items() if t != ',') else 'view-after-cut|replace',
                                      'a replace through an emptied single-item view removed neighbouring items or comments', {'before': src, 'field': fld, 'idx': i, 'after_cut': after_cut, 'after': after})
    # (g) optional single-node fields deleted / put back / added when the neighbouring child is parenthesized over several lines with comments inside:
    #     only the text of the field (and its own separator / keyword) may change
    opt = [('assert (\n    a and  # first\n    b      # second\n), "msg"\n', 'body[0]', 'msg'), ('assert (a  # t\n), (\n    m  # mc\n)\n', 'body[0]', 'msg'),
           ('raise (\n    E  # why\n) from (\n    c  # cause\n)\n', 'body[0]', 'cause'), ('x: (\n    int  # ann\n) = (\n    1  # val\n)\n', 'body[0]', 'value'),
           ('def f() -> (\n    int  # ret\n): pass\n', 'body[0]', 'returns'), ('def f(a  # pa\n      ) -> int: pass\n', 'body[0]', 'returns'),
           ('with (a  # ctx\n      ) as b: pass\n', 'body[0].items[0]', 'optional_vars'), ('def g():\n    return (\n        v  # val\n    )\n', 'body[0].body[0]', 'value'),
           ('y = z[(a  # lo\n      ):(b  # hi\n         ):(c  # st\n            )]\n', 'body[0].value.slice', 'lower'), ('y = z[(a  # lo\n      ):(b  # hi\n         ):(c  # st\n            )]\n', 'body[0].value.slice', 'upper'),
           ('y = z[(a  # lo\n      ):(b  # hi\n         ):(c  # st\n            )]\n', 'body[0].value.slice', 'step'),
           ('match v:\n    case (x) if (\n        g  # guard\n    ): pass\n', 'body[0].cases[0]', 'guard'), ('match v:\n    case (x  # pat\n          ) if g: pass\n', 'body[0].cases[0]', 'guard'),
           ('def f(a: (int  # ann\n          ) = 1): pass\n', 'body[0].args.args[0]', 'annotation'), ('def f(*a: (int  # ann\n           )): pass\n', 'body[0].args.vararg', 'annotation'),
           ('def g():\n    x = yield (v  # c\n               )\n', 'body[0].body[0].value', 'value'), ('try: pass\nexcept (E  # exc\n        ): pass\n', 'body[0].handlers[0]', 'type'),
           ('f"{(a  # v\n)!r:>{(w  # wd\n)}}"\n', 'body[0].value.values[0]', 'format_spec'), ('type T[U: (int  # bound\n          )] = U\n', 'body[0].type_params[0]', 'bound'),
           ('match v:\n    case (x  # p\n          ) as y: pass\n', 'body[0].cases[0].pattern', 'pattern'), ('lambda a=(1  # d\n          ): (a  # body\n              )\n', 'body[0].value', 'args'),
           # the starred parameters of a parameter list written one per line, each with its own comment
           ('def f(\n    a,  # comment a\n    *args,  # comment args\n    b=1,  # comment b\n    **kw,  # comment kw\n): pass\n', 'body[0].args', 'vararg'),
           ('def f(\n    a,  # comment a\n    *args,  # comment args\n    b=1,  # comment b\n    **kw,  # comment kw\n): pass\n', 'body[0].args', 'kwarg'),
           ('def f(\n    a,  # comment a\n    **kw  # comment kw\n): pass\n', 'body[0].args', 'kwarg'), ('def f(\n    *args,  # comment args\n    b  # comment b\n): pass\n', 'body[0].args', 'vararg')]
    for src, path, fld in opt:
        try:
            probe = fst.FST(src, 'exec')
            node = probe.child_from_path(path)
            child = getattr(node, fld)
            assert isinstance(child, fst.FST)
        except Exception as e:
            ctx.broken.append({'kind': 'harness', 'name': 'targeted-g', 'detail': f'{src!r} {path}.{fld}: {e!r}'[:200]})
            continue
        cl = child.pars() if isinstance(child.a, (ast.expr, ast.pattern)) else child.bloc
        inner = [c for ln, c in comment_lines(src) if cl[0] <= ln <= cl[2]]
        outer = [c for ln, c in comment_lines(src) if not (cl[0] <= ln <= cl[2])]      # (a comment on the last line of the child, behind it, may go with it: documented trailing trivia)
        for how in ('put-none', 'remove', 'del-attr'):
            root = fst.FST(src, 'exec')
            node = root.child_from_path(path)
            saved = getattr(node, fld).copy()
            try:
                if how == 'put-none':
                    node.put(None, fld)
                elif how == 'remove':
                    getattr(node, fld).remove()
                else:
                    delattr(node, fld)
            except Exception as e:
                ctx.dist[f'op:targeted-optional:{how}:refused'] = ctx.dist.get(f'op:targeted-optional:{how}:refused', 0) + 1
                continue
            ctx.tick(('targeted-g', src, path, fld, how), 'op:targeted-optional-field-delete')
            after = root.src
            have = comments(after)
            rec = {'before': src, 'node': path, 'field': fld, 'action': how, 'after': after}
            try:
                ast.parse(after)
                ok = True
            except SyntaxError as e:
                ok = False
            if have is None or not ok:
                ctx.violation('text|targeted|optional-field|unparsable', 'deleting an optional child left source that does not parse', rec)
                continue
            lost = [c for c in outer if c not in have]
            if lost:
                ctx.violation(f'comment-lost|optional-field-delete|{type(node.a).__name__}.{fld}', 'deleting an optional child removed a comment that lies outside it', {**rec, 'lost': lost})
                continue
            # ... and put back
            try:
                node.put(saved, fld)
            except Exception as e:
                ctx.dist['op:targeted-optional:put-back:refused'] = ctx.dist.get('op:targeted-optional:put-back:refused', 0) + 1
                continue
            ctx.tick(('targeted-g', src, path, fld, how, 'back'), 'op:targeted-optional-field-put-back')
            back = root.src
            have2 = comments(back)
            try:
                same = have2 is not None and not cmp_ast(ast.parse(back), ast.parse(src), positions=False)
            except SyntaxError:
                same = False
            if not same:
                ctx.violation('text|targeted|optional-field|put-back', 'putting a deleted optional child back does not give the original structure', {**rec, 'after_put_back': back})
            elif any(c not in have2 for c in outer):
                ctx.violation(f'comment-lost|optional-field-put|{type(node.a).__name__}.{fld}', 'putting an optional child removed a comment that lies outside it', {**rec, 'after_put_back': back, 'lost': [c for c in outer if c not in have2]})
    # (b)
    lines = ['d = {{"ключ": {E}, "k": [y, z]}}  # коммент', 'r = "naïve café" + {E} * w', 'f("日本語", {E}, kw={E2})', 'ü = [é, {E}, "ö"]']
    for tmpl in lines:
        for e1 in ('old(x)', 'o'):
            src = tmpl.replace('{E2}', 'q').replace('{E}', e1) + '\nnext_line = 1\n'
            tree = ast.parse(src)
            # the node whose source is e1: found by position of the text
            col = src.index(e1)
            for n1 in ('new_one', 'nn(1, 2)'):
                for n2 in ('second', '(a, b)', 'x.y'):
                    root = fst.FST(src, 'exec')
                    tgt = next((f for f in root.walk(True) if f.loc is not None and f.loc[0] == 0 and f.loc[1] == col and f.loc[3] == col + len(e1) and isinstance(f.a, ast.expr)), None)
                    if tgt is None:
                        continue
                    try:
                        new = tgt.replace(n1)
                        new.replace(n2)
                    except Exception as e:
                        ctx.violation('text|targeted|two-step-raise', 'two successive replacements raised', {'before': src, 'first': n1, 'second': n2, 'error': repr(e)[:200]})
                        continue
                    ctx.tick(('targeted-b', tmpl, e1, n1, n2), 'op:targeted-nonascii-two-step')
                    want = src[:col] + n2 + src[col + len(e1):]
                    if root.src != want:
                        ctx.violation('text|targeted|two-step-nonascii', 'replacing an expression twice behind non-ASCII text changed text outside the expression',
                                      {'before': src, 'first': n1, 'second': n2, 'after': root.src, 'expected': want})


VIEW_SEQ_PROGS = [('import os\nimport sys\nimport json  # config loader, do not touch\nx = 1  # keep\n', '', 'body', 'import pathlib'),
                  ('lst = ["alpha", "beta", "gamma",  # g\n       "delta"]\n', 'body[0].value', 'elts', '"NEW"'),
                  ('def f():\n    a = 1  # ca\n    b = 2  # cb\n    c = 3  # cc\n    return a  # cr\n', 'body[0]', 'body', 'z = 0')]


def stage_view_sequences(ctx: Ctx):
    """deterministic: TWO edits through one bounded view - an element deleted by assignment (v[i] = None) or by del, then an edit relative to the view's extent (del v[:], v[-1] = new, v[0] = new):
    the elements outside the view (and their comments) are untouched, inside exactly the addressed elements change - the second edit must see the view as long as it is after the first"""
    import fst
    for src, path, field, new in VIEW_SEQ_PROGS:
        probe = fst.FST(src, 'exec')
        base = eval('probe.' + path) if path else probe
        n = len(getattr(base, field))
        for a_ in range(n):
            for b_ in range(a_ + 1, n + 1):
                for i in range(b_ - a_):
                    for first in ('assign-none', 'del'):
                        for second in ('del-all', 'set-last', 'set-first'):
                            root = fst.FST(src, 'exec')
                            bs = eval('root.' + path) if path else root
                            full = getattr(bs, field)
                            texts = [e.src for e in full]
                            rec = {'src': src, 'field': field, 'view': f'[{a_}:{b_}]', 'first': f'{first} v[{i}]', 'second': second}
                            want = texts[:a_ + i] + texts[a_ + i + 1:]          # after the first edit; the view is now [a_, b_ - 1)
                            lo, hi = a_, b_ - 1
                            if second == 'del-all':
                                want = want[:lo] + want[hi:]
                            elif hi > lo:
                                k = hi - 1 if second == 'set-last' else lo
                                want = want[:k] + [new] + want[k + 1:]
                            else:
                                continue      # the view is empty after the first edit: nothing to address
                            try:
                                v = full[a_:b_]
                                if first == 'assign-none':
                                    v[i] = None
                                else:
                                    del v[i]
                                if second == 'del-all':
                                    del v[:]
                                elif second == 'set-last':
                                    v[-1] = new
                                else:
                                    v[0] = new
                            except Exception as e:
                                if not want or (field == 'body' and path and len(want) == 0):
                                    continue
                                ctx.violation(f'view-sequence|raise|{type(e).__name__}', 'two edits through one bounded view raised', {**rec, 'error': repr(e)[:200]})
                                continue
                            ctx.tick(('view-seq', src, a_, b_, i, first, second), 'view-sequence')
                            try:
                                bs2 = eval('root.' + path) if path else root
                                got = [e.src for e in getattr(bs2, field)]
                            except Exception as e:
                                got = [f'!{e!r}'[:80]]
                            if got != want:
                                ctx.violation(f'view-sequence|{first}|{second}', 'the second of two edits through one bounded view changed an element outside the view (or not the addressed one)',
                                              {**rec, 'result_src': root.src, 'elements': got, 'expected_elements': want})
                                continue
                            lost = [c for c in re.findall(r'#[^\n]*', src) if c not in root.src and any(c in t for t in want)]
                            if lost:
                                ctx.violation(f'comment-lost|view-sequence|{second}', 'a comment of an element that stays was lost by two edits through one bounded view', {**rec, 'result_src': root.src, 'lost': lost})


def run(ctx: Ctx):
    ctx.rule = ('(1) random line blocks for leading_trivia, model vs real; (2) random edit sequences; after each successful op the token stream (COMMENT '
                'included) before/after is compared: the changed window must lie inside the element extent extended by adjacent separators, own '
                'parentheses, elif/else keywords and comments in the gaps around the element; comments may not be duplicated; (3) put_line_comment '
                'changes only the addressed comment. distinct = (source before, op).')
    ctx.assumptions += ['comments in the gap between the previous and next code token of the element are treated as selectable trivia (over-approximation of the option)',
                        'tokenize is the reference for tokens/comments']
    ok = stage_translate(ctx)
    if ok:
        ctx.build_props()
    run_guarded(ctx, stage_trivia_corr)
    run_guarded(ctx, stage_params_corr)
    progs = corpus(ctx.rng, gen=ctx.scale(25, 200))
    run_guarded(ctx, stage_oracle, progs)
    run_guarded(ctx, stage_line_comment, progs)
    run_guarded(ctx, stage_targeted)
    run_guarded(ctx, stage_view_sequences)


def replay(path):
    d = json.load(open(path))
    print(json.dumps(d, indent=1)[:6000])
    return 0
