"""Write MANIFEST.json from the per-property table below (keeps it valid at all times)."""
import json, os
V = os.path.dirname(os.path.dirname(os.path.abspath(__file__)))
props = [json.loads(l) for l in open(os.path.join(V, 'properties.jsonl'))]

CLAIMS = {
 'C03': dict(
   technique='Coq proof over translated index functions + hand view model; vm_compute correspondence; API oracle',
   text='Theorems (Coq 8.16.1, closed under the global context): the index/slice normalisation functions, TRANSLATED from fst_misc.py on every run, '
        'are Python list index/slice semantics (also for the docstring-offset virtual list); slice put = old[:s]+new+old[e:] with frame and order lemmas; '
        'every FSTView operation is the Python list operation on its window for any healing history. Tie: translator + vm_compute correspondence '
        '(exhaustive small domain) for the functions, random op-sequence correspondence for the view model, and an API-level oracle over 38 container kinds '
        '(expected tree = ast.parse of the independently rendered element list). models/Arglikes.v: the position of a keyword in the merged argument list is mapped to the keywords field '
        'correctly iff no positional argument stands behind it, which is exactly when the insertion guard passes; the guard of args / bases slice edits passes iff everything the edit touches lies in '
        'front of the first keyword, where argument index = merged index (both tied by correspondence in the split-fields sweep). One element that needs its own parentheses stays ONE element '
        'through every single-element and one-element-slice entry point (deterministic sweep). '
        'Handler glue is not proved (cross-check only). Deterministic sweeps: removal of every dispensable clause under every norm option and entry point; arguments._all with / and * markers x every window x new arguments of every category (category-sensitive), keyword-only defaults. Proved as well: the `/` and `*` markers re-derived from the categories of a parameter list make Python read every parameter in its category (models/ArgMarkers.v, tied to the text real put_slice writes). Also: optional single-node fields next to parenthesized neighbours through every entry point; operands glued to the keyword behind them replaced by multi-line code. Also: name indexing (view[\'g\'], at(), assignment, deletion) through every bounded view of body / _body / orelse / finalbody. models/ViewName.v: name indexing is relative to the view and names its first definition there.',
   note='Trusted: Coq kernel/vm_compute; py/py2v translator; CPython ast as reference; the view model is hand-written (tied by correspondence); '
        'refusal allow-list py/props/C03_refusals_allow.json. No axioms.',
   design='DESIGN.md section 4 C03'),
 'C11': dict(
   technique='Coq proof: text-splice kernel, translated _params_offset and per-node _offset rule, walk=map under Ordered, two-phase offset-mode theorem; vm_compute correspondence; token-gap oracle',
   text='Theorems (closed under the global context): every branch of _put_src is one algebraic splice with line/prefix/suffix frame lemmas; the TRANSLATED _params_offset '
        'returns the byte position map of that splice; the TRANSLATED per-node rule of _offset equals the documented position map; under the syntax-order assumption '
        '(Ordered) the early-exit walk changes exactly the nodes the rule changes; the two-phase offset of put_src(action=offset) is mode_map (before: fixed, after: rigid, '
        'containers: grown, children: gap belongs to the container). Tie: translators + correspondence of _put_src/_get_src/_params_offset/_offset/put_src(offset) against the '
        'models on random texts and real trees; oracle: every token gap and every end-of-line gap (trailing spaces / line comment) x trivia-preserving replacement vs ast.parse of the new source, '
        'with loc / bloc / pars of every node (queried before the edit in 70% of the cases) vs a fresh tree, coordinates also given as negative columns; plus boundary gaps vs the geometric rule. Also: calls / class bases with positional and keyword arguments interleaved in every way (starred arguments behind the last keyword).',
   note='Trusted: Coq kernel/vm_compute; py/py2v translators (pyfun, gen_fixups, gen_offset); CPython ast/tokenize as reference (OH1); Ordered is a hypothesis checked on every '
        'corpus tree; hand models Text.v (put_src) and Offset.v (walk) tied by correspondence. No axioms.',
   design='DESIGN.md section 3.1, 3.2, 4 C11'),
 'C01': dict(
   technique='Coq proof of the frame part (text splice + position map + expression replacement) ; trace correspondence of every low-level call; CPython re-parse oracle over random edit sequences',
   text='Proved (closed): every edit primitive is a local splice; translated offset parameters locate the kept text; walk = map of the translated rule; for single-expression '
        'replacement all surviving nodes end at mode_map and the new sub-tree lands rigidly (C01_frame_expr_replace). Partial: the element part for separator lists / statement '
        'blocks and handler glue are not modelled - they are decided by the oracle: after every successful op of random edit sequences (all public entry points, three code forms, '
        'random options with norm=True) the source is re-parsed by CPython and compared in types, fields, ctx and all positions. Trace correspondence replays sampled _offset/_put_src '
        'calls of those edits on the Coq models. par() / unpar() on every expression and pattern node keep the tree equal to the parse of its source (AnnAssign.simple, annotation targets, nodes that cannot take parentheses). Also: slices re-indented line by line with per-line column offsets; try handlers removed one by one through every entry point. Delimiters around a node (models/Delimit.v over the TRANSLATED _put_src / _offset flags of _delimit_node, _parenthesize_grouping, _unparenthesize_grouping): every node beside or below the node keeps its text, also one that starts exactly where it ended (format specification of an f-string field), ancestors grow by the delimiters, unpar undoes par on every node; correspondence with the AST position of every node after par(force=True) / unpar() on every expression and pattern node. Also: a line comment replaced / added / deleted on warm location caches, then the enclosing blocks edited; ImportFrom.level and undenotable primitives (inf, nan, complex with a real part) in the primitive sweep. Also: slices put into deletion / assignment targets.',
   note='Trusted: Coq kernel/vm_compute; translators; CPython ast (OH1); hand models tied by (trace) correspondence; known_findings.json lists one open finding class (arglike positional after keyword).',
   design='DESIGN.md section 4 C01'),
 'C12': dict(
   technique='Coq proof: modification-registry bracket theorem + regenerated call-site obligation; vm_compute correspondence with the real _Modifying; fault-sequence oracle',
   text='Proved (closed): for every nest of modification blocks with refusals and exceptions anywhere the registry _MODIFYING is observationally restored; from idle it ends idle; '
        'a refused enter changes nothing; the next edit of any node is admitted; every _modifying call site in the regenerated site list is a with-item or the guarded manual protocol. '
        'Partial: validate-before-mutate inside handlers is not modelled - decided by fault sequences: 15 kinds of invalid request interleaved with valid edits; after each raising '
        'call source and ast.dump(include_attributes) must be identical and the registry empty; later edits must re-parse to themselves; deterministic sweeps over option values, '
        'falsy codes, evaluation order and the ROOT as target (consumed / non-root / unparsable code). Also: one element of every list field replaced by code a rule of the container may reject, through every one-element entry point. Also: put_docstr / put_line_comment with arguments they must refuse; a tree put into itself through every entry point.',
   note='Trusted: Coq kernel/vm_compute; py2v/gen_modsites scanner; hand model Registry.v tied to the real class by correspondence; CPython ast.dump as observer. No axioms.',
   design='DESIGN.md section 4 C12'),
 'C20': dict(
   technique='Coq proof: option-store state machine (purity, atomic rejection, block restore, thread projection) + registry commutation; translated option table / effect order; lock-step thread correspondence; concurrent-vs-alone oracle',
   text='Proved (closed): reads are pure and per-call options win; invalid requests change nothing; an options() block restores exactly the names it sets (and the whole thread state when '
        'its body has no bare set_options), on normal and exceptional exit, for any nesting; for EVERY interleaving each thread ends where it would end alone; fresh threads see the '
        'translated defaults; registry operations on different roots commute; validate-before-update / restore-in-finally hold of the regenerated effect lists. '
        'Partial (runtime): GIL atomicity and real preemption are exercised, not proved: 8 threads with switch interval 1e-6 vs the same scripts alone. Call isolation of cached answers and of '
        'option VALUES (an `op` list / AST / FST reused across calls, blocks and set_options gives the result of a fresh equal value and is left unchanged) are deterministic sweeps. An option value of one call never leaks into a later call with an equal-comparing value of another type (every value in several orders in one process vs a fresh process per value).',
   note='Trusted: Coq kernel/vm_compute; py2v/gen_options; validity of a value is an oracle bit (harness supplies the documented domain and cross-checks the implementation against it); '
        'hand model Options.v tied by lock-step correspondence over real threads. No axioms.',
   design='DESIGN.md section 4 C20'),
 'C14': dict(
   technique='Coq proof: translated next/prev stepping programs vs translated syntax-order tables (generic soundness lemma + finite vm_compute check), walk stack machines = structural orders; correspondence; navigation oracle',
   text='Proved (closed): for every regular node class and EVERY node shape the stepping function translated from traverse_next/prev.py returns the successor/predecessor in the '
        'child order translated from _SYNTAX_ORDERED_CHILDREN (compat_sound + C14_tables_compatible_and_complete re-checked on the regenerated tables every run); the walk stack '
        'machines compute preorder / mirrored preorder (back) / postorder (leave) / bracketed order (both) / one-level filter for every tree and filter; the children of a Call / ClassDef head '
        '(models/Interleave.v: args / bases merged with keywords by position) are both lists each once, in position order, and that order is unique. Partial: the stepping of the six '
        'position-interleaving classes, step_fwd/step_back and child_path are compared by correspondence/oracle only (walk set vs ast.walk, parent-first, sibling text order, '
        'all chains mutually consistent, paths bijective, filtered walks bracketed), the chains and stepping also under every `all` setting (True / False / loc / class / set) on a zoo of '
        'programs holding every combination of optional child groups (decorators x type parameters x argument kinds x bases x keywords ...). Also: a grid of all-filters (True / False / \'loc\' / leaf types / sets of types) x on x recurse x back x self_ on every node as walk root: the three on-modes agree, a type filter yields exactly the nodes of that type the unfiltered walk reaches, first_child()/next() give the recurse=False walk. models/WalkShallowModes.v: leave / both without recursion with the filter; the walk correspondence draws recurse for every on-mode.',
   note='Trusted: Coq kernel/vm_compute; py2v/gen_traverse (also reads ASDL kinds from CPython ast docstrings); hand model Walk.v tied by correspondence; Module.type_ignores is '
        'excluded from the compatibility check (documented deviation). One genuine defect found and fixed (root filter on leave/both). No axioms.',
   design='DESIGN.md section 4 C14'),
 'C09': dict(
   technique='Coq proof by complete finite enumeration: translated precedence tables + decision function adequate for a hand grammar-level spec; spec validated against CPython exhaustively; real-put oracle over all slots x child kinds x layouts',
   text='Proved (closed): over the complete finite domain (3489 child/slot triples x all 16 flag settings) the decision function and tables TRANSLATED from astutil.py require '
        'parentheses wherever the hand-written Python-grammar requirement says a bare child would not parse back into the slot (C09_table_adequate), the function is total there, '
        'and associativity is encoded correctly. Partial: no Gallina parser/round-trip proof was built - the grammar spec is instead validated on every run against ast.parse on '
        'its whole finite domain (OH2), and the complete chain is cross-checked through real replaces (every slot x child kind x bare/parenthesised/multi-line/comment layout x '
        'source/FST/AST form) plus put-back of children that need their parentheses. Line-structure enclosure and atom analysis are covered only by that oracle. Special slots also with non-ASCII text before the operand, a second put of the slot just filled, unenclosed slots with line-breaking replacements, assignment / deletion target slots (non-targets refused, never written). Also: bases of annotation targets behind attribute / subscript chains; brace-leading replacements right behind the brace of an f-string field. Also: implicit string concatenations with a comment that ends in a backslash between the parts; Starred replacements with a line break between the star and the value. Also: unpar() of an operand glued to names on both sides, then a replacement that needs parentheses.',
   note='Trusted: Coq kernel/vm_compute; py2v/gen_prec; hand spec PyGrammar.v (validated vs CPython each run); canonical examples in py/lib/slots.py; CPython ast. No axioms.',
   design='DESIGN.md section 4 C09'),
 'C04': dict(
   technique='Coq proof: text-splice locality (K1) + hand transcription of leading_trivia with bounds / trivia-only / option theorems; vm_compute correspondence; token-stream window oracle over edit sequences',
   text='Proved (closed): every text change is one local splice (lines above/below identical and in order, start-line prefix and end-line suffix kept); for the transcribed '
        'leading_trivia the region handed to an edit lies between the previous code and the element, consists only of blank/continuation/comment lines (comment lines for block, '
        'blank lines for the space part), is empty for comments=none and holds at most n blank lines for space=n. Partial: trailing_trivia and the handlers\' choice of '
        'region are not modelled - decided by the oracle: after every successful op of random edit sequences the token streams (comments included) before/after must agree '
        'outside the element window (element extent + adjacent separators/introducers/parentheses + comments in the surrounding gaps), no comment may be duplicated, '
        'put_line_comment may change only the addressed comment; the theorem predicates are also evaluated on the real leading_trivia outputs. Also proved: how the compact trivia option is read '
        '(models/TriviaParams.v == get_trivia_params over every option shape, exhaustive correspondence): a bare +N / -N means the side default kind (block leading, line trailing), the sides are '
        'independent, the default / shorthand trailing side selects only the line comment. Deterministic sweeps: option shorthands, docstr=False/strict string preservation, pure insertions into '
        'multi-line sequences. Deterministic: comments ending in a backslash above a removed statement; BoolOp operators written against the next operand; starred parameters deleted as single fields (recorded finding). Also: two edits through one bounded view, the second relative to the view\'s extent.',
   note='Trusted: Coq kernel/vm_compute; hand models Text.v and Trivia.v tied by correspondence; tokenize as token reference; container separators and grouping parentheses are '
        'ignored globally by the oracle (they may legitimately change anywhere in the edited container). No axioms.',
   design='DESIGN.md section 4 C04'),
 'C02': dict(
   technique='Coq proof: no stale position (walk=map), cache-coherence state machine for position-determined answers, view healing; query-battery oracle against a fresh tree under two query schedules',
   text='Proved (closed): after any offset pass no node keeps a stale position (K2); in the cache model (visited nodes moved and flushed, others untouched) coherence is '
        'preserved by every interleaving of queries and passes, positions are independent of the queries made, hence answers after any history equal those of a never-queried '
        'tree; views heal after external length changes. Partial: text-reading caches (bloc, pars), the a/f/parent/pfield link structure and object identity are decided by the '
        'oracle: after every successful edit of random scripts, 37 queries on sampled nodes are compared with a fresh FST(root.src), with and without 30 cache-warming queries '
        'before each edit, and both schedules must end in the identical source and tree; deterministic sweeps: every element of every list field deleted / inserted / replaced, every '
        'leaf grown / shrunk, every node (un)parenthesized on layouts with children at the parent\'s column, keyword-glued parentheses and interleaved starred/keyword arguments. Deterministic: functions with docstrings spanning lines in every way put at other indentation under every docstr option; raw edits of a block\'s last statement ending in blanks / a continuation and a semicolon. Also: one call argument / class base replaced through the virtual field by an element of the other kind in ragged layouts (order of both lists, pfield, walk and next() against a fresh tree).',
   note='Trusted: Coq kernel/vm_compute; hand model Cache.v (tied to the real cache/flush set by correspondence); a fresh FST(root.src) as reference observer. No axioms.',
   design='DESIGN.md section 4 C02'),
 'C17': dict(
   technique='Coq proof: backtracking list matcher accepts exactly the regular language (flat + fixed-length sub-list quantifiers); pre-filter soundness => search = filtered walk; correspondence model/real/re over an exhaustive family; structure oracles',
   text='Proved (closed): for every sequence of element patterns and quantifiers over fixed-length sub-lists (any bounds, greedy/lazy) and every target sequence the transcribed '
        'matcher accepts exactly the regular language of the pattern (match_items_accepts_lang); the transcribed _leaf_asts pre-filter never hides a matching node, so search = '
        'walk filtered by match; the unrepaired MNOT complement rule is refuted by a witness. Both defects were repaired in /repo (fix commits). Partial: capture priority, '
        'quantified sub-lists containing quantifiers, back-references, node/primitive matchers and layout independence are decided by correspondence with re.fullmatch '
        '(accept/reject + repetition counts over the pattern-sequence x element-sequence family) and by oracles (search vs filtered walk for 20 combinator patterns, self-match, '
        'one-leaf difference, formatted vs pure AST vs re-layout, repeated calls). Nested quantifiers (models/MatchNested.v, any depth; one repetition is an atomic group as documented): proved '
        'sound for the regular language of the nested pattern, completeness REFUTED by the witness (?:b.?b)?b on bbb, complete for deterministic repetitions, exact and equal to the flat model on flat '
        'patterns; tied by correspondence to the real matcher (accept/reject + length of every repetition) and to re with atomic groups (?>...). A history stage reuses one pattern object over '
        'sequences of targets (match / search / pure AST) against fresh pattern objects. A field sweep builds, for every field of every node of 40 programs, the pattern of the node\'s own value '
        '(plain and inside M / MOR / MAND / MNOT(MNOT)), one-element variants that must not match, and back-references to the captured field, on the formatted tree and the pure AST alike. search() in every walk mode event by event with the tags of each match; back-reference families with two quantifiers before the reference; type patterns per field on the formatted tree and the pure AST. Also: repetitions that may be empty under a quantifier with a minimum; back-references between nodes of different classes with the same text; expression contexts and primitive types as search patterns. models/TreeMatch.v: an AST as pattern matches exactly its own tree (a copy that differs in one leaf - None vs 0 / False / '' / b'' / 0.0 - matches in neither direction), a wildcard field whatever stands in its place; correspondence on (node, own AST / one leaf changed) pairs and the primitive-leaf matrix. Also: the kind leaf of string constants (plain vs u-prefixed) through match / search / back-references.',
   note='Trusted: Coq kernel/vm_compute; hand models Match.v and MatchNested.v tied by correspondence; Python re (with atomic groups for nested repetitions) as reference for quantifier sequences (OH3). No axioms.',
   design='DESIGN.md section 4 C17'),
 'C06': dict(
   technique='Coq proof: byte/character coordinate maps (c2b = bytes before the character, strictly monotone, b2c its inverse and containing-character finder, ASCII identity) for all strings; correspondence with astutil.bistr; tokenizer / bracket-matcher / brute-force oracles for locations, pars() and by-location search',
   text='Proved (closed): for every line (any mix of 1-4 byte code points) the transcribed c2b table is the number of UTF-8 bytes before each character, strictly increasing, b2c inverts it '
        'at character starts and returns the containing character for interior bytes, and both are the identity on ASCII lines; the AST-position to loc conversion therefore is '
        'exact. Partial (no theorem): the text-scanning computed locations (_loc_arguments, _loc_comprehension, _loc_withitem, _loc_match_case, _loc_op, decorators), pars() and '
        'find_*loc are decided per node / per rectangle against CPython positions, tokenize boundaries, a token bracket matcher and a brute-force scan, with identifiers renamed '
        'to multi-byte in 70% of the programs. A genuine defect found this way (find_contains_loc ignoring decorators) was repaired in /repo. The search loop of find_contains_loc (models/FindLoc.v: the walk over the descendants with its four cases) returns, on every tree whose children lie inside their parent in order without overlap, the lowest node that contains the span (2 theorems; tied to the method on encoded trees over node spans, their ends and random spans); bloc is compared with an independent token-based expectation for every node. Proved as well: allow_exact="top" returns the first node on the descent path whose location is exactly the span, False the node above it; the path is a chain of children holding the span. find_loc and the allow_exact variants are also compared with brute force. Also: generator expressions as call arguments in every position (alone, with keywords / **, one of several, doubly parenthesized) for the token-bracket oracle of pars(shared=...).',
   note='Trusted: Coq kernel/vm_compute; hand model Bistr.v tied by correspondence; tokenize (with multi-line end columns recomputed) and ast byte offsets as reference. No axioms.',
   design='DESIGN.md section 4 C06'),
 'C08': dict(
   technique='Coq proof: repr_str_multiline round trip through the transcribed CPython triple-quoted literal reader for every string (quote choice, final-quote escape, repr+replace fallback); docstring indent/dedent inverse; container and tree round-trip laws; correspondence with astutil.repr_str_multiline and put_docstr/get_docstr; cut/put-back and replace-by-self oracles',
   text='Proved (closed): for every string over an alphabet that distinguishes both quotes, backslash, newline, tab, NUL, other non-printable and printable characters, the literal built by the '
        'transcribed repr_str_multiline is decoded by the transcribed CPython reader to exactly that string; get_docstr line dedent inverts the indentation of put (first line not starting '
        'with whitespace); cut+put-back, put-own-slice and read-after-write laws of the slice semantics; replace-by-self / read-back / disjoint-paths laws on trees. Partial: that the concrete '
        'put/cut code realises those laws per field, code_as_* normalisation, own_src and the line-comment accessor are decided by oracles on the real implementation (cut slice/one and put back '
        'incl. Compare operators and virtual fields, replace by own copy / pure AST / own source, own_src re-parse, docstring and comment accessors with hostile texts). Two genuine defects '
        'found this way were repaired in /repo; one is recorded as a known finding. Deterministic: every identifier of a program written with compatibility characters put back as its own source text. Also: nodes below self-documenting f-string fields spread over continuation lines replaced by their own copy / pure AST / source.',
   note='Trusted: Coq kernel/vm_compute; hand model StrRepr.v tied by correspondence (model output == real output symbol by symbol, model reader == ast.literal_eval on the same literals); CPython parser as reference. No axioms.',
   design='DESIGN.md section 4 C08'),
 'C07': dict(
   technique='Coq proof: cut-then-put-back identity on line lists, character-faithful copy under the position shift, dedent removes white space only / indent-dedent inverse; trace correspondence with _dedent_lns, _indent_lns, _make_fst_and_dedent; copy/cut/delete differential oracle with token and comment conservation',
   text='Proved (closed): for every text and valid span, re-inserting the cut lines at the cut point gives back exactly the original line list; every character of the span is found in the copy at the '
        'shifted position used for node offsets; per-line dedent strips leading white space only, by the reported amount, and is inverted by indent on any line set. Partial: choice of copy/delete '
        'spans (trivia, separators), _fix_copy and AST cloning are decided on the real implementation: copy/get/get_slice leave source and ast.dump(with positions) untouched, the piece verifies and '
        're-parses to itself and equals the original elements, cut == copy + delete on fresh trees, code tokens conserved up to separators and comments conserved exactly. Two comment-loss defects '
        'are recorded as known findings. Forced slices include Global / Nonlocal names, non-ASCII removals with kept separators, column-coincidence sweeps and un-normalised identifiers. Also: multi-line f-strings with nested f-strings that start on a later line.',
   note='Trusted: Coq kernel/vm_compute; hand models Extract.v/Text.v tied by trace correspondence; tokenize and the CPython parser as reference. No axioms.',
   design='DESIGN.md section 4 C07'),
 'C05': dict(
   technique='Coq proof: wrapper geometry (fragment spans and characters are identical one/two lines down in the embedding, so the line shift with untouched columns is exact) and the delimiter guard (accepts iff no prefix over-closes; accepted balanced fragments leave the wrapper delimiter open until the wrapper closes it); correspondence with _verify_no_close_delimiters; independent-embedding oracle per parse mode with a hostile fragment stream',
   text='Proved (closed): for any prefix lines, suffix and fragment, every span on fragment lines reads the same text in the embedding and in the fragment after the line shift; the counting loop of '
        'the delimiter guard accepts exactly the texts without an over-closing prefix, an accepted balanced fragment leaves the wrapper opener to be closed right after it, a refused one would have '
        'closed it inside. Partial: CPython itself, the per-mode wrapper choice and the non-delimiter guards are decided by the oracle: 24 extended modes + operators + whole programs; fragments from '
        'the corpus, re-laid-out, non-ASCII, and hostile (wrapper-closing text, wrong counts, splices); validity and the expected sub-tree come from embeddings written for the check (construct '
        'around the hole unchanged, all fragment tokens inside the element). Four wrapper-induced misparses found this way were repaired in /repo. The default mode \'all\' is held to python\'s tree for every source python parses (and to the mode of its result for fragments); the acceptance of a trailing comma may not depend on its layout. The embedding judge also refuses text that continues the wrapper iterable; a naked sequence starts at the fragment\'s first token. Also: with-items that are yield / walrus expressions need parentheses of their own (the embedding judge no longer shares the wrapper\'s blind spot); fragments that close the wrapper\'s header and hide its \': pass\' behind a comment. Also: operators followed by a backslash that is no line continuation.',
   note='Trusted: Coq kernel/vm_compute; hand model Wrap.v tied by correspondence; CPython ast.parse and tokenize as reference; the EMB embedding table of py/props/C05.py as the definition of "full construct". No axioms.',
   design='DESIGN.md section 4 C05'),
 'C10': dict(
   technique='Translator + Coq proof: effect paths of fst_raw.py (_reparse_raw / _reparse_raw_stmtlike / _reparse_raw_base) regenerated every run; all paths ordered (no may-raise atom after a live mutation) by computation, ordered => raise leaves the state untouched / completion performs every mutation, unordered => some failure pattern breaks atomicity; splice = put_src_is_spec; differential oracle against whole-file CPython parse',
   text='Proved (closed): on every control-flow path of the raw reparse (calls inlined, try/except edges and the done flag followed) every atom that may raise precedes every atom that mutates the live tree or '
        'source; for such paths any failure pattern that raises leaves the state version unchanged and a completed run performed all mutations; the check is exact (an unordered path has a breaking failure '
        'pattern); a successful edit leaves the algebraic text splice. Partial: equality of the statement-level reparse with a whole-file parse, exceptions inside _put_src/_set_ast, root identity are decided '
        'by the oracle: random sequences of put_src(reparse) on/off node boundaries and across statements, raw node puts and reparse() with valid, invalid, indentation-changing and statement-splitting text; '
        'raise => source and ast.dump(with positions) unchanged and the splice is not a valid module; success => source == splice and tree == ast.parse incl. positions. Two defect families found this way '
        'were repaired in /repo. Deterministic: header edits of ExceptHandler / match_case roots, also with header text that brings statements of its own; negative coordinates; blanks at statement starts; edits in the comments / empty '
        'lines around fragment roots. models/Scaffold.v: the copy in which a column-0 statement is reparsed alone receives an edit at or below its first kept line exactly like the real source, an edit above it is lost; a recorder around '
        'fst_raw._reparse_raw_base checks copy == scaffold and the hypothesis on every statement-level reparse.',
   note='Trusted: Coq kernel/vm_compute; translator py/py2v/gen_raweffects.py (fail-closed classification tables: which calls may raise / mutate live state / touch only the scratch copy); CPython parser as reference. No axioms.',
   design='DESIGN.md section 4 C10'),
 'C13': dict(
   technique='Coq proof: the reconcile recursion (in place / copy from mark / AST put, primitive fix, child recursion with wholesale fallback) returns a tree structurally equal to ANY edited tree; no change => no put and the marked tree intact; untouched in-place children intact; correspondence of put counts with the real Reconcile; mutation oracle with mark/reconcile rounds',
   text='Proved (closed): for every marked tree and every edited tree over nodes tagged "object k of the mark" or "pure AST" the modelled recurse_node/recurse_children returns a structurally equal tree; '
        'reconciling an unchanged tree performs zero puts and returns the mark with all formatting identities; an untouched child still in place under an in-tree parent is returned intact whatever '
        'happens to its siblings. Partial: the puts themselves, slice-copy provenance and comments are decided by the oracle: up to 3 mark/reconcile rounds with 0..5 pure-AST mutations (replace / swap / '
        'duplicate expressions, primitives, operators, statement insert / delete / replace / move / reverse / duplicate, foreign FST nodes, container resize); result must satisfy C01, equal the edited AST, '
        'leave the source identical when nothing changed and keep text and comments of untouched top-level statements. One defect found (1 -> True not reconciled) was repaired in /repo. The loop of recurse_slice over an edited list (models/SliceReplay.v: maximal runs of consecutive source elements by one slice operation, in-place and pure elements alone, tail deleted) leaves exactly the edited list whatever the output held, and only recurses into an unchanged list (2 theorems, tied to the put_slice calls real reconcile() makes). Deterministic stages: primitive fields, foreign runs and nodes written in a form only their old home allows, Dict re-pairing, try clause counts. Also: nodes taken from another tree whose own lists / fields were edited as well. Also: keyword.arg edits (name <-> **) with positional / starred arguments on either side.',
   note='Trusted: Coq kernel/vm_compute; hand model Reconcile.v tied by correspondence of put counts on edits that do not move slice elements; ast.unparse/parse round trip as the definition of a valid edited tree; CPython parser. No axioms.',
   design='DESIGN.md section 4 C13'),
 'C15': dict(
   technique='Coq proof: the on=enter walk loop over a heap of AST objects / FST handles against an adversary that supplies ANY well-formed heap after each yield subject to `legal` (existing objects keep parent and handle, new ones are fresh): invariant => no handle yielded twice, only attached nodes yielded, exactly the then-current children scheduled; correspondence on observed heaps (yields + WF/legal evaluated); mutation-during-walk oracle',
   text='Proved (closed): for every number of steps, every legal chain of heaps and every send pattern no FST handle is yielded twice; a handle is yielded only for an object attached at that moment; '
        'detached objects are dropped silently, filtered ones not yielded but expanded; after the yield exactly the children of the handle\'s current AST are scheduled; on an UNMODIFIED tree '
        '(models/WalkLeave.v) on=leave is the bottom-up order, on=both brackets every node, send(True) on leaving walks the children again then the node then what follows, send(False) on entry '
        'skips the children but not the leave (5 theorems, tied to the real generator under random send() decisions). Partial: termination, '
        'leave/both under mutation (deterministic resend sweep: replace + send(True) at every leaving yield, walk root included) and scope variants, search/sub consumers, legality of real replace/remove (evaluated on every observed heap) and the final C01 are decided by the oracle: random walks with replace/remove '
        'of the current node, ancestors and siblings and send(), checking no raise, bounded steps, attached-and-reachable yields, no double entry, new children next, final re-parse. One defect '
        '(scope walk of comprehensions used stale nodes) and later ones (see known_findings.json fixed lines) were repaired in /repo. send(True) at entry yields (enter / both, recurse on / off, with a replacement first) is followed by the node\'s (new) children, the node once on leaving, then the reference continuation. Proved as well (models/WalkShallow.v): in a non-recursing both-walk send(True) at the entry yield of a child yields exactly its bracket. Deterministic: an optional single-node child removed while the walk stands in front of / inside it. Also: the walk root of an inner walk (or an ancestor) removed / replaced while the walk stands below it. Also: on=\'both\' with send(False) at the entry of every node, the walk root included: entered nodes are left exactly once, innermost first.',
   note='Trusted: Coq kernel/vm_compute; hand model WalkMut.v tied by correspondence on heaps observed from the real objects (children order from astutil.syntax_ordered_children, checked in C14); CPython parser. No axioms.',
   design='DESIGN.md section 4 C15'),
 'C16': dict(
   technique='Coq proof: the scope-restricted walk (stop at nested scopes, take their outer parts, hoist walrus targets out of comprehensions) yields exactly the nodes the declarative rule assigns to the scope, for every tree and scope at any depth; walrus-free trees are partitioned; correspondence with walk(scope=True) on encoded real trees; symtable oracle for scope_symbols',
   text='Proved (closed): for every tree with unique ids and every scope root (function-like or comprehension) the modelled scope walk yields exactly the declaratively assigned nodes, walrus targets going to '
        'their comprehension, every enclosing comprehension and the nearest function-like scope; without walrus targets each node belongs to exactly one scope; the classification half of scope_symbols '
        '(models/Symbols.v over the load / store / del / global / nonlocal / comprehension-walrus events of the scope in walk order): free = the compiler\'s used-not-bound-not-declared, local = the '
        'compiler\'s local minus deleted-only names, local / free / declared disjoint, walrus targets of a comprehension root stored but not local and reported free (tied by correspondence of all seven '
        'dictionaries, keys in order). Partial: agreement of the rule and of name '
        'classification with CPython is decided by the oracle: every scope of hand-written scope programs, the corpus and generated programs: node sets of walk(True, scope=True) vs the Coq walk on the encoded '
        'tree; scope_symbols(full=True) vs the symtable module (load, store+del, global, nonlocal, local, free; names restricted to those occurring in the scope because CPython 3.12 merges inlined '
        'comprehensions). Two defects found (exception / pattern-capture names never reported; first-iterable names dropped under a filter) were repaired in /repo. Deterministic: the name `_` as a binding vs the wildcard; the scope walk\'s order against the plain walk; each scope_symbols dictionary independent of the optional ones requested.',
   note='Trusted: Coq kernel/vm_compute; hand models Scope.v and Symbols.v tied by correspondence (the events a node class contributes are re-derived by the harness); the encoder\'s outer/inner split per node class (the property\'s own list); CPython symtable. No axioms.',
   design='DESIGN.md section 4 C16'),
 'C18': dict(
   technique='Coq proof: substitution on rose trees for any node predicate and templates with whole-match / child-capture slots: the flat substitution meets (and is determined by) the declarative replace-outermost-matches specification; whole-match template is the identity flat and nested; count = number of outermost matches; no match => unchanged; correspondence with FST.subn; pure-AST reference oracle over 16 scenarios',
   text='Proved (closed): for every predicate, template and tree the modelled sub replaces exactly the outermost matching nodes by the filled template and leaves every non-matching node above them as it is, '
        'uniquely; the whole-match template is the identity in both modes; the count equals the number of outermost matches; a tree without matches is returned unchanged. The nested model (replacement '
        'root and template nodes never re-examined, captures below the root examined) is tied by correspondence. Partial: matcher, slice / quantifier captures, slot discovery, text preservation and '
        'counts on real trees are decided by the oracle: FST.subn vs a pure-AST reference for 16 scenarios x flat/nested on corpus and generated programs (C01, structure, counts, comments outside '
        'substituted nodes). Also proved (models/SubLoop.v, the driver loop over the match locations with count / loop / callback, tied by correspondence to the counts FST.subn reports): the reported '
        'pair is (locations substituted, substitutions performed) for every setting, every location takes at most what it can match and at most the same loop allowance, a count limit is respected. '
        'Deterministic stages: statement templates, single vs slice slots of one template, __FSS_/__FSO_, loop with declining callbacks. A capture written into a slot INSIDE a string constant of the template (models/SlotEscape.v over the literal scanners of models/StrRepr.v) reads back as the capture\'s source in single- and triple-quoted strings of either quote kind (3 theorems, tied to the text real sub() writes). Deterministic sweeps: slot modes, ctx=True, several-statement templates, spliced whole matches with nested, interleaved captures. Quantifier captures over the merged virtual fields for every interleaving x window; slots inside f-string literal parts and bytes constants read back as the capture\'s source. Also: negative count; loop= over statements replaced by several statements. Also: a captured arguments node put into a template parameter list with the slot in every position (plain, behind / or *, as *slot, **slot, alone): names, annotations, defaults, order, and the kind where the slot does not ask to change it.',
   note='Trusted: Coq kernel/vm_compute; hand models Subst.v and SubLoop.v tied by correspondence; FST.match for the set of matching nodes (C17); ast.unparse/parse to decide that a reference result is a program. No axioms.',
   design='DESIGN.md section 4 C18'),
 'C19': dict(
   technique='Coq proof: expression <-> match-pattern coercion over a grammar covering everything the routines accept: whenever a coercion succeeds the result has exactly the names and constants of the operand in the same order (both directions), simple forms round-trip, other expressions are refused; correspondence of accept/refuse and result structure with as_(pattern) / FST(ast, pattern) / as_(expr); kind x mode matrix oracle',
   text='Proved (closed): for every expression of the modelled grammar that coerces to a pattern the pattern has the same leaves in the same order (wildcard, or-ladders flattened in order, mapping keys, class keyword names, '
        '** rest), likewise pattern to expression; captures, literals, signed numbers and attribute chains go there and back unchanged; the import-alias coercion (models/Alias.v) accepts exactly attribute chains on a name and builds the '
        'dotted path in source order (tied to as_(alias) / FST(ast, alias) / as_(_aliases) by correspondence). Partial: the remaining coercion routines and formatting are decided by '
        'the oracle: ~200 hand operands (every repeated element twice and three times, non-ASCII, parenthesized, multi-line) + corpus nodes x 40 target modes: operand untouched under copy=True, result of the requested kind, verifies and re-parses in that mode to itself, same names/constants, same '
        'kind unchanged, formatted vs pure-AST coercion agree, in-place == copy, coercing put == put of the converted node. Two defects repaired in /repo, one recorded as known finding (its wrong '
        'behaviour is pinned by an existing snapshot test). Operands with redundant parentheses inside | chains in both directions. Operands also under pars_arglike=None, type parameters in orders arguments cannot have, pure-AST operands must stay as passed.',
   note='Trusted: Coq kernel/vm_compute; hand models Coerce.v and Alias.v tied by correspondence; FST(src, mode) (C05) as the meaning of "parses in the requested mode". No axioms.',
   design='DESIGN.md section 4 C19'),
}

checks = []
for p in props:
    pid = p['id']
    if pid in CLAIMS:
        c = CLAIMS[pid]
        checks.append({
            'property_id': pid,
            'quick_cmd': f'./check {pid} --tier quick',
            'thorough_cmd': f'./check {pid} --tier thorough',
            'evidence_file': f'/verif/evidence/{pid}.json',
            'replay_cmd_template': f'./check {pid} --replay {{path}}',
            'engine': 'coq+corr',
            'level_claimed': {'category': 'proof', 'text': c['text'], 'design_ref': c['design']},
            'level_note': c['note'],
            'technique': c['technique'],
        })
na = [{'property_id': p['id'], 'reason': 'not yet claimed: Coq model and correspondence for this property are still being built (see DESIGN.md section 8 build order); the technique applies'}
      for p in props if p['id'] not in CLAIMS]
m = {
 'version': 1,
 'setup_cmd': 'cd /verif && ./setup.sh',
 'hooks': {'guard': 'PFST_VERIF', 'enable': 'no source hooks: the harness monkey-patches class attributes inside its own process; PFST_VERIF=1 is exported by ./check but unused by /repo',
           'baseline_off_cmd': 'cd /repo && /venv/bin/python -m pytest -ra -q -p no:cacheprovider --timeout=900 --continue-on-collection-errors',
           'source_commits': [], 'add_only': True},
 'engines': [{'name': 'coq+corr', 'path': '/verif/check', 'serves_properties': sorted(CLAIMS),
              'kind_free_text': 'Coq 8.16.1 theorems over models regenerated/translated from /repo + vm_compute correspondence with the real implementation + CPython-oracle cross-check'}],
 'checks': checks,
 'not_applicable': na,
 'notes': 'Every check regenerates coq/gen/*.v from /repo/src/fst, rebuilds its props/<id>.vo cone with coqc (full .vo), runs correspondence and oracle cross-checks against /repo working tree.',
}
json.dump(m, open(os.path.join(V, 'MANIFEST.json'), 'w'), indent=1)
print('checks:', [c['property_id'] for c in checks])
