(* C01 - After any successful edit the source text still parses to exactly the live tree.

   FULL STATEMENT: after every structured edit that returns normally (with parenthesization and normalization
   enabled) the source, parsed from scratch by CPython, equals the live tree in types, fields, contexts and every
   node's extent; after each step of an arbitrarily long edit sequence, for any layout.

   The statement splits into (F) FRAME - everything outside the edited element keeps its text and gets the right new
   position, containers grow by exactly the splice - and (E) ELEMENT - the text put for the new element parses, in
   that slot, to the new sub-tree.

   PROVED HERE (F), for every text, tree, region and replacement:
     - every edit primitive is a local text splice (K1) and the TRANSLATED offset parameters locate the kept text;
     - the TRANSLATED per-node rule is the intended position map and the walk applies it to every node (K2);
     - single-expression replacement (the three _offset calls of _make_exprlike_fst): every surviving node ends up
       at mode_map(...) - before the region: fixed; after: rigidly moved; containers: grown - and every node of the
       new sub-tree at its standalone position moved rigidly to the put location.
     - putting delimiters around a node T (par() / automatic parenthesization: _delimit_node, _parenthesize_grouping, whose
       _put_src / _offset flags are TRANSLATED): every node that is not around T - before it, after it (also one that starts
       exactly where T ended, the format specification of an f-string field) or below it - ends up exactly where its characters
       are; T's ancestors keep their start and grow by the delimiters; T grows by both (Tuple) or moves with its text (grouping).
   (E) for expression slots is C09's theorem.  NOT PROVED: (E) for separator lists and statement blocks, the
   per-(type,field) handler glue, and preservation of `Ordered` along sequences: decided by the oracle cross-check over
   random edit sequences (py/props/C01.py); OH1 (CPython positions = token extents) is an oracle hypothesis. *)
From Coq Require Import ZArith NArith List Bool Lia.
From PF Require Import kernel.PyBase kernel.Text kernel.OffsetBase gen.ParamsOffset gen.OffsetNode gen.DelimitCalls models.Offset
  models.Delimit proofs.TextProofs proofs.ParamsOffsetProofs proofs.OffsetProofs proofs.DelimitProofs.
Import ListNotations.

Theorem C01_every_put_is_one_splice : forall L P ln col eln ecol,
  valid_loc L ln col eln ecol -> put_lines_of P <> [] ->
  put_src L P ln col eln ecol = put_spec L (put_lines_of P) ln col eln ecol.
Proof. exact put_src_is_spec. Qed.
Print Assumptions C01_every_put_is_one_splice.

Theorem C01_text_after_splice_located_by_params : forall L put ln col eln ecol k,
  ln <= length L -> ecol <= length (lineAt L eln) ->
  bskip (blen_nat (new_prefix L put ln col) + k) (nth (ln + (length put - 1)) (put_spec L put ln col eln ecol) [])
  = bskip (c2b (lineAt L eln) ecol + k) (lineAt L eln).
Proof. exact end_line_suffix_bytes. Qed.
Print Assumptions C01_text_after_splice_located_by_params.

Theorem C01_params_offset_correct : forall (L put : pytext) (ln col eln ecol : nat),
  valid_loc L ln col eln ecol -> put <> [] ->
  params_offset L put (Z.of_nat ln) (Z.of_nat col) (Z.of_nat eln) (Z.of_nat ecol)
  = Some (Z.of_nat eln, (- Z.of_nat (c2b (lineAt L eln) ecol))%Z,
          (Z.of_nat (length put - 1) - Z.of_nat (eln - ln))%Z,
          (Z.of_nat (blen_nat (new_prefix L put ln col)) - Z.of_nat (c2b (lineAt L eln) ecol))%Z).
Proof. exact params_offset_correct. Qed.
Print Assumptions C01_params_offset_correct.

Theorem C01_walk_is_map : forall lno colo dln dcol tail head excl oe t, Ordered t ->
  fst (walk_tree lno colo dln dcol tail head excl oe t) = map_tree lno colo dln dcol tail head excl oe t.
Proof. intros. now apply walk_is_map. Qed.
Print Assumptions C01_walk_is_map.

Theorem C01_new_subtree_lands_rigidly : forall ln0 dcol0 new, Ordered new -> standalone new ->
  rigid ln0 dcol0 new = map_pos (rigid_pos ln0 dcol0) new.
Proof. exact rigid_is_rigid_pos. Qed.
Print Assumptions C01_new_subtree_lands_rigidly.

Theorem C01_frame_expr_replace : forall lno colo dln dcol parent target ln0 dcol0 new t,
  Ordered t -> Ordered new -> standalone new ->
  expr_replace lno colo dln dcol parent target ln0 dcol0 new t
  = apply_at target (fun _ => map_pos (rigid_pos ln0 dcol0) new) (mode_map lno colo dln dcol parent false t).
Proof. exact expr_replace_is_mode_map. Qed.
Print Assumptions C01_frame_expr_replace.

Theorem C01_before_region_fixed : forall lno colo dln dcol tail head q,
  wf_pos q -> before lno colo q -> offset_spec lno colo dln dcol tail head q = q.
Proof. exact spec_id_before. Qed.
Print Assumptions C01_before_region_fixed.

Theorem C01_after_region_rigid : forall lno colo dln dcol tail head l c el ec,
  pos_le l c el ec = true -> pos_lt lno colo l c = true ->
  offset_spec lno colo dln dcol tail head (l, c, el, ec)
  = ((l + dln)%Z, (if (l =? lno)%Z then (c + dcol)%Z else c), (el + dln)%Z, (if (el =? lno)%Z then (ec + dcol)%Z else ec)).
Proof. exact spec_after. Qed.
Print Assumptions C01_after_region_rigid.

Theorem C01_container_grows_by_splice : forall lno colo dln dcol l c el ec,
  pos_le l c lno colo = true -> pos_le lno colo el ec = true -> pos_lt l c el ec = true ->
  offset_spec lno colo dln dcol TTrue TFalse (l, c, el, ec)
  = (l, c, (el + dln)%Z, (if (el =? lno)%Z then (ec + dcol)%Z else ec)).
Proof. exact spec_container. Qed.
Print Assumptions C01_container_grows_by_splice.

(* non-vacuity: `x = a + b` with `a` (0..1 of the BinOp at col 4) replaced by a 3-byte name *)
Example C01_nonvacuous :
  let t := SNode 0 (Some (1, 0, 1, 9)%Z) None
             [Some (SNode 1 (Some (1, 0, 1, 1)%Z) None []);
              Some (SNode 2 (Some (1, 4, 1, 9)%Z) None
                      [Some (SNode 3 (Some (1, 4, 1, 5)%Z) None []); Some (SNode 4 (Some (1, 8, 1, 9)%Z) None [])])] in
  let new := SNode 9 (Some (1, 0, 1, 3)%Z) None [] in
  flat_pos (expr_replace 1 5 0 2 2 3 0 4 new t)
  = [Some (1, 0, 1, 11)%Z; Some (1, 0, 1, 1)%Z; Some (1, 4, 1, 11)%Z; Some (1, 4, 1, 7)%Z; Some (1, 10, 1, 11)%Z].
Proof. vm_compute. reflexivity. Qed.

(* ---- delimiters put around a node (par(), automatic parenthesization): models/Delimit.v over the TRANSLATED call flags ---- *)
Theorem C01_role_reading_of_exclude_is_the_walk_map : forall pc lno colo p t i s, pc_excl_self pc = true ->
  map_tree lno colo 0 1 (pc_tail pc) (pc_head pc) (Some 1%nat) (pc_offset_excluded pc) (shape p t i s)
  = shape (put_at pc lno colo 1 ROther p) (put_at pc lno colo 1 RSelf t) (put_at pc lno colo 1 RInner i) (put_at pc lno colo 1 ROther s).
Proof. exact put_at_is_map_tree. Qed.
Print Assumptions C01_role_reading_of_exclude_is_the_walk_map.

Theorem C01_delimited_node_grows_by_both_delimiters : forall ls cs le ce, pos_lt ls cs le ce = true ->
  delimit_pos ls cs le ce RSelf (ls, cs, le, ce) = (ls, cs, le, (ce + 1 + b2z (le =? ls))%Z).
Proof. exact delimit_self. Qed.
Print Assumptions C01_delimited_node_grows_by_both_delimiters.

Theorem C01_delimit_every_node_beside_or_below_keeps_its_text : forall ls cs le ce l c el ec,
  pos_lt ls cs le ce = true -> pos_lt l c el ec = true ->
  (forall r, (r = ROther /\ (pos_le el ec ls cs = true \/ pos_le le ce l c = true))
             \/ (r = RInner /\ pos_le ls cs l c = true /\ pos_le el ec le ce = true) ->
     delimit_pos ls cs le ce r (l, c, el, ec) = (l, char_col ls cs le ce l c, el, end_col ls cs le ce el ec)).
Proof.
  intros ls cs le ce l c el ec HT Hne r [[-> H]|[-> [H1 H2]]]; [now apply delimit_frame | now apply delimit_inner_frame].
Qed.
Print Assumptions C01_delimit_every_node_beside_or_below_keeps_its_text.

Theorem C01_delimit_ancestors_grow_by_the_delimiters : forall ls cs le ce l c el ec, pos_lt ls cs le ce = true ->
  pos_le l c ls cs = true -> pos_le le ce el ec = true ->
  delimit_pos ls cs le ce ROther (l, c, el, ec) = (l, c, el, (ec + b2z (el =? ls) + b2z (el =? le))%Z).
Proof. exact delimit_ancestors. Qed.
Print Assumptions C01_delimit_ancestors_grow_by_the_delimiters.

Theorem C01_delimit_following_node_is_not_overlapped : forall ls cs le ce l c el ec,
  pos_lt ls cs le ce = true -> pos_lt l c el ec = true -> pos_le le ce l c = true ->
  let '(_, _, tel, tec) := delimit_pos ls cs le ce RSelf (ls, cs, le, ce) in
  let '(l', c', _, _) := delimit_pos ls cs le ce ROther (l, c, el, ec) in
  pos_le tel tec l' c' = true.
Proof. exact delimit_next_not_overlapped. Qed.
Print Assumptions C01_delimit_following_node_is_not_overlapped.

Theorem C01_closing_put_without_head_would_overlap :
  let cl := {| pc_tail := TTrue; pc_head := TFalse; pc_excl_self := true; pc_offset_excluded := true |} in
  let '(_, _, tel, tec) := wrap_pos cl delimit_open delimit_inner true 1 3 1 6 RSelf (1, 3, 1, 6)%Z in
  let '(l', c', _, _) := wrap_pos cl delimit_open delimit_inner true 1 3 1 6 ROther (1, 6, 1, 8)%Z in
  pos_lt l' c' tel tec = true.
Proof. exact close_head_false_overlaps. Qed.
Print Assumptions C01_closing_put_without_head_would_overlap.

Theorem C01_grouped_node_moves_with_its_text : forall ls cs le ce, pos_lt ls cs le ce = true ->
  group_pos ls cs le ce RSelf (ls, cs, le, ce) = (ls, char_col ls cs le ce ls cs, le, end_col ls cs le ce le ce)
  /\ group_pos ls cs le ce RSelf (ls, cs, le, ce) = (ls, (cs + 1)%Z, le, (ce + b2z (le =? ls))%Z).
Proof. intros; split; [now apply group_self_is_text | now apply group_self]. Qed.
Print Assumptions C01_grouped_node_moves_with_its_text.

Theorem C01_group_every_node_beside_or_below_keeps_its_text : forall ls cs le ce l c el ec,
  pos_lt ls cs le ce = true -> pos_lt l c el ec = true ->
  (forall r, (r = ROther /\ (pos_le el ec ls cs = true \/ pos_le le ce l c = true))
             \/ (r = RInner /\ pos_le ls cs l c = true /\ pos_le el ec le ce = true) ->
     group_pos ls cs le ce r (l, c, el, ec) = (l, char_col ls cs le ce l c, el, end_col ls cs le ce el ec)).
Proof.
  intros ls cs le ce l c el ec HT Hne r [[-> H]|[-> [H1 H2]]]; [now apply group_frame | now apply group_inner_frame].
Qed.
Print Assumptions C01_group_every_node_beside_or_below_keeps_its_text.

Theorem C01_group_ancestors_grow_by_the_parentheses : forall ls cs le ce l c el ec, pos_lt ls cs le ce = true ->
  pos_le l c ls cs = true -> pos_le le ce el ec = true ->
  group_pos ls cs le ce ROther (l, c, el, ec) = (l, c, el, (ec + b2z (el =? ls) + b2z (el =? le))%Z).
Proof. exact group_ancestors. Qed.
Print Assumptions C01_group_ancestors_grow_by_the_parentheses.

(* non-vacuity: x = f'{a,b:x}' *)
Example C01_delimit_nonvacuous :
  delimit_pos 1 7 1 10 RSelf (1, 7, 1, 10)%Z = (1, 7, 1, 12)%Z /\ delimit_pos 1 7 1 10 ROther (1, 10, 1, 12)%Z = (1, 12, 1, 14)%Z
  /\ delimit_pos 1 7 1 10 RInner (1, 9, 1, 10)%Z = (1, 10, 1, 11)%Z /\ delimit_pos 1 7 1 10 ROther (1, 4, 1, 14)%Z = (1, 4, 1, 16)%Z.
Proof. exact delimit_fstring_field. Qed.

(* ---- unpar undoes par: _unparenthesize_grouping (flags TRANSLATED) after _parenthesize_grouping returns every node to its position ---- *)
Theorem C01_unpar_undoes_par_on_every_node : forall ls cs le ce l c el ec, pos_lt ls cs le ce = true ->
  let e := (ce + b2z (le =? ls))%Z in
  ungroup_pos ls cs le e RSelf (group_pos ls cs le ce RSelf (ls, cs, le, ce)) = (ls, cs, le, ce)
  /\ (pos_lt l c el ec = true -> pos_le ls cs l c = true -> pos_le el ec le ce = true ->
      ungroup_pos ls cs le e RInner (group_pos ls cs le ce RInner (l, c, el, ec)) = (l, c, el, ec))
  /\ (pos_lt l c el ec = true -> pos_le le ce l c = true \/ pos_le el ec ls cs = true ->
      ungroup_pos ls cs le e ROther (group_pos ls cs le ce ROther (l, c, el, ec)) = (l, c, el, ec))
  /\ (pos_le l c ls cs = true -> pos_le le ce el ec = true ->
      ungroup_pos ls cs le e ROther (group_pos ls cs le ce ROther (l, c, el, ec)) = (l, c, el, ec)).
Proof.
  intros ls cs le ce l c el ec HT e. repeat split.
  - now apply ungroup_group_self.
  - intros; now apply ungroup_group_inner.
  - intros Hne [H|H]; [now apply ungroup_group_after | now apply ungroup_group_before].
  - intros; now apply ungroup_group_ancestors.
Qed.
Print Assumptions C01_unpar_undoes_par_on_every_node.

(* non-vacuity: x = a + b -> x = (a + b) -> x = a + b : the Assign, its target, the BinOp and its operands *)
Example C01_unpar_nonvacuous :
  map (fun rq => ungroup_pos 1 4 1 10 (fst rq) (group_pos 1 4 1 9 (fst rq) (snd rq)))
      [(ROther, (1, 0, 1, 9)); (ROther, (1, 0, 1, 1)); (RSelf, (1, 4, 1, 9)); (RInner, (1, 4, 1, 5)); (RInner, (1, 8, 1, 9))]%Z
  = [(1, 0, 1, 9); (1, 0, 1, 1); (1, 4, 1, 9); (1, 4, 1, 5); (1, 8, 1, 9)]%Z
  /\ map (fun rq => group_pos 1 4 1 9 (fst rq) (snd rq)) [(ROther, (1, 0, 1, 9)); (RSelf, (1, 4, 1, 9)); (RInner, (1, 8, 1, 9))]%Z
  = [(1, 0, 1, 11); (1, 5, 1, 10); (1, 9, 1, 10)]%Z.
Proof. vm_compute. split; reflexivity. Qed.

(* the same for delimiters that belong to the node: _undelimit_node (flags TRANSLATED) after _delimit_node *)
Theorem C01_undelimit_undoes_delimit_on_every_node : forall ls cs le ce l c el ec, pos_lt ls cs le ce = true ->
  let e := (ce + b2z (le =? ls))%Z in
  undelimit_pos ls cs le e RSelf (delimit_pos ls cs le ce RSelf (ls, cs, le, ce)) = (ls, cs, le, ce)
  /\ (pos_lt l c el ec = true -> pos_le ls cs l c = true -> pos_le el ec le ce = true ->
      undelimit_pos ls cs le e RInner (delimit_pos ls cs le ce RInner (l, c, el, ec)) = (l, c, el, ec))
  /\ (pos_lt l c el ec = true -> pos_le le ce l c = true \/ pos_le el ec ls cs = true ->
      undelimit_pos ls cs le e ROther (delimit_pos ls cs le ce ROther (l, c, el, ec)) = (l, c, el, ec))
  /\ (pos_le l c ls cs = true -> pos_le le ce el ec = true ->
      undelimit_pos ls cs le e ROther (delimit_pos ls cs le ce ROther (l, c, el, ec)) = (l, c, el, ec)).
Proof.
  intros ls cs le ce l c el ec HT e. repeat split.
  - now apply undelimit_delimit_self.
  - intros; now apply undelimit_delimit_inner.
  - intros Hne [H|H]; [now apply undelimit_delimit_after | now apply undelimit_delimit_before].
  - intros; now apply undelimit_delimit_ancestors.
Qed.
Print Assumptions C01_undelimit_undoes_delimit_on_every_node.
