(* C08 - Putting back what was taken restores the tree; accessors read back writes.

   FULL STATEMENT: cutting any element or slice and putting it back at the same place, or replacing any node by its own
   copy, its own pure AST or its own source text, yields a tree structurally equal to the original; own_src parses back
   to the node. A docstring or line comment written through the dedicated accessor is read back unchanged (for any
   text whose first line does not start with whitespace), and AST values always equal what the new source denotes.

   PROVED HERE
   (quoting, models/StrRepr.v tied to astutil.repr_str_multiline by correspondence): for EVERY string - any mix of
   both quote characters, backslashes, newlines, tabs, NUL, other non-printable and printable characters - the literal
   produced by repr_str_multiline is read back by CPython's triple-quoted literal reader (scanner + escape evaluation,
   transcribed as `decode`) as exactly that string: quote selection, escaping of a final quote character and the
   repr()+three-replaces fallback (the NUL placeholder trick) included.
   (indentation): get_docstr's per-line dedent inverts the indentation the put applies to the literal's lines, for
   every text whose first line does not start with whitespace.
   (container layer, kernel/Container.v): cut-then-put-back, put-own-slice and read-after-write laws of the slice
   semantics every list field is refined to in C03; (tree layer) replacing the node at a path by itself is the
   identity, a node written at a path is read back there and all nodes on disjoint paths are untouched.
   NOT PROVED: that the concrete put/cut code realises these laws for each field's separators, parentheses and trivia,
   code_as_* normalisation, own_src, the line-comment accessor: decided on the real implementation by py/props/C08.py
   (partial). *)
From Coq Require Import List Bool Arith.
From PF Require Import kernel.Container models.StrRepr proofs.StrReprProofs proofs.RoundTripProofs.
Import ListNotations.

Theorem C08_docstring_literal_round_trip : forall s : pystr, decode (repr_str_multiline s) = Some s.
Proof. exact repr_str_multiline_round_trip. Qed.
Print Assumptions C08_docstring_literal_round_trip.

Theorem C08_docstring_indent_round_trip : forall ind ls,
  Forall (fun c => is_ws c = true) ind ->
  match ls with f :: _ => no_leading_ws f | [] => True end ->
  get_docstr_lines ind (put_docstr_lines ind ls) = ls.
Proof. exact docstr_lines_round_trip. Qed.
Print Assumptions C08_docstring_indent_round_trip.

Theorem C08_cut_put_back : forall (A : Type) (l : list A) s e,
  s <= e -> put_slice_spec (del_slice_spec l s e) s s (get_slice_spec l s e) = l.
Proof. intros A. exact (@cut_put_back A). Qed.
Print Assumptions C08_cut_put_back.

Theorem C08_put_own_slice : forall (A : Type) (l : list A) s e, s <= e -> put_slice_spec l s e (get_slice_spec l s e) = l.
Proof. intros A. exact (@put_own_slice A). Qed.
Print Assumptions C08_put_own_slice.

Theorem C08_read_after_write : forall (A : Type) (l : list A) s e new,
  s <= length l ->
  get_slice_spec (put_slice_spec l s e new) s (s + length new) = new /\
  firstn s (put_slice_spec l s e new) = firstn s l /\
  skipn (s + length new) (put_slice_spec l s e new) = skipn e l.
Proof.
  intros A l s e new H. split; [|split].
  - exact (get_after_put l s e new H).
  - exact (put_keeps_prefix l s e new H).
  - exact (put_keeps_suffix l s e new H).
Qed.
Print Assumptions C08_read_after_write.

Theorem C08_replace_by_self : forall p t k, subtree p t = Some k -> replace_at p t k = t.
Proof. exact replace_by_self. Qed.
Print Assumptions C08_replace_by_self.

Theorem C08_node_read_back : forall p t k new, subtree p t = Some k -> subtree p (replace_at p t new) = Some new.
Proof. exact subtree_after_replace. Qed.
Print Assumptions C08_node_read_back.

Theorem C08_disjoint_untouched : forall p q t new,
  is_prefix p q = false -> is_prefix q p = false -> subtree q (replace_at p t new) = subtree q t.
Proof. exact subtree_disjoint. Qed.
Print Assumptions C08_disjoint_untouched.

(* non-vacuity: a string that takes the fallback route (both kinds of triple quotes, a backslash, a newline, a NUL) and
   one that needs its final quote escaped *)
Example C08_fallback_example :
  let s := [DQ; DQ; DQ; P 1; SQ; SQ; SQ; BS; Ln; NL; NUL; BS] in
  has_triple DQ (escaped s) && has_triple SQ (escaped s) = true /\ decode (repr_str_multiline s) = Some s.
Proof. split; reflexivity. Qed.

Example C08_final_quote_example :
  let s := [SQ; SQ; SQ; P 1; DQ] in repr_str_multiline s = [DQ; DQ; DQ; SQ; SQ; SQ; P 1; BS; DQ; DQ; DQ; DQ].
Proof. reflexivity. Qed.
