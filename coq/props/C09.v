(* C09 - Replacing an operand never changes how the surrounding expression groups.

   FULL STATEMENT: for every expression or pattern position and every kind of replacement expression, in one-line or
   multi-line layout, the edited source parses to the parent with exactly that replacement in that position;
   parentheses are added whenever precedence, associativity or line structure requires them, and needed existing
   parentheses are never removed.

   PROVED HERE: C09_table_adequate - over the COMPLETE finite domain (every child kind x every slot x all 16 flag
   settings; 3489 triples) the decision function TRANSLATED from astutil.precedence_require_parens_by_type together
   with the TRANSLATED tables answers "parentheses required" whenever the hand-written grammar requirement
   (models/PyGrammar.v: levels of the Python 3.12 expression/pattern grammar) says an unparenthesised child would not
   parse back into that slot. Re-checked on the regenerated tables on every run.
   NOT PROVED (partial): that the hand grammar levels are CPython's (no Gallina parser / round-trip proof was built):
   instead `grammar_needs = false -> the bare child parses back into the slot` is validated on every run by exhaustive
   enumeration of the finite (slot x child kind x example) domain against ast.parse (OH2), and the full chain is
   cross-checked through real puts. Line structure (the _is_enclosed functions) and atom analysis are covered by the oracle only. *)
From Coq Require Import List String Bool Arith.
From PF Require Import kernel.PrecBase gen.PrecTables models.PyGrammar.
Import ListNotations.
Local Open Scope string_scope.

Definition adequate_at (t : string * string * string) (fl : flags) : bool :=
  let '(c, p, f) := t in
  implb (grammar_needs c p f fl) (match require_parens c p f fl with Some true => true | _ => false end).

Lemma table_adequate_all : forallb (fun t => forallb (adequate_at t) all_flags) all_triples = true.
Proof. vm_compute. reflexivity. Qed.

Theorem C09_table_adequate : forall c p f fl, In (c, p, f) all_triples -> In fl all_flags ->
  grammar_needs c p f fl = true -> require_parens c p f fl = Some true.
Proof.
  intros c p f fl Ht Hf Hn. pose proof table_adequate_all as H. rewrite forallb_forall in H.
  specialize (H _ Ht). rewrite forallb_forall in H. specialize (H _ Hf). unfold adequate_at in H. rewrite Hn in H. cbn in H.
  destruct (require_parens c p f fl) as [[|]|]; try discriminate. reflexivity.
Qed.
Print Assumptions C09_table_adequate.

(* every flag record is in the enumerated domain: the statement above really is for ALL flag settings *)
Theorem C09_flags_complete : forall fl, In fl all_flags.
Proof. intros [[|] [|] [|] [|]]; vm_compute; tauto. Qed.
Print Assumptions C09_flags_complete.

(* the decision function is total on the domain (never the assert / ValueError path) *)
Theorem C09_decision_total : forallb (fun t => let '(c, p, f) := t in forallb (fun fl => match require_parens c p f fl with Some _ => true | None => false end) all_flags) all_triples = true.
Proof. vm_compute. reflexivity. Qed.
Print Assumptions C09_decision_total.

(* associativity: the operand opposite to the operator's associativity is one level stricter *)
Theorem C09_associativity : 
  forallb (fun op => match require_parens op op "right" no_flags, require_parens op op "left" no_flags with
                     | Some r, Some l => if String.eqb op "Pow" then l && negb r else r && negb l | _, _ => false end)
          ["Add"; "Sub"; "Mult"; "MatMult"; "Div"; "Mod"; "FloorDiv"; "LShift"; "RShift"; "BitOr"; "BitXor"; "BitAnd"; "Pow"] = true.
Proof. vm_compute. reflexivity. Qed.
Print Assumptions C09_associativity.

Example C09_nonvacuous :
  existsb (fun t => let '(c, p, f) := t in String.eqb c "IfExp" && String.eqb p "comprehension" && String.eqb f "iter") all_triples = true /\
  grammar_needs "IfExp" "comprehension" "iter" no_flags = true /\
  require_parens "IfExp" "comprehension" "iter" no_flags = Some true /\
  require_parens "Mult" "Add" "left" no_flags = Some false /\ require_parens "Add" "Mult" "left" no_flags = Some true.
Proof. vm_compute. repeat split; reflexivity. Qed.
