(* C07 - Copying never disturbs the tree; extraction is faithful and loses nothing.

   FULL STATEMENT: copy(), get() and get_slice() leave the tree they read from byte-identical in source and identical in
   structure and positions, and return a self-contained tree that parses on its own and is structurally equal to the
   original sub-tree or sub-list (up to the documented re-indentation of docstrings). A cut returns what the copy would
   have returned and leaves what the delete would have left, and the tokens and comments of the original are exactly
   those of the remainder plus those of the extracted piece, apart from separators, parentheses and elif/else keywords
   that the move itself requires.

   PROVED HERE (text layer: kernel/Text.v get_src / put_spec, which put_src is proved equal to in C11, and
   models/Extract.v tied to _dedent_lns / _indent_lns / _make_fst_and_dedent by trace correspondence):
   - nothing is lost by a cut: putting the cut lines back at the cut point yields exactly the original line list, for
     every valid span (one line or many);
   - extraction is faithful: every character inside the copied span is found in the copy at the position the node
     offsets are shifted to (copy_ln/copy_col subtraction);
   - dedent removes leading white space only (the text after a line's indentation is unchanged, the reported column
     change is the number of characters removed and never exceeds the indentation), characters keep their identity
     under that column change, indent then dedent is the identity on every line set, and a line that carried the
     indentation is restored by re-indenting.
   - a copy reads through get_src only, which does not produce a new original: the original text is the same value
     (immutability is what the model cannot state: it is checked on the real objects by the oracle).
   NOT PROVED: that copy_loc / put_loc chosen by the slice code contain exactly the element, its trivia and separators;
   _fix_copy (parentheses, commas, elif->if); AST cloning. Decided on the implementation by py/props/C07.py (partial). *)
From Coq Require Import List NArith Bool Arith.
From PF Require Import kernel.PyBase kernel.Text models.Extract proofs.ExtractProofs.
Import ListNotations.

Theorem C07_cut_loses_nothing : forall L ln col eln ecol,
  valid_loc L ln col eln ecol ->
  let '(piece, rest) := cut_text L ln col eln ecol in put_spec rest piece ln col ln col = L.
Proof. exact cut_put_back_text. Qed.
Print Assumptions C07_cut_loses_nothing.

Theorem C07_copy_is_faithful : forall L ln col eln ecol p,
  valid_loc L ln col eln ecol -> pos_in ln col eln ecol p ->
  char_at (copy_text L ln col eln ecol) (shift_pos ln col p) = char_at L p.
Proof. exact copy_char_faithful. Qed.
Print Assumptions C07_copy_is_faithful.

Theorem C07_dedent_removes_whitespace_only : forall d l,
  forallb is_ws d = true ->
  strip_ws (dedent_line d l) = strip_ws l /\ dedent_line d l = skipn (dedent_amount d l) l /\ dedent_amount d l <= ws_len l.
Proof. exact dedent_removes_whitespace_only. Qed.
Print Assumptions C07_dedent_removes_whitespace_only.

Theorem C07_dedent_keeps_characters : forall d l c,
  dedent_amount d l <= c -> nth_error (dedent_line d l) (c - dedent_amount d l) = nth_error l c.
Proof. exact dedent_char_faithful. Qed.
Print Assumptions C07_dedent_keeps_characters.

Theorem C07_dedent_touches_only_selected_lines : forall d lns L k,
  nth_error (dedent_lns d lns L) k = option_map (fun l => if existsb (Nat.eqb k) lns then dedent_line d l else l) (nth_error L k).
Proof. exact dedent_lns_spec. Qed.
Print Assumptions C07_dedent_touches_only_selected_lines.

Theorem C07_indent_then_dedent : forall d lns L, dedent_lns d lns (indent_lns d lns L) = L.
Proof. exact dedent_then_indent_lns. Qed.
Print Assumptions C07_indent_then_dedent.

Theorem C07_reindent_restores : forall d l,
  l = [] \/ line_starts_with d l = true -> indent_line d (dedent_line d l) = l \/ dedent_line d l = [].
Proof. exact indent_dedent_line. Qed.
Print Assumptions C07_reindent_restores.

(* non-vacuity: a three-line cut with a partial first and last line *)
Example C07_cut_example :
  let L := [[1;2;3]; [4;5]; [6;7;8]]%N in
  valid_loc L 0 1 2 2 /\ cut_text L 0 1 2 2 = ([[2;3]; [4;5]; [6;7]]%N, [[1;8]]%N).
Proof. split; [unfold valid_loc; simpl; repeat split; auto; discriminate|reflexivity]. Qed.
