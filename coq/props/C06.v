(* C06 - Every reported location denotes exactly the text of its node.

   FULL STATEMENT: for every node with a location the text at that location is exactly the node's own source, first to
   last token; operator / computed locations cover exactly their tokens; argument lists span the text between their
   delimiters; parenthesis queries report exactly the balanced grouping parentheses of the node; children lie inside
   parents, siblings follow each other without overlap in syntax order; character-based and byte-based coordinates
   agree for any mix of ASCII and multi-byte text; the by-location searches return what a brute-force scan returns.

   PROVED HERE (coordinate layer, models/Bistr.v tied to astutil.bistr by correspondence): the char->byte map is the
   number of encoded bytes before the character and strictly increasing; byte->char is its left inverse (including the
   one-past-the-end index) and maps any byte index to the character containing it; on all-ASCII lines both are the
   identity (the implementation's fast path). Nesting/ordering of spans is the `Ordered` predicate of K2, preserved /
   used there.
   - (models/FindLoc.v: the search loop of find_contains_loc over the walk of the descendants, with its four cases -
     passed over, starts behind, ends too early and skipped, entered; tied to the method by correspondence on encoded trees)
     on every tree whose children lie inside their parent, in order and without overlap, the node returned is the root or
     holds the span, and none of its children holds it: it is the lowest node that contains the span.
   - (models/FindLoc.v find_in) find_in_loc answers with the FIRST node of the walk over the descendants that lies within the span: what it
     returns lies within, and when it returns nothing no descendant does (overlapping siblings included).
   NOT PROVED: the source scanners (next_frag, prev_frag, next_find, delimiters), pars(), the computed locations,
   find_loc: decided by the tokenize-based oracle and the brute-force search oracle in py/props/C06.py (partial).
   - (models/FindLoc.v, allow_exact = 'top' / False) relative to the path of nodes the default search enters (on a well-formed
     tree a chain: each a child of the one before, each holding the span): 'top' returns the FIRST node on that path whose
     location is exactly the span - the highest of several nodes at one location - and otherwise what the default search returns;
     False returns the node in front of that first exact node; allow_exact=True is the default search. *)
From Coq Require Import List NArith Bool Arith.
From PF Require Import kernel.PyBase kernel.Text models.Bistr proofs.BistrProofs models.FindLoc proofs.FindLocProofs.
Import ListNotations.

Theorem C06_c2b_is_bytes_before_char : forall l i, c2b l i = blen_nat (firstn i l).
Proof. exact c2b_is_prefix_bytes. Qed.
Print Assumptions C06_c2b_is_bytes_before_char.

Theorem C06_c2b_strictly_increasing : forall l i i', i < i' <= length l -> c2b l i < c2b l i'.
Proof. exact c2b_strict_mono. Qed.
Print Assumptions C06_c2b_strictly_increasing.

Theorem C06_b2c_inverts_c2b : forall l i, i <= length l -> b2c l (c2b l i) = i.
Proof. exact b2c_c2b. Qed.
Print Assumptions C06_b2c_inverts_c2b.

Theorem C06_b2c_finds_containing_char : forall l j, j < blen_nat l -> c2b l (b2c l j) <= j < c2b l (S (b2c l j)).
Proof. exact c2b_b2c_bracket. Qed.
Print Assumptions C06_b2c_finds_containing_char.

Theorem C06_b2c_end : forall l, b2c l (blen_nat l) = length l.
Proof. exact b2c_total. Qed.
Print Assumptions C06_b2c_end.

Theorem C06_ascii_fast_path : forall l, is_ascii l = true ->
  (forall i, i <= length l -> c2b l i = i) /\ (forall j, j <= length l -> b2c l j = j).
Proof. exact ascii_identity. Qed.
Print Assumptions C06_ascii_fast_path.

Theorem C06_find_contains_loc_returns_the_lowest_containing_node : forall a b root, wf root = true ->
  let r := descend (size root) a b root in
  (r = root \/ holds a b r) /\ forall c, In c (kids r) -> ~ holds a b c.
Proof. exact find_contains_correct. Qed.
Print Assumptions C06_find_contains_loc_returns_the_lowest_containing_node.

Theorem C06_find_scan_over_descendants_is_the_scan_over_children : forall a b cs lo fuel, ordered lo cs = true -> forallb wf cs = true -> sizes cs < fuel ->
  scan fuel a b cs = lscan a b cs.
Proof. exact scan_is_lscan. Qed.
Print Assumptions C06_find_scan_over_descendants_is_the_scan_over_children.

Theorem C06_find_in_loc_returns_the_first_node_of_the_walk_within_the_span : forall a b fuel todo, sizes todo < fuel ->
  scan_in fuel a b todo = find (fun x => inside x a b) (descs todo).
Proof. exact scan_in_is_first. Qed.
Print Assumptions C06_find_in_loc_returns_the_first_node_of_the_walk_within_the_span.

Theorem C06_find_in_loc_sound_and_complete : forall a b fuel todo, sizes todo < fuel ->
  (forall x, scan_in fuel a b todo = Some x -> within a b x /\ In x (descs todo)) /\
  (scan_in fuel a b todo = None -> forall x, In x (descs todo) -> ~ within a b x).
Proof. intros a b fuel todo Hf. split; [intros x; apply find_in_sound; exact Hf|apply find_in_complete; exact Hf]. Qed.
Print Assumptions C06_find_in_loc_sound_and_complete.

Theorem C06_find_contains_loc_top_returns_the_first_exact_node_on_the_descent : forall a b fuel self,
  descend_m MTop fuel a b self = first_or (fun x => exact x a b) (path fuel a b self) (last (path fuel a b self) self).
Proof. exact descend_top. Qed.
Print Assumptions C06_find_contains_loc_top_returns_the_first_exact_node_on_the_descent.

Theorem C06_find_contains_loc_strict_stops_above_the_first_exact_node : forall a b fuel self,
  descend_m MStrict fuel a b self = before_first (fun x => exact x a b) (path fuel a b self) self.
Proof. exact descend_strict. Qed.
Print Assumptions C06_find_contains_loc_strict_stops_above_the_first_exact_node.

Theorem C06_find_contains_loc_default_is_the_end_of_the_descent : forall a b fuel self,
  descend_m MExact fuel a b self = descend fuel a b self /\ descend fuel a b self = last (path fuel a b self) self.
Proof. intros. split; [apply descend_exact_mode|apply descend_last]. Qed.
Print Assumptions C06_find_contains_loc_default_is_the_end_of_the_descent.

Theorem C06_find_descent_is_a_chain_of_children_holding_the_span : forall a b fuel self, size self <= fuel -> wf self = true ->
  chain a b self (path fuel a b self).
Proof. exact path_is_chain. Qed.
Print Assumptions C06_find_descent_is_a_chain_of_children_holding_the_span.

(* "aé€😀b": widths 1,2,3,4,1 *)
Example C06_nonvacuous :
  let l := [97; 233; 8364; 128512; 98]%N in
  c2b_array l = [0; 1; 3; 6; 10; 11] /\ b2c_array l = [0; 1; 1; 2; 2; 2; 3; 3; 3; 3; 4; 5] /\ is_ascii l = false.
Proof. vm_compute. repeat split; reflexivity. Qed.
