(* C04 - Formatting and comments outside the edited element are preserved byte for byte.

   FULL STATEMENT: a structured edit changes source text only inside the extent of the element, its adjoining
   separator, its own grouping parentheses, the comment lines the trivia option selects and (for statements) blank lines
   next to it; every other non-blank line is byte-identical and in the same order; no comment is lost, duplicated or
   moved unless selected by the trivia option.

   PROVED HERE:
     L  every text change is ONE local splice (K1): lines above are kept, lines below are kept in order, the start line
        keeps its prefix and the end line its suffix - so whatever region a handler passes to _put_src, nothing outside
        that region changes;
     T  the hand transcription of leading_trivia (the function that decides which comment/blank lines above an element
        belong to it): the reported region lies between the previous code (bound) and the element, consists ONLY of
        blank / continuation / comment lines (comment lines for 'block'; blank or lone-continuation lines for the space
        part), is empty for comments='none', and contains at most n blank lines for space=n.
   NOT PROVED: trailing_trivia, the statement/separator handlers' choice of region, indentation of moved blocks:
   decided by the token-stream oracle over random edit sequences in py/props/C04.py (partial). *)
From Coq Require Import List NArith Bool Arith.
From PF Require Import kernel.PyBase kernel.Text models.Trivia proofs.TextProofs proofs.TriviaProofs models.TriviaParams proofs.TriviaParamsProofs.
Import ListNotations.

Theorem C04_edit_is_one_local_splice : forall L P ln col eln ecol,
  valid_loc L ln col eln ecol -> put_lines_of P <> [] ->
  put_src L P ln col eln ecol = put_spec L (put_lines_of P) ln col eln ecol.
Proof. exact put_src_is_spec. Qed.
Print Assumptions C04_edit_is_one_local_splice.

Theorem C04_lines_above_identical : forall L put ln col eln ecol i d, ln <= length L -> i < ln ->
  nth i (put_spec L put ln col eln ecol) d = nth i L d.
Proof. exact put_spec_before. Qed.
Print Assumptions C04_lines_above_identical.

Theorem C04_lines_below_identical_in_order : forall L put ln col eln ecol k d, ln <= eln < length L -> eln < k -> put <> [] ->
  nth (k - (eln - ln) + (length put - 1)) (put_spec L put ln col eln ecol) d = nth k L d.
Proof. exact put_spec_after. Qed.
Print Assumptions C04_lines_below_identical_in_order.

Theorem C04_start_line_prefix_kept : forall L put ln col eln ecol, ln <= length L -> col <= length (lineAt L ln) ->
  firstn col (nth ln (put_spec L put ln col eln ecol) []) = firstn col (lineAt L ln).
Proof. exact put_spec_start_prefix. Qed.
Print Assumptions C04_start_line_prefix_kept.

Theorem C04_end_line_suffix_kept : forall L put ln col eln ecol, ln <= length L ->
  nth (ln + (length put - 1)) (put_spec L put ln col eln ecol) [] = new_prefix L put ln col ++ skipn ecol (lineAt L eln).
Proof. exact put_spec_end_line. Qed.
Print Assumptions C04_end_line_suffix_kept.

Theorem C04_leading_trivia_bounded : forall L bl bc ln col cm sp, top_of bl bc <= ln ->
  let r := leading_trivia L bl bc ln col cm sp in
  res_text_ln r <= ln /\
  (res_text r <> (ln, col) -> top_of bl bc <= res_text_ln r) /\
  (forall s, res_space r = Some s -> top_of bl bc <= s /\ s <= res_text_ln r).
Proof. exact leading_bounds. Qed.
Print Assumptions C04_leading_trivia_bounded.

Theorem C04_no_code_in_leading_trivia : forall L bl bc ln col cm sp, top_of bl bc <= ln ->
  let r := leading_trivia L bl bc ln col cm sp in
  (res_text r <> (ln, col) -> forall i, res_text_ln r <= i < ln ->
     trivia_line (lineN L i) = true /\ (cm = CBlock -> comment_start (lineN L i) = true)) /\
  (forall s, res_space r = Some s -> forall i, s <= i < res_text_ln r -> trivia_line (lineN L i) = true).
Proof. exact leading_trivia_only. Qed.
Print Assumptions C04_no_code_in_leading_trivia.

Theorem C04_comments_none_selects_nothing : forall L bl bc ln col sp, res_text (leading_trivia L bl bc ln col CNone sp) = (ln, col).
Proof. exact none_keeps_text. Qed.
Print Assumptions C04_comments_none_selects_nothing.

Theorem C04_space_limit : forall L bl bc ln col cm n s, cm <> CAll -> top_of bl bc <= ln ->
  res_space (leading_trivia L bl bc ln col cm (SInt n)) = Some s -> res_text_ln (leading_trivia L bl bc ln col cm (SInt n)) - s <= n.
Proof. exact leading_space_limit. Qed.
Print Assumptions C04_space_limit.

(* "x = 1" / blank / "# c1" / "# c2" / "    y = 2": block comments with up to one blank line *)
Example C04_nonvacuous :
  let L := [[120; 32; 61; 32; 49]; []; [35; 32; 99; 49]; [35; 32; 99; 50]; [32; 32; 32; 32; 121]]%N in
  leading_trivia L 0 5 4 4 CBlock (SInt 1) = ((2, 0), Some 1, true) /\
  leading_trivia L 0 5 4 4 CNone SFalse = ((4, 4), Some 4, true).
Proof. vm_compute. split; reflexivity. Qed.

(* ---- how the `trivia` option is read (models/TriviaParams.v == fst_trivia.get_trivia_params, exhaustive correspondence) ---- *)
Theorem C04_option_shorthand_is_default_kind : forall dflt neg x, side dflt neg (PStr None x) = side dflt neg (PStr (Some dflt) x).
Proof. exact shorthand_is_default_kind. Qed.
Print Assumptions C04_option_shorthand_is_default_kind.

Theorem C04_option_sides_independent : forall neg l t t' l',
  fst (params neg (OPair l t)) = fst (params neg (OPair l t')) /\ snd (params neg (OPair l t)) = snd (params neg (OPair l' t)).
Proof. exact sides_independent. Qed.
Print Assumptions C04_option_sides_independent.

Theorem C04_option_trailing_default_selects_line_only : forall neg o,
  (exists p, o = OOne p) \/ (exists l x, o = OPair l (PStr None x)) \/ (exists l, o = OPair l (PBool true)) \/ (exists x, o = OSingle (PStr None x)) ->
  fst (fst (snd (params neg o))) = CKind KLine.
Proof. exact trailing_default_selects_line_only. Qed.
Print Assumptions C04_option_trailing_default_selects_line_only.

Theorem C04_option_kind_independent_of_suffix : forall dflt neg k x y,
  fst (fst (side dflt neg (PStr k x))) = fst (fst (side dflt neg (PStr k y))).
Proof. exact kind_independent_of_suffix. Qed.
Print Assumptions C04_option_kind_independent_of_suffix.
