(* C15 - Walking stays sound while the tree is being modified.

   FULL STATEMENT: while iterating walk() (or search/sub built on it), replacing or removing the node just yielded, any of
   its ancestors, or siblings before or after it never makes the iteration raise, loop forever, yield a node that is no
   longer part of the tree, or yield the same node twice on entry. After replacing the current node its new children are
   walked next, after removing it the walk continues with what follows, send(False)/send(True) are honoured, and the
   final tree satisfies C01.

   PROVED HERE (models/WalkMut.v: the on='enter' loop over a heap of AST objects with their FST handles; the caller is an
   adversary supplying ANY well-formed heap after each yield subject only to `legal`: existing objects keep their
   creation-time parent and their handle, new objects get fresh ids - which is what replace/remove of any nodes whatsoever
   do - together with the send decision; tied to fst_traverse.walk by correspondence on observed heaps, on which the
   hypotheses WF / legal are evaluated as well):
   - for every number of steps and every such adversary, no FST handle is yielded twice;
   - a handle is yielded only for an AST object that is attached (ast.f is not None) at that moment; a detached object
     is dropped without a yield and without consulting the caller; an attached object that fails the `all` filter is not
     yielded either but its children are still scheduled;
   - after the yield exactly the children of the handle's THEN-current AST are scheduled, in front of what was already
     scheduled: the replacement's children after a replace, nothing after a remove or send(False).
   - (models/WalkLeave.v: the on='leave' and on='both' loops on a tree that is NOT modified, with the caller's send()
     decisions; tied to the real generator by correspondence) on='leave' yields the bottom-up order and on='both' brackets
     every node; send(True) when a node is left walks its children again, then the node, then what was queued behind it;
     send(False) on entry skips the children but not the leave.
   - (models/WalkShallow.v, recurse=False with on='both') send(True) at the entry yield of a child makes its events exactly
     its bracket - entered once, the whole sub-tree, left once - and the walk goes on behind it; without a send() every child is
     entered and left and nothing below it is walked; items that stem from full walks run as the full walk of WalkLeave.v does.
   NOT PROVED: termination (holds for finitely many mutations; the oracle bounds the steps), the on='leave'/'both'
   variants UNDER MUTATION (oracle only), scope walks, search/sub consumers, that replace/remove produce legal well-formed heaps (evaluated on every
   observed heap instead), C01 of the final tree. Decided by py/props/C15.py (partial). *)
From Coq Require Import List Bool Arith.
From PF Require Import models.WalkMut proofs.WalkMutProofs models.WalkLeave proofs.WalkLeaveProofs models.WalkShallow proofs.WalkShallowProofs.
Import ListNotations.

Theorem C15_no_node_yielded_twice : forall fuel h root advs,
  WF h -> root < next h -> parent h root = None -> legal_chain h advs ->
  NoDup (out (snd (run fuel h advs (start h root)))).
Proof. exact no_handle_yielded_twice. Qed.
Print Assumptions C15_no_node_yielded_twice.

Theorem C15_yield_only_attached_then_current_children : forall h h' d s a st,
  stack s = a :: st ->
  let '(h2, s2, used) := iter h (h', d) s in
  (used = true -> alive h a = true /\ okf h a = true /\ out s2 = handle h a :: out s /\
                  stack s2 = (match (if d then cur h' (handle h a) else None) with Some c => kids h' c | None => [] end) ++ st) /\
  (used = false -> out s2 = out s /\ h2 = h /\
                   ((alive h a = false /\ stack s2 = st) \/ (alive h a = true /\ okf h a = false /\ stack s2 = kids h a ++ st))).
Proof. exact iter_yield_spec. Qed.
Print Assumptions C15_yield_only_attached_then_current_children.

Theorem C15_invariant_preserved_by_any_legal_mutation : forall h h' d s,
  WF h -> Inv h s -> WF h' -> legal h h' ->
  let '(h2, s2, _) := iter h (h', d) s in Inv h2 s2 /\ WF h2 /\ legal h h2.
Proof. exact iter_inv. Qed.
Print Assumptions C15_invariant_preserved_by_any_legal_mutation.

(* ---- on='leave' / on='both' and send() on an unmodified tree (models/WalkLeave.v) ---- *)
Theorem C15_leave_is_bottom_up : forall t ds f, quiet (size t) ds ->
  lrun (lsteps t + f) [E t] ds [] = Some (post t, skipn (size t) ds).
Proof. exact leave_is_bottom_up. Qed.
Print Assumptions C15_leave_is_bottom_up.

Theorem C15_leave_send_true_walks_children_again_then_node : forall t st ds out f, quiet (size t) ds ->
  lrun (S (lstepss (children t) + S f)) (L t :: st) (Some true :: ds) out =
  lrun f st (skipn (size t) ds) (out ++ [label t] ++ post t).
Proof. exact leave_resend. Qed.
Print Assumptions C15_leave_send_true_walks_children_again_then_node.

Theorem C15_both_brackets : forall t ds f, silent (2 * size t) ds ->
  brun (bsteps t + f) [E t] ds [] = Some (bracket t, skipn (2 * size t) ds).
Proof. exact both_brackets. Qed.
Print Assumptions C15_both_brackets.

Theorem C15_both_send_false_skips_children_not_the_leave : forall t st ds out f,
  brun (S (S f)) (E t :: st) (Some false :: None :: ds) out = brun f st ds (out ++ [(label t, false); (label t, true)]).
Proof. exact both_skip. Qed.
Print Assumptions C15_both_send_false_skips_children_not_the_leave.

Theorem C15_both_send_true_on_leaving_enters_again : forall t st ds out f, silent (2 * size t) ds ->
  brun (S (bsteps t + f)) (L t :: st) (Some true :: ds) out = brun f st (skipn (2 * size t) ds) (out ++ (label t, true) :: bracket t).
Proof. exact both_resend. Qed.
Print Assumptions C15_both_send_true_on_leaving_enters_again.

(* non-vacuity: root 0 with children 1, 2; while 1 is yielded the caller replaces 2 by a new object 3 (same handle) and
   1 by 4 with a new child 5: 2 is skipped, 5 is walked next, nothing is yielded twice *)
Theorem C15_shallow_both_send_true_at_entry_gives_the_bracket_of_the_node : forall t st ds out f, silent (2 * sizes (children t) + 1) ds ->
  srun (S (bstepss (children t) + S f)) (SN t :: map SI st) (Some true :: ds) out =
  srun f (map SI st) (skipn (2 * sizes (children t) + 1) ds) (out ++ bracket t).
Proof. exact shallow_entry_send. Qed.
Print Assumptions C15_shallow_both_send_true_at_entry_gives_the_bracket_of_the_node.

Theorem C15_shallow_both_without_send_enters_and_leaves_each_child : forall cs st ds out f, silent (2 * length cs) ds ->
  srun (2 * length cs + f) (map SN cs ++ map SI st) ds out =
  srun f (map SI st) (skipn (2 * length cs) ds) (out ++ flat_map (fun c => [(label c, false); (label c, true)]) cs).
Proof. exact shallow_quiet. Qed.
Print Assumptions C15_shallow_both_without_send_enters_and_leaves_each_child.

Theorem C15_shallow_items_of_full_walks_run_as_the_full_walk : forall f stk ds out, srun f (map SI stk) ds out = brun f stk ds out.
Proof. exact srun_full. Qed.
Print Assumptions C15_shallow_items_of_full_walks_run_as_the_full_walk.

Example C15_example :
  let h0 := mkheap 3 [(0, [1; 2])] [(1, Some 0); (2, Some 0)] [(0, 0); (1, 1); (2, 2)] [0; 1; 2] [(0, Some 0); (1, Some 1); (2, Some 2)] [] in
  let h1 := mkheap 6 [(0, [4; 3]); (4, [5])] [(1, Some 0); (2, Some 0); (3, Some 0); (4, Some 0); (5, Some 4)]
                   [(0, 0); (1, 1); (2, 2); (3, 2); (4, 1); (5, 5)] [0; 3; 4; 5] [(0, Some 0); (1, Some 4); (2, Some 3); (5, Some 5)] [] in
  wf_check h0 && chain_check h0 [(h1, true)] = true /\
  rev (out (snd (run 10 h0 [(h1, true)] (start h0 0)))) = [1; 5].
Proof. split; reflexivity. Qed.
