(* C03 - Edits follow Python container semantics and change nothing else in the tree.

   FULL STATEMENT (properties.jsonl): putting a slice into a list-like field leaves that field equal to
   old[:start] + new + old[stop:]; putting or deleting one element changes exactly that position; indices, negative
   indices, 'end' and slice bounds behave like a Python list (virtual fields included); every other node is unchanged
   and keeps its relative order; the result depends only on structure, not on layout or entry point; a request whose
   result is valid Python is carried out.

   PROVED HERE (for all lengths, indices, element lists, view histories):
     - the TRANSLATED index normalisation (gen/Fixups.v, regenerated from fst_misc.py on every run) is Python's
       list index / slice-bound rule;
     - the abstract slice put is old[:s] + new + old[e:], touches nothing outside [s,e) and keeps relative order;
     - every FSTView operation (hand model models/View.v of view.py over the translated fixups) is the corresponding
       Python list operation on the window and leaves the field outside the window untouched, for any healing history.
     - (models/ArgMarkers.v) the `/` and `*` markers re-derived for a parameter list from the categories of its elements
       (whatever list a put into arguments._all produced, provided the categories never go down and *vararg / **kwarg occur
       once): Python's reading of the rendered tokens gives back every parameter in the category it has in the list.
   NOT PROVED (decided by correspondence / oracle cross-check in py/props/C03.py): that the per-node-type handlers
   realise put_slice_spec on the real AST, layout independence and entry-point agreement of the implementation. *)
From Coq Require Import ZArith List Bool Lia.
From PF Require Import kernel.PyBase kernel.Container gen.Fixups models.View
  proofs.FixupsProofs proofs.ContainerProofs proofs.ViewProofs models.Arglikes proofs.ArglikesProofs models.ArgMarkers proofs.ArgMarkersProofs models.ViewName proofs.ViewNameProofs.
Import ListNotations.

Theorem C03_index_is_python_index : forall len i, (0 <= len)%Z ->
  fixup_one_index len (Ix i) 0 = py_index len i.
Proof. exact fix_one_py. Qed.
Print Assumptions C03_index_is_python_index.

Theorem C03_index_end_rejected : forall len d, (0 <= len)%Z -> (0 <= d)%Z -> fixup_one_index len End d = None.
Proof. exact fix_one_end. Qed.
Print Assumptions C03_index_end_rejected.

Theorem C03_index_start_at : forall len i d k, (0 <= len)%Z -> (0 <= d)%Z ->
  fixup_one_index len (Ix i) d = Some k <->
  ((0 <= i /\ k = i + d /\ k < len) \/ (i < 0 /\ k = i + len /\ d <= k))%Z.
Proof. exact fix_one_start_at. Qed.
Print Assumptions C03_index_start_at.

Theorem C03_slice_is_python_slice : forall len a b, (0 <= len)%Z ->
  fixup_slice_indices len a b 0 =
    let s := py_clamp len (idx_val len a) in
    let e := py_clamp len (idx_val len b) in
    if (e <? s)%Z then None else Some (s, e).
Proof. exact fix_slice_py. Qed.
Print Assumptions C03_slice_is_python_slice.

Theorem C03_slice_start_at_range : forall len a b d s e, (0 <= d <= len)%Z ->
  fixup_slice_indices len a b d = Some (s, e) -> (d <= s <= e /\ e <= len)%Z.
Proof. exact fix_slice_start_at_range. Qed.
Print Assumptions C03_slice_start_at_range.

Theorem C03_slice_start_at_shift : forall len a b d, (0 <= d)%Z -> (0 <= a <= b)%Z -> (b + d <= len)%Z ->
  fixup_slice_indices len (Ix a) (Ix b) d = Some (a + d, b + d)%Z.
Proof. exact fix_slice_start_at_shift. Qed.
Print Assumptions C03_slice_start_at_shift.

(* a lower bound d (docstring) makes the field behave exactly like the virtual Python list real[d:] *)
Theorem C03_slice_start_at_virtual : forall len a b d, (0 <= d <= len)%Z ->
  fixup_slice_indices len a b d = option_map (shift2 d) (fixup_slice_indices (len - d) a b 0).
Proof. exact fix_slice_start_at_virtual. Qed.
Print Assumptions C03_slice_start_at_virtual.

Theorem C03_index_start_at_virtual : forall len i d, (0 <= d <= len)%Z ->
  fixup_one_index len (Ix i) d = option_map (fun k => k + d)%Z (fixup_one_index (len - d) (Ix i) 0).
Proof. exact fix_one_start_at_virtual. Qed.
Print Assumptions C03_index_start_at_virtual.

(* nothing else changes, relative order kept *)
Theorem C03_put_slice_before : forall (A : Type) (old : list A) s e new i, i < s -> s <= length old ->
  nth_error (put_slice_spec old s e new) i = nth_error old i.
Proof. exact @put_slice_nth_before. Qed.
Print Assumptions C03_put_slice_before.

Theorem C03_put_slice_mid : forall (A : Type) (old : list A) s e new i, s <= length old -> i < length new ->
  nth_error (put_slice_spec old s e new) (s + i) = nth_error new i.
Proof. exact @put_slice_nth_mid. Qed.
Print Assumptions C03_put_slice_mid.

Theorem C03_put_slice_after : forall (A : Type) (old : list A) s e new i, s <= length old ->
  nth_error (put_slice_spec old s e new) (s + length new + i) = nth_error old (e + i).
Proof. exact @put_slice_nth_after. Qed.
Print Assumptions C03_put_slice_after.

Theorem C03_put_slice_length : forall (A : Type) (old : list A) s e new, s <= e <= length old ->
  length (put_slice_spec old s e new) = length old - (e - s) + length new.
Proof. exact @put_slice_length. Qed.
Print Assumptions C03_put_slice_length.

(* views *)
Theorem C03_view_setitem_slice : forall (A : Type) (s : vst A) a b new s',
  setitem_slice s a b new = Some s' ->
  let n := Z.of_nat (length (vitems s)) in
  (py_clamp n a <= py_clamp n (idx_val n b))%Z /\
  Same_outside s s' (py_setslice (vitems s) a (idx_val n b) new).
Proof. exact @setitem_slice_window. Qed.
Print Assumptions C03_view_setitem_slice.

Theorem C03_view_setitem_slice_refusal : forall (A : Type) (s : vst A) a b new,
  setitem_slice s a b new = None ->
  let n := Z.of_nat (length (vitems s)) in (py_clamp n (idx_val n b) < py_clamp n a)%Z.
Proof. exact @setitem_slice_refuses. Qed.
Print Assumptions C03_view_setitem_slice_refusal.

Theorem C03_view_delitem_slice : forall (A : Type) (s : vst A) a b s',
  delitem_slice s a b = Some s' ->
  let n := Z.of_nat (length (vitems s)) in
  Same_outside s s' (py_setslice (vitems s) a (idx_val n b) []).
Proof. exact @delitem_slice_window. Qed.
Print Assumptions C03_view_delitem_slice.

Theorem C03_view_setitem_one : forall (A : Type) (s : vst A) i x s',
  setitem_one s i x = Some s' ->
  exists k, py_index (Z.of_nat (length (vitems s))) i = Some (Z.of_nat k) /\
            Same_outside s s' (replace_spec (vitems s) k x).
Proof. exact @setitem_one_window. Qed.
Print Assumptions C03_view_setitem_one.

Theorem C03_view_delitem_one : forall (A : Type) (s : vst A) i s',
  delitem_one s i = Some s' ->
  exists k, py_index (Z.of_nat (length (vitems s))) i = Some (Z.of_nat k) /\
            Same_outside s s' (remove_spec (vitems s) k).
Proof. exact @delitem_one_window. Qed.
Print Assumptions C03_view_delitem_one.

Theorem C03_view_insert : forall (A : Type) (s : vst A) i new,
  let n := Z.of_nat (length (vitems s)) in
  let k := Z.to_nat (py_clamp n (idx_val n i)) in
  Same_outside s (vinsert s i new) (put_slice_spec (vitems s) k k new).
Proof. exact @vinsert_window. Qed.
Print Assumptions C03_view_insert.

Theorem C03_view_append : forall (A : Type) (s : vst A) x, Same_outside s (vappend s x) (vitems s ++ [x]).
Proof. exact @vappend_window. Qed.
Print Assumptions C03_view_append.

Theorem C03_view_extend : forall (A : Type) (s : vst A) xs, Same_outside s (vextend s xs) (vitems s ++ xs).
Proof. exact @vextend_window. Qed.
Print Assumptions C03_view_extend.

Theorem C03_view_prepend : forall (A : Type) (s : vst A) x, Same_outside s (vprepend s x) (x :: vitems s).
Proof. exact @vprepend_window. Qed.
Print Assumptions C03_view_prepend.

Theorem C03_view_prextend : forall (A : Type) (s : vst A) xs, Same_outside s (vprextend s xs) (xs ++ vitems s).
Proof. exact @vprextend_window. Qed.
Print Assumptions C03_view_prextend.

Theorem C03_view_replace : forall (A : Type) (s : vst A) xs, Same_outside s (vreplace s xs) xs.
Proof. exact @vreplace_window. Qed.
Print Assumptions C03_view_replace.

Theorem C03_view_heals : forall (A : Type) (s : vst A) f,
  let s' := external s f in hstart s' <= hstop s' <= length f /\ hstart s' <= vstart s.
Proof. exact @external_heals. Qed.
Print Assumptions C03_view_heals.

(* ---- two AST lists, one source order: keywords edited through the merged argument list (models/Arglikes.v, correspondence with real calls) ---- *)
Theorem C03_keyword_index_mapping_right_iff_no_argument_behind : forall l i p,
  kw_pos l i = Some p -> (mapped l i = p <-> arg_after l p = false).
Proof. exact mapping_right_iff_no_argument_behind. Qed.
Print Assumptions C03_keyword_index_mapping_right_iff_no_argument_behind.

Theorem C03_keywords_guard_passes_iff_mapping_right : forall l i, (i <= count_k l)%nat ->
  (guard_refuses l i = false <-> kw_pos l i = Some (mapped l i)).
Proof. exact guard_passes_iff_mapping_right. Qed.
Print Assumptions C03_keywords_guard_passes_iff_mapping_right.

Theorem C03_keywords_slice_contiguous_once_admitted : forall l i j, (i <= j <= count_k l)%nat -> guard_refuses l i = false ->
  kw_pos l j = Some (mapped l j).
Proof. exact later_keywords_contiguous. Qed.
Print Assumptions C03_keywords_slice_contiguous_once_admitted.

Theorem C03_args_guard_passes_iff_everything_touched_is_in_front_of_the_keywords : forall l start stop has_code,
  start <= stop <= count_a l -> 0 < count_k l ->
  (args_guard_refuses l start stop has_code = false <->
   stop <= lead_a l /\ (has_code = true -> start = stop -> stop < count_a l -> stop < lead_a l)).
Proof. exact args_guard_passes_iff_in_front_of_keywords. Qed.
Print Assumptions C03_args_guard_passes_iff_everything_touched_is_in_front_of_the_keywords.

Theorem C03_args_in_front_of_the_keywords_have_their_merged_index : forall l i, i < lead_a l -> arg_pos l i = Some i /\ nth_error l i = Some A.
Proof. exact args_in_front_are_merged_prefix. Qed.
Print Assumptions C03_args_in_front_of_the_keywords_have_their_merged_index.

Theorem C03_parameter_markers_make_python_read_every_parameter_in_its_category : forall l, ok 0 l = true -> parse (render 1 l) = Some l.
Proof. exact markers_read_back. Qed.
Print Assumptions C03_parameter_markers_make_python_read_every_parameter_in_its_category.

Theorem C03_parameters_behind_the_positional_only_block_read_back : forall l p, (1 <= p <= 3)%nat -> ok p l = true ->
  parse_tail (Nat.leb 2 p) (render p l) = Some l.
Proof. exact tail_ok. Qed.
Print Assumptions C03_parameters_behind_the_positional_only_block_read_back.

(* non-vacuity: a concrete view with a fixed stop, healed after an external shrink, then edited *)
Example C03_nonvacuous :
  let s := {| fld := [10; 11; 12; 13; 14]%Z; vstart := 1; vstop := Some 4 |} in
  vitems s = [11; 12; 13]%Z /\
  option_map (fun s' => (fld s', vitems s')) (setitem_slice s (-2) End [7; 8; 9]%Z)
    = Some ([10; 11; 7; 8; 9; 14]%Z, [11; 7; 8; 9]%Z) /\
  vitems (external s [1; 2]%Z) = [2]%Z /\
  fixup_slice_indices 5 (Ix (-2)) End 0 = Some (3, 5)%Z /\
  fixup_slice_indices 5 (Ix 4) (Ix 2) 0 = None.
Proof. vm_compute. repeat split; reflexivity. Qed.

(* ---- name indexing of a statement-list view (models/ViewName.v) ---- *)
Theorem C03_name_index_is_relative_to_the_view_and_names_its_first_definition_there : forall names start stop off name r,
  name_index names start stop off name = Some r ->
  r < stop - start /\ nth_error names (start + off + r) = Some (Some name)
  /\ forall j, j < r -> nth_error names (start + off + j) <> Some (Some name).
Proof. exact name_index_sound. Qed.
Print Assumptions C03_name_index_is_relative_to_the_view_and_names_its_first_definition_there.

Theorem C03_name_index_refuses_a_name_no_element_of_the_view_defines : forall names start stop off name,
  name_index names start stop off name = None ->
  forall j, j < stop - start -> nth_error names (start + off + j) <> Some (Some name).
Proof. exact name_index_refuses_outside. Qed.
Print Assumptions C03_name_index_refuses_a_name_no_element_of_the_view_defines.

Theorem C03_name_index_without_the_views_start_is_wrong :
  let names := [None; Some 1; Some 2; Some 3; None] in
  name_index names 2 5 0 2 = Some 0 /\ name_index_not_relative names 2 5 0 2 = Some 2 /\ name_index_not_relative names 2 5 0 3 = Some 3.
Proof. exact not_relative_is_wrong. Qed.
Print Assumptions C03_name_index_without_the_views_start_is_wrong.
