(* C17 - Matching depends only on structure; quantifiers behave like regular expressions.

   FULL STATEMENT: a structural pattern gives the same result and tags on a formatted tree, any re-layout and its pure
   AST; a tree matches the pattern built from its own AST and not one differing in a leaf; a match never depends on
   previous calls; search(p) yields exactly the nodes, in walk order, that match(p) accepts; sequences of quantified
   patterns in list fields accept, reject and capture exactly as the corresponding regular expression (greedy and
   non-greedy, with backtracking and back-references).

   PROVED HERE (models/Match.v: hand transcription of _match__inside_list / _match__inside_list_quantifier and of the
   _leaf_asts pre-filter algebra, tied by correspondence):
     L  for every sequence of element patterns and quantifiers over fixed-length sub-lists (any bounds, greedy or lazy,
        any nesting of quantifiers at list level) and every target sequence: the backtracking matcher accepts exactly
        the regular language of the pattern sequence (match_items_accepts_lang);
     S  the pre-filter never hides a node the pattern matches (MOR/MAND/MNOT/types/node patterns/unknown), hence search
        = walk filtered by match; the un-repaired MNOT rule is refuted by a concrete witness.
   Both defects these statements exposed at design time were repaired in /repo ("fix:" commits, known_findings.json).
   NOT PROVED: capture priority (which parse is reported), quantified sub-lists that themselves contain quantifiers,
   back-references, node/primitive matchers, layout independence: correspondence with `re` and the oracle (partial). *)
From Coq Require Import List Bool Arith.
From PF Require Import models.Match proofs.MatchProofs.
Import ListNotations.

Theorem C17_list_matcher_accepts_the_regular_language : forall items, well_formed items -> forall tgt,
  match_items items false tgt <> None <-> lang items tgt.
Proof. exact match_items_accepts_lang. Qed.
Print Assumptions C17_list_matcher_accepts_the_regular_language.

Theorem C17_prefilter_sound : forall p n, pmatch p n = true -> prefilter p n = true.
Proof. exact prefilter_sound. Qed.
Print Assumptions C17_prefilter_sound.

Theorem C17_search_is_filtered_walk : forall p nodes, search p nodes = filter (pmatch p) nodes.
Proof. exact search_is_filtered_walk. Qed.
Print Assumptions C17_search_is_filtered_walk.

Theorem C17_naive_not_complement_refuted :
  let p := PNode [1] (fun n => Nat.eqb (snd n) 7) in
  let naive_leaf_not := fun k : nat => negb (mem k [1]) in
  pmatch (PNot p) (1, 8) = true /\ naive_leaf_not (nkind (1, 8)) = false.
Proof. exact naive_not_complement_unsound. Qed.
Print Assumptions C17_naive_not_complement_refuted.

(* non-vacuity: (ab)*b on "ab" is rejected, on "abb" accepted; lazy a*? then .* *)
Example C17_nonvacuous :
  let ab_star_b := [IQ 0 None true [ELit 0; ELit 1]; IElem (ELit 1)] in
  well_formed ab_star_b /\
  match_items ab_star_b false [0; 1] = None /\ match_items ab_star_b false [0; 1; 1] = Some [1] /\
  match_items [IQ 0 None false [ELit 0]; IQ 0 None true [EAny]] false [0; 0; 2] = Some [0; 3] /\
  match_items [IQ 0 None true [ELit 0; ELit 1]; IElem (ELit 0); IElem (ELit 1)] false [0; 1; 0; 1] = Some [1].
Proof.
  split; [|repeat split; reflexivity].
  intros mn mx g sub [H|[H|[]]]; [injection H as <- <- <- <-; split; [discriminate|exact I]|discriminate].
Qed.
