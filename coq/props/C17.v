(* C17 - Matching depends only on structure; quantifiers behave like regular expressions.

   FULL STATEMENT: a structural pattern gives the same result and tags on a formatted tree, any re-layout and its pure
   AST; a tree matches the pattern built from its own AST and not one differing in a leaf; a match never depends on
   previous calls; search(p) yields exactly the nodes, in walk order, that match(p) accepts; sequences of quantified
   patterns in list fields accept, reject and capture exactly as the corresponding regular expression (greedy and
   non-greedy, with backtracking and back-references).

   PROVED HERE (models/Match.v: hand transcription of _match__inside_list / _match__inside_list_quantifier and of the
   _leaf_asts pre-filter algebra, tied by correspondence):
     L  for every sequence of element patterns and quantifiers over fixed-length sub-lists (any bounds, greedy or lazy,
        any nesting of quantifiers at list level) and every target sequence: the backtracking matcher accepts exactly
        the regular language of the pattern sequence (match_items_accepts_lang);
     S  the pre-filter never hides a node the pattern matches (MOR/MAND/MNOT/types/node patterns/unknown), hence search
        = walk filtered by match; the un-repaired MNOT rule is refuted by a concrete witness.
   Both defects these statements exposed at design time were repaired in /repo ("fix:" commits, known_findings.json).
     N  (models/MatchNested.v: quantified sub-lists that contain quantifiers, to any depth; one repetition is the FIRST
        match of the sub-list and is then kept or given back whole - an atomic group, as docs/d11_match.py says: "the
        backtracking from those quantifiers doesn't mix with the parent quantifier") whatever the matcher accepts is in
        the regular language of the nested pattern (nmatch_sound, also for partial matches); the converse is REFUTED for
        nested quantifiers with the witness (?:b.?b)?b on bbb (nmatch_complete_refuted) - the "corresponding regular
        expression" of a nested repetition is the one with an atomic group, which is what the correspondence compares
        with; on flat patterns the nested matcher accepts exactly the regular language and agrees with the flat model
        (nmatch_flat_exact, nmatch_flat_agrees), through a completeness lemma for any deterministic repetition.
     T  (models/TreeMatch.v: a plain tree - an AST - as pattern, node classes / fields in order / lists element-wise /
        primitive leaves by type and value; a pattern FIELD given as `...` is the wildcard, an Ellipsis constant a literal)
        every tree matches the pattern built from itself; that pattern matches ONLY this tree, so a copy that differs in one
        leaf (or anywhere) matches in neither direction - None, 0, False, '', b'', 0.0 and ... are seven different leaves;
        the pattern with a wildcard at a path matches every tree that differs only at that path.
   NOT PROVED: capture priority (which parse is reported), back-references, the M-pattern node matchers, layout
   independence: correspondence with `re` and the oracle (partial). *)
From Coq Require Import List Bool Arith ZArith NArith.
From PF Require Import models.Match proofs.MatchProofs models.MatchNested proofs.MatchNestedProofs models.TreeMatch proofs.TreeMatchProofs.
Import ListNotations.

Theorem C17_list_matcher_accepts_the_regular_language : forall items, well_formed items -> forall tgt,
  match_items items false tgt <> None <-> lang items tgt.
Proof. exact match_items_accepts_lang. Qed.
Print Assumptions C17_list_matcher_accepts_the_regular_language.

Theorem C17_prefilter_sound : forall p n, pmatch p n = true -> prefilter p n = true.
Proof. exact prefilter_sound. Qed.
Print Assumptions C17_prefilter_sound.

Theorem C17_search_is_filtered_walk : forall p nodes, search p nodes = filter (pmatch p) nodes.
Proof. exact search_is_filtered_walk. Qed.
Print Assumptions C17_search_is_filtered_walk.

Theorem C17_naive_not_complement_refuted :
  let p := PNode [1] (fun n => Nat.eqb (snd n) 7) in
  let naive_leaf_not := fun k : nat => negb (mem k [1]) in
  pmatch (PNot p) (1, 8) = true /\ naive_leaf_not (nkind (1, 8)) = false.
Proof. exact naive_not_complement_unsound. Qed.
Print Assumptions C17_naive_not_complement_refuted.

Theorem C17_nested_matcher_sound : forall items tgt r,
  wf_items items = true -> nmatch items false tgt = Some r -> slang items tgt.
Proof. exact nmatch_sound. Qed.
Print Assumptions C17_nested_matcher_sound.

Theorem C17_nested_repetition_sound : forall items tgt r,
  wf_items items = true -> nmatch items true tgt = Some r -> exists a, tgt = a ++ snd r /\ slang items a.
Proof. exact nmatch_partial_sound. Qed.
Print Assumptions C17_nested_repetition_sound.

Theorem C17_nested_completeness_refuted :
  wf_items atomic_witness = true /\ slang atomic_witness [1; 1; 1] /\ nmatch atomic_witness false [1; 1; 1] = None.
Proof. exact nmatch_complete_refuted. Qed.
Print Assumptions C17_nested_completeness_refuted.

Theorem C17_nested_matcher_exact_on_flat_patterns : forall items, well_formed items -> forall tgt,
  nmatch (map embed_item items) false tgt <> None <-> lang items tgt.
Proof. exact nmatch_flat_exact. Qed.
Print Assumptions C17_nested_matcher_exact_on_flat_patterns.

Theorem C17_nested_and_flat_models_agree : forall items, well_formed items -> forall tgt,
  nmatch (map embed_item items) false tgt <> None <-> match_items items false tgt <> None.
Proof. exact nmatch_flat_agrees. Qed.
Print Assumptions C17_nested_and_flat_models_agree.

(* non-vacuity of N: (?:a(?:b)*?){1,2}. on "abab" - each repetition takes a lazily extended "a", "ab": accepted with repetitions of length 1... *)
Example C17_nested_nonvacuous :
  let p := [NQ 1 (Some 2) true [NElem (ELit 0); NQ 0 None false [NElem (ELit 1)]]; NElem EAny] in
  wf_items p = true /\ nmatch p false [0; 0; 1] = Some ([[1; 1]], []) /\ nmatch p false [0; 1; 1] = None /\
  nmatch p false [0; 1] = Some ([[1]], []).
Proof. repeat split; reflexivity. Qed.

(* non-vacuity: (ab)*b on "ab" is rejected, on "abb" accepted; lazy a*? then .* *)
Example C17_nonvacuous :
  let ab_star_b := [IQ 0 None true [ELit 0; ELit 1]; IElem (ELit 1)] in
  well_formed ab_star_b /\
  match_items ab_star_b false [0; 1] = None /\ match_items ab_star_b false [0; 1; 1] = Some [1] /\
  match_items [IQ 0 None false [ELit 0]; IQ 0 None true [EAny]] false [0; 0; 2] = Some [0; 3] /\
  match_items [IQ 0 None true [ELit 0; ELit 1]; IElem (ELit 0); IElem (ELit 1)] false [0; 1; 0; 1] = Some [1].
Proof.
  split; [|repeat split; reflexivity].
  intros mn mx g sub [H|[H|[]]]; [injection H as <- <- <- <-; split; [discriminate|exact I]|discriminate].
Qed.

(* ---- a plain tree as pattern (models/TreeMatch.v) ---- *)
Theorem C17_every_tree_matches_the_pattern_built_from_itself : forall t, tmatch (of_tree t) t = true.
Proof. exact tmatch_refl. Qed.
Print Assumptions C17_every_tree_matches_the_pattern_built_from_itself.

Theorem C17_the_pattern_built_from_a_tree_matches_only_that_tree : forall p t, tmatch (of_tree p) t = true <-> p = t.
Proof. exact tmatch_is_equality. Qed.
Print Assumptions C17_the_pattern_built_from_a_tree_matches_only_that_tree.

Theorem C17_a_tree_that_differs_in_one_place_does_not_match : forall t path new, put_at path new t <> t ->
  tmatch (of_tree (put_at path new t)) t = false /\ tmatch (of_tree t) (put_at path new t) = false.
Proof. exact differs_somewhere_no_match. Qed.
Print Assumptions C17_a_tree_that_differs_in_one_place_does_not_match.

Theorem C17_a_wildcard_accepts_whatever_stands_in_its_place : forall path t new,
  tmatch (any_at path (of_tree t)) (put_at path new t) = true.
Proof. exact wildcard_at_path. Qed.
Print Assumptions C17_a_wildcard_accepts_whatever_stands_in_its_place.

(* non-vacuity: None against None / 0 / False / '' / b'' / 0.0 / ... in the same slot, and a wildcard there *)
Example C17_falsy_leaves_are_different_leaves :
  map (fun t => tmatch (of_tree (Node 5 [Leaf VNone])) (Node 5 [t])) [Leaf VNone; Leaf (VInt 0); Leaf (VBool false); Leaf (VStr []); Leaf (VBytes []); Leaf (VNum [48%N; 46%N; 48%N]); Leaf VDots]
  = [true; false; false; false; false; false; false]
  /\ map (fun t => tmatch (TNode 5 [TAny]) (Node 5 [t])) [Leaf VNone; Leaf (VInt 0); Leaf VDots] = [true; true; true].
Proof. exact falsy_leaves_differ. Qed.
