(* C10 - Raw source edits are equivalent to re-parsing the whole file, or change nothing.

   FULL STATEMENT: put_src(..., action='reparse'), raw-mode puts and reparse() either raise and leave source and tree
   exactly as they were, or leave the source equal to the requested text splice and the tree equal, in structure and in
   all positions, to a from-scratch parse of that new source. They succeed exactly when the new whole source is valid for
   the root's kind, and the root object keeps its identity.

   PROVED HERE
   (atomicity, gen/RawEffects.v REGENERATED from fst_raw.py on every run + models/Atomic.v): every control-flow path of
   _reparse_raw (with _reparse_raw_stmtlike and _reparse_raw_base inlined, try/except edges and the boolean `done` flag
   followed) is `ordered`: no atom that may raise (parsers, explicit raise, assert) comes after an atom that mutates the
   live tree or its source. For ordered paths, under ANY pattern of failures a run that raises leaves the live state
   version untouched, and a run that does not raise has performed all its mutations; an unordered path always has a
   failure pattern that leaves a changed state behind (so the check is exact, not merely sufficient). The statement-level
   attempt alone is ordered too, which is what the whole-source fallback added by the fix relies on.
   (splice) the five-branch line surgery of _put_src equals the one algebraic text splice (C11's put_src_is_spec), so a
   successful edit leaves exactly the requested splice.
   (scaffold, models/Scaffold.v) the copy of the source in which a column-0 statement is reparsed alone - the lines above it
   blanked - receives an edit that starts at or below the statement's first line exactly as the real source does (the copy after
   the edit IS the blanked new source); an edit above that line is lost in the copy, which is why the incremental path must
   refuse it (the guard `(ln, col) < (pln, pcol) -> _ReparseAll` of fix bc997e5; every recorded call is checked against it).
   NOT PROVED: that the statement-level reparse in its synthetic wrapper yields the tree a whole-file parse yields (needs
   the grammar), that FST._put_src / _set_ast themselves do not raise half way, root identity. Decided by the
   differential oracle of py/props/C10.py (partial). *)
From Coq Require Import List Bool Arith.
From PF Require Import kernel.PyBase kernel.Text models.Atomic models.Scaffold gen.RawEffects proofs.AtomicProofs proofs.TextProofs
  proofs.ScaffoldProofs.
Import ListNotations.

Theorem C10_raw_reparse_paths_are_ordered :
  forallb ordered raw_paths = true /\ forallb ordered stmtlike_paths = true.
Proof. split; vm_compute; reflexivity. Qed.
Print Assumptions C10_raw_reparse_paths_are_ordered.

Theorem C10_ordered_is_atomic : forall p, ordered p = true ->
  forall fails st, snd (run p fails st) = true -> fst (run p fails st) = st.
Proof. exact ordered_atomic. Qed.
Print Assumptions C10_ordered_is_atomic.

Theorem C10_raw_reparse_raises_or_completes : forall p, In p raw_paths ->
  forall fails st,
    (snd (run p fails st) = true -> fst (run p fails st) = st) /\
    (snd (run p fails st) = false -> fst (run p fails st) = st + count_mut p).
Proof.
  intros p Hin fails st. split.
  - apply ordered_atomic.
    destruct C10_raw_reparse_paths_are_ordered as [H _]. rewrite forallb_forall in H. apply H. exact Hin.
  - apply completed_run_does_everything.
Qed.
Print Assumptions C10_raw_reparse_raises_or_completes.

Theorem C10_unordered_would_not_be_atomic : forall p, ordered p = false ->
  exists fails st, snd (run p fails st) = true /\ fst (run p fails st) <> st.
Proof. exact unordered_not_atomic. Qed.
Print Assumptions C10_unordered_would_not_be_atomic.

Theorem C10_success_leaves_the_splice : forall L P ln col eln ecol,
  valid_loc L ln col eln ecol -> put_lines_of P <> [] ->
  put_src L P ln col eln ecol = put_spec L (put_lines_of P) ln col eln ecol.
Proof. exact put_src_is_spec. Qed.
Print Assumptions C10_success_leaves_the_splice.

(* non-vacuity: the generated table contains paths that raise before mutating and paths that mutate *)
Example C10_paths_nontrivial :
  existsb (fun p => existsb (fun a => match a with AMut => true | _ => false end) p) raw_paths = true /\
  existsb (fun p => existsb (fun a => match a with ARaise => true | _ => false end) p) raw_paths = true /\
  ordered [ARaise; AMut; ARaise] = false.
Proof. repeat split. Qed.

(* ---- the text the statement-level reparse sees (models/Scaffold.v) ---- *)
Theorem C10_scaffold_copy_receives_the_edit_like_the_real_source : forall L put pln ln col eln ecol,
  pln <= ln -> ln <= eln -> ln <= length L ->
  put_spec (scaffold L pln) put ln col eln ecol = scaffold (put_spec L put ln col eln ecol) pln.
Proof. exact scaffold_sees_edit_below. Qed.
Print Assumptions C10_scaffold_copy_receives_the_edit_like_the_real_source.

Theorem C10_scaffold_copy_is_the_new_source_below_and_blank_above : forall L put pln ln col eln ecol,
  pln <= ln -> ln <= eln -> ln <= length L ->
  skipn pln (put_spec (scaffold L pln) put ln col eln ecol) = skipn pln (put_spec L put ln col eln ecol)
  /\ blank_above (put_spec (scaffold L pln) put ln col eln ecol) pln = true.
Proof. exact scaffold_copy_is_new_source_below. Qed.
Print Assumptions C10_scaffold_copy_is_the_new_source_below_and_blank_above.

Theorem C10_edit_above_the_scaffold_start_is_lost :
  exists L put pln ln col eln ecol, ln < pln /\
    blank_above (put_spec L put ln col eln ecol) pln = false /\ blank_above (put_spec (scaffold L pln) put ln col eln ecol) pln = true
    /\ skipn pln (put_spec (scaffold L pln) put ln col eln ecol) = skipn pln L.
Proof. exact scaffold_misses_edit_above. Qed.
Print Assumptions C10_edit_above_the_scaffold_start_is_lost.
