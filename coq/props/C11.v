(* C11 - Whitespace-only source edits in offset mode keep every node on its text.

   FULL STATEMENT: put_src(action='offset') of pure trivia on the innermost node strictly containing the spot leaves
   the tree equal, in structure and positions, to a from-scratch parse of the new source; nodes before the spot do not
   move, nodes after it move by exactly the size of the change, containing nodes grow or shrink by it.

   PROVED HERE, for every text, region, replacement, tree, tail/head setting:
     K1  every branch of _put_src (hand model kernel/Text.v) is the one algebraic splice; lines above/below are kept,
         the start line keeps its prefix, the new end line is NEWPREFIX ++ old suffix;
     T1  the TRANSLATED _params_offset returns exactly (old end line, -bytes before the old end column, line delta,
         byte delta of that prefix), hence text after the region sits at byte column b + dcol (end_line_suffix_bytes);
     T2  the TRANSLATED per-node rule of _offset equals the intended position map (docstring table) on every
         well-formed span;
     K2  under the syntax-order assumption stated in the code's WARNING (`Ordered`), the walk with its two `break`s and
         its `continue` changes exactly the nodes the rule changes (walk = map), with `exclude`/`offset_excluded`;
     M   the two-phase offset of offset mode is `mode_map`: containers (self, ancestors, all nodes not below self)
         keep a start at the spot and extend an end at the spot; nodes below self do the opposite; positions strictly
         before never move; positions strictly after move rigidly by (dln, dcol on the spot's line).
   NOT PROVED: that CPython assigns positions by token extents (OH1) - "equal to a from-scratch parse" is decided by
   the oracle cross-check in py/props/C11.py; `Ordered` is a hypothesis checked on every tree the harness builds. *)
From Coq Require Import ZArith NArith List Bool Lia.
From PF Require Import kernel.PyBase kernel.Text kernel.OffsetBase gen.ParamsOffset gen.OffsetNode models.Offset
  proofs.TextProofs proofs.ParamsOffsetProofs proofs.OffsetProofs.
Import ListNotations.

Theorem C11_put_src_is_splice : forall L P ln col eln ecol,
  valid_loc L ln col eln ecol -> put_lines_of P <> [] ->
  put_src L P ln col eln ecol = put_spec L (put_lines_of P) ln col eln ecol.
Proof. exact put_src_is_spec. Qed.
Print Assumptions C11_put_src_is_splice.

Theorem C11_lines_before_kept : forall L put ln col eln ecol i d, ln <= length L -> i < ln ->
  nth i (put_spec L put ln col eln ecol) d = nth i L d.
Proof. exact put_spec_before. Qed.
Print Assumptions C11_lines_before_kept.

Theorem C11_lines_after_kept : forall L put ln col eln ecol k d, ln <= eln < length L -> eln < k -> put <> [] ->
  nth (k - (eln - ln) + (length put - 1)) (put_spec L put ln col eln ecol) d = nth k L d.
Proof. exact put_spec_after. Qed.
Print Assumptions C11_lines_after_kept.

Theorem C11_start_line_prefix_kept : forall L put ln col eln ecol, ln <= length L -> col <= length (lineAt L ln) ->
  firstn col (nth ln (put_spec L put ln col eln ecol) []) = firstn col (lineAt L ln).
Proof. exact put_spec_start_prefix. Qed.
Print Assumptions C11_start_line_prefix_kept.

Theorem C11_params_offset_correct : forall (L put : pytext) (ln col eln ecol : nat),
  valid_loc L ln col eln ecol -> put <> [] ->
  params_offset L put (Z.of_nat ln) (Z.of_nat col) (Z.of_nat eln) (Z.of_nat ecol)
  = Some (Z.of_nat eln,
          (- Z.of_nat (c2b (lineAt L eln) ecol))%Z,
          (Z.of_nat (length put - 1) - Z.of_nat (eln - ln))%Z,
          (Z.of_nat (blen_nat (new_prefix L put ln col)) - Z.of_nat (c2b (lineAt L eln) ecol))%Z).
Proof. exact params_offset_correct. Qed.
Print Assumptions C11_params_offset_correct.

Theorem C11_text_after_region_at_predicted_byte_column : forall L put ln col eln ecol k,
  ln <= length L -> ecol <= length (lineAt L eln) ->
  bskip (blen_nat (new_prefix L put ln col) + k) (nth (ln + (length put - 1)) (put_spec L put ln col eln ecol) [])
  = bskip (c2b (lineAt L eln) ecol + k) (lineAt L eln).
Proof. exact end_line_suffix_bytes. Qed.
Print Assumptions C11_text_after_region_at_predicted_byte_column.

Theorem C11_node_rule_is_position_map : forall lno colo dln dcol tail head l c el ec deco,
  pos_le l c el ec = true ->
  fst (offset_node lno colo dln dcol tail head (l, c, el, ec) deco) = offset_spec lno colo dln dcol tail head (l, c, el, ec).
Proof. exact offset_node_spec. Qed.
Print Assumptions C11_node_rule_is_position_map.

Theorem C11_walk_changes_every_node_the_rule_changes : forall lno colo dln dcol tail head excl oe t, Ordered t ->
  fst (walk_tree lno colo dln dcol tail head excl oe t) = map_tree lno colo dln dcol tail head excl oe t.
Proof. intros. now apply walk_is_map. Qed.
Print Assumptions C11_walk_changes_every_node_the_rule_changes.

Theorem C11_offset_mode : forall lno colo dln dcol self t, Ordered t ->
  offset_mode lno colo dln dcol self t = mode_map lno colo dln dcol self false t.
Proof. exact offset_mode_is_mode_map. Qed.
Print Assumptions C11_offset_mode.

Theorem C11_before_spot_fixed : forall lno colo dln dcol tail head q,
  wf_pos q -> before lno colo q -> offset_spec lno colo dln dcol tail head q = q.
Proof. exact spec_id_before. Qed.
Print Assumptions C11_before_spot_fixed.

Theorem C11_after_spot_moves_rigidly : forall lno colo dln dcol tail head l c el ec,
  pos_le l c el ec = true -> pos_lt lno colo l c = true ->
  offset_spec lno colo dln dcol tail head (l, c, el, ec)
  = ((l + dln)%Z, (if (l =? lno)%Z then (c + dcol)%Z else c), (el + dln)%Z, (if (el =? lno)%Z then (ec + dcol)%Z else ec)).
Proof. exact spec_after. Qed.
Print Assumptions C11_after_spot_moves_rigidly.

Theorem C11_container_grows : forall lno colo dln dcol l c el ec,
  pos_le l c lno colo = true -> pos_le lno colo el ec = true -> pos_lt l c el ec = true ->
  offset_spec lno colo dln dcol TTrue TFalse (l, c, el, ec)
  = (l, c, (el + dln)%Z, (if (el =? lno)%Z then (ec + dcol)%Z else ec)).
Proof. exact spec_container. Qed.
Print Assumptions C11_container_grows.

Theorem C11_child_ending_at_spot_fixed : forall lno colo dln dcol l c el ec,
  pos_lt l c el ec = true -> pos_le el ec lno colo = true ->
  offset_spec lno colo dln dcol TFalse TTrue (l, c, el, ec) = (l, c, el, ec).
Proof. exact spec_child_before. Qed.
Print Assumptions C11_child_ending_at_spot_fixed.

Theorem C11_child_starting_at_spot_moves : forall lno colo dln dcol l c el ec,
  pos_lt l c el ec = true -> pos_le lno colo l c = true ->
  offset_spec lno colo dln dcol TFalse TTrue (l, c, el, ec)
  = ((l + dln)%Z, (if (l =? lno)%Z then (c + dcol)%Z else c), (el + dln)%Z, (if (el =? lno)%Z then (ec + dcol)%Z else ec)).
Proof. exact spec_child_after. Qed.
Print Assumptions C11_child_starting_at_spot_moves.

(* non-vacuity: `a, b` with one space inserted after the comma (the docstring example of put_src) *)
Example C11_nonvacuous :
  let t := SNode 0 (Some (1, 0, 1, 4)%Z) None
             [Some (SNode 1 (Some (1, 0, 1, 1)%Z) None []); Some (SNode 2 (Some (1, 3, 1, 4)%Z) None [])] in
  Ordered t /\
  flat_pos (offset_mode 1 2 0 1 0 t) = [Some (1, 0, 1, 5)%Z; Some (1, 0, 1, 1)%Z; Some (1, 4, 1, 5)%Z] /\
  put_src [[97; 44; 32; 98]%N] (Some [[32]%N]) 0 2 0 2 = [[97; 44; 32; 32; 98]%N].
Proof.
  split; [|split; reflexivity].
  constructor.
  - intros l c el ec E. injection E as <- <- <- <-. split; [reflexivity|].
    cbn. intros q [<-|[<-|[]]]; split; cbn; try reflexivity; lia.
  - intros A k B pk E Epk q Hq.
    destruct A as [|a [|a2 [|a3 A]]]; cbn in E.
    + contradiction.
    + injection E as <- <- <-. cbn in Epk. injection Epk as <-. cbn in Hq. destruct Hq as [<-|[]]. reflexivity.
    + injection E as _ _ E. destruct B; discriminate.
    + injection E as _ _ E. destruct A; discriminate.
  - intros k [E|[E|[]]]; injection E as <-; (constructor; [intros l c el ec E; injection E as <- <- <- <-; split; [reflexivity|intros q []] | intros A k B pk E; destruct A; discriminate | intros k []]).
Qed.
