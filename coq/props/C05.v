(* C05 - Parsing is lossless and agrees with Python's parser in every parse mode.

   FULL STATEMENT: building a tree from source keeps the source text unchanged and produces exactly the tree Python's
   parser produces (types, values, contexts, positions); for the extended modes that parse fragments Python cannot parse
   alone the result equals the corresponding sub-tree of the full construct that contains the fragment, with positions
   relative to the fragment. Source that is invalid for a mode is rejected and never parsed into something else because
   of the wrapper used.

   PROVED HERE (models/Wrap.v, tied to parsex.py by correspondence; the byte/character column maps are C06):
   - wrapper geometry: in the embedding  prefix NEWLINE fragment NEWLINE suffix  every character and every span lying on
     fragment lines is found one line down, unchanged, so moving the parse result up by one line (_offset_linenos -1)
     and leaving columns alone makes every node denote, in the fragment, exactly the text it denotes in the embedding;
   - delimiter guard: the counting loop of _verify_no_close_delimiters accepts a text iff no prefix closes more
     delimiters than it opened; an accepted, balanced fragment leaves the wrapper's opening delimiter to be closed by
     the wrapper's own closing delimiter right after the fragment; a refused one would have closed it inside the
     fragment (which is how  ')+('  or  'a),(b'  would otherwise parse to something valid but unexpected).
   NOT PROVED: CPython's parser (the oracle), the per-mode choice of wrapper and the per-mode guards that are not the
   delimiter count (return annotation, lambda body, element counts): decided by py/props/C05.py against embeddings
   written independently of parsex.py, with a hostile fragment stream per mode (partial). *)
From Coq Require Import List NArith ZArith Bool Arith.
From PF Require Import kernel.PyBase kernel.Text models.Extract models.Wrap proofs.WrapProofs.
Import ListNotations.

Theorem C05_wrapper_keeps_characters : forall pre post L p,
  1 <= fst p <= length L -> char_at (wrap pre post L) p = char_at L (unwrap_pos p).
Proof. exact wrap_char. Qed.
Print Assumptions C05_wrapper_keeps_characters.

Theorem C05_wrapper_keeps_spans : forall pre post L ln col eln ecol,
  ln <= eln < length L ->
  get_src (wrap pre post L) (S ln) col (S eln) ecol = get_src L ln col eln ecol.
Proof. exact wrap_span. Qed.
Print Assumptions C05_wrapper_keeps_spans.

Theorem C05_wrapper_keeps_spans_any_prefix : forall pres post L ln col eln ecol,
  ln <= eln < length L ->
  get_src (wrapn pres post L) (length pres + ln) col (length pres + eln) ecol = get_src L ln col eln ecol.
Proof. exact wrapn_span. Qed.
Print Assumptions C05_wrapper_keeps_spans_any_prefix.

Theorem C05_guard_is_prefix_depth : forall s,
  (exists n, guard 0 s = Some n) <-> (forall k, k <= length s -> (0 <= depth (firstn k s))%Z).
Proof. exact guard_accepts_iff. Qed.
Print Assumptions C05_guard_is_prefix_depth.

Theorem C05_accepted_fragment_keeps_wrapper_open : forall s rest,
  (exists n, guard 0 s = Some n) -> depth s = 0%Z -> closer_index 0 (s ++ DClose :: rest) = Some (length s).
Proof. exact guarded_fragment_keeps_wrapper_open. Qed.
Print Assumptions C05_accepted_fragment_keeps_wrapper_open.

Theorem C05_refused_fragment_would_close_wrapper : forall s rest,
  guard 0 s = None -> exists i, i < length s /\ closer_index 0 (s ++ rest) = Some i.
Proof. exact refused_fragment_closes_wrapper. Qed.
Print Assumptions C05_refused_fragment_would_close_wrapper.

(* non-vacuity:  a),(b  is refused and would close the wrapper at index 1;  (a)+(b)  is accepted *)
Example C05_guard_examples :
  guard 0 [DOther; DClose; DOther; DOpen; DOther] = None /\
  closer_index 0 ([DOther; DClose; DOther; DOpen; DOther] ++ [DClose]) = Some 1 /\
  guard 0 [DOpen; DOther; DClose; DOther; DOpen; DOther; DClose] = Some 0.
Proof. repeat split. Qed.
