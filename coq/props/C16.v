(* C16 - Scope analysis agrees with Python's own symbol table.

   FULL STATEMENT: for any module, function, lambda, class or comprehension, the scope-restricted walk yields exactly
   the nodes that belong to that scope under Python's rules (decorators, defaults, annotations, base classes and the
   first iterable of a comprehension belong to the enclosing scope; walrus targets inside comprehensions belong to the
   enclosing function). scope_symbols() reports exactly the names Python's compiler records for that scope, classified
   the same way as loaded, stored, deleted, declared global/nonlocal, local and free.

   PROVED HERE (models/Scope.v: nodes are plain or open a scope, each scope node's children are split into the parts
   belonging to the enclosing scope and its own parts, walrus flag on targets; tied to walk(scope=True) by
   correspondence on encoded real trees):
   - for EVERY tree with unique node ids and EVERY scope root (function-like or comprehension, at any nesting depth) the
     scope-restricted walk - descend through plain nodes, take only the outer parts of nested scopes, hoist walrus
     targets out of nested comprehensions - yields exactly the nodes the declarative rule assigns to that scope, where
     the rule gives a walrus target to its comprehension, to every enclosing comprehension and to the nearest
     function-like scope;
   - without walrus targets every node of the tree is assigned to exactly one scope (the scope walks partition it).
   - (models/Symbols.v: the classification half of scope_symbols over the events - load / store / del / global / nonlocal /
     walrus-target-of-a-comprehension-root - that the nodes of the scope contribute in walk order; tied to
     scope_symbols(full=True) by correspondence of all seven dictionaries, keys in order) for a function-like scope
     'free' is exactly the compiler's "used, not bound, not declared", 'local' is the compiler's local minus the names
     that are only deleted (documented), no name is both local and free, a declared name is neither; a walrus target of a
     comprehension root is stored but never local to the comprehension and is reported free unless bound there otherwise.
   NOT PROVED: that CPython's symbol table follows the same rule (the oracle compares scope_symbols with the symtable
   module for every scope), the per-node-class split into outer/inner parts used by the encoder (it is the property's
   own list), which event a node class contributes (re-derived by the harness). Decided by py/props/C16.py (partial). *)
From Coq Require Import List Bool Arith.
From PF Require Import models.Scope proofs.ScopeProofs models.Symbols proofs.SymbolsProofs.
Import ListNotations.

Theorem C16_scope_walk_is_the_rule : forall i comp w outer inner above x,
  NoDup (ids (SN i (KScope comp) w outer inner)) -> NoDup (i :: above) ->
  (forall c', In c' (i :: above) -> ~ In c' (flat_map ids inner)) ->
  (In x (own (SN i (KScope comp) w outer inner)) <-> In (x, i) (flat_map (assign (i :: above)) inner)).
Proof. exact own_is_assigned. Qed.
Print Assumptions C16_scope_walk_is_the_rule.

Theorem C16_one_scope_per_node : forall t cur above x,
  no_walrus t = true -> NoDup (ids t) ->
  (In x (ids t) -> exists c, In (x, c) (assign (cur :: above) t)) /\
  (forall c c', In (x, c) (assign (cur :: above) t) -> In (x, c') (assign (cur :: above) t) -> c = c').
Proof. exact one_scope_per_node. Qed.
Print Assumptions C16_one_scope_per_node.

Theorem C16_free_is_the_compilers_free : forall evs n, no_walrus_ev evs ->
  (In n (s_free (classify false evs)) <-> py_free n evs).
Proof. exact free_is_compilers_free. Qed.
Print Assumptions C16_free_is_the_compilers_free.

Theorem C16_local_is_the_compilers_local_minus_deleted_only : forall evs n, no_walrus_ev evs ->
  (In n (s_local (classify false evs)) <-> occurs KStore n evs /\ ~ declared n evs) /\
  (py_local n evs <-> In n (s_local (classify false evs)) \/ (occurs KDel n evs /\ ~ occurs KStore n evs /\ ~ declared n evs)).
Proof. exact local_is_compilers_local_but_del_only. Qed.
Print Assumptions C16_local_is_the_compilers_local_minus_deleted_only.

Theorem C16_local_free_declared_are_disjoint : forall comp evs n,
  (In n (s_local (classify comp evs)) -> ~ In n (s_free (classify comp evs))) /\
  (In n (s_global (classify comp evs)) \/ In n (s_nonlocal (classify comp evs)) ->
   ~ In n (s_local (classify comp evs)) /\ (comp = false -> ~ In n (s_free (classify comp evs)))).
Proof. exact local_free_declared_disjoint. Qed.
Print Assumptions C16_local_free_declared_are_disjoint.

Theorem C16_walrus_target_of_a_comprehension_root : forall evs n, In (KWalrus, n) evs ->
  ~ In n (s_local (classify true evs)) /\
  (~ In (KStore, n) evs -> In n (s_free (classify true evs))) /\ In n (s_store (classify true evs)).
Proof. exact walrus_target_of_comprehension_root. Qed.
Print Assumptions C16_walrus_target_of_a_comprehension_root.

(* non-vacuity: def f(d=D): [w := x for x in IT]  - f is 1; D (2) is outer; the comprehension 3 with first iterable IT (4)
   outer and body (5 = walrus target w, 6 = x) inner *)
Example C16_example :
  let comp := SN 3 (KScope true) false [SN 4 KPlain false [] []] [SN 5 KPlain true [] []; SN 6 KPlain false [] []] in
  let f := SN 1 (KScope false) false [SN 2 KPlain false [] []] [comp] in
  own f = [3; 4; 5] /\ own comp = [5; 6] /\ visit f = [1; 2].
Proof. repeat split. Qed.
