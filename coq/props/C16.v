(* C16 - Scope analysis agrees with Python's own symbol table.

   FULL STATEMENT: for any module, function, lambda, class or comprehension, the scope-restricted walk yields exactly
   the nodes that belong to that scope under Python's rules (decorators, defaults, annotations, base classes and the
   first iterable of a comprehension belong to the enclosing scope; walrus targets inside comprehensions belong to the
   enclosing function). scope_symbols() reports exactly the names Python's compiler records for that scope, classified
   the same way as loaded, stored, deleted, declared global/nonlocal, local and free.

   PROVED HERE (models/Scope.v: nodes are plain or open a scope, each scope node's children are split into the parts
   belonging to the enclosing scope and its own parts, walrus flag on targets; tied to walk(scope=True) by
   correspondence on encoded real trees):
   - for EVERY tree with unique node ids and EVERY scope root (function-like or comprehension, at any nesting depth) the
     scope-restricted walk - descend through plain nodes, take only the outer parts of nested scopes, hoist walrus
     targets out of nested comprehensions - yields exactly the nodes the declarative rule assigns to that scope, where
     the rule gives a walrus target to its comprehension, to every enclosing comprehension and to the nearest
     function-like scope;
   - without walrus targets every node of the tree is assigned to exactly one scope (the scope walks partition it).
   NOT PROVED: that CPython's symbol table follows the same rule (the oracle compares scope_symbols with the symtable
   module for every scope), the per-node-class split into outer/inner parts used by the encoder (it is the property's
   own list), name classification. Decided by py/props/C16.py (partial). *)
From Coq Require Import List Bool Arith.
From PF Require Import models.Scope proofs.ScopeProofs.
Import ListNotations.

Theorem C16_scope_walk_is_the_rule : forall i comp w outer inner above x,
  NoDup (ids (SN i (KScope comp) w outer inner)) -> NoDup (i :: above) ->
  (forall c', In c' (i :: above) -> ~ In c' (flat_map ids inner)) ->
  (In x (own (SN i (KScope comp) w outer inner)) <-> In (x, i) (flat_map (assign (i :: above)) inner)).
Proof. exact own_is_assigned. Qed.
Print Assumptions C16_scope_walk_is_the_rule.

Theorem C16_one_scope_per_node : forall t cur above x,
  no_walrus t = true -> NoDup (ids t) ->
  (In x (ids t) -> exists c, In (x, c) (assign (cur :: above) t)) /\
  (forall c c', In (x, c) (assign (cur :: above) t) -> In (x, c') (assign (cur :: above) t) -> c = c').
Proof. exact one_scope_per_node. Qed.
Print Assumptions C16_one_scope_per_node.

(* non-vacuity: def f(d=D): [w := x for x in IT]  - f is 1; D (2) is outer; the comprehension 3 with first iterable IT (4)
   outer and body (5 = walrus target w, 6 = x) inner *)
Example C16_example :
  let comp := SN 3 (KScope true) false [SN 4 KPlain false [] []] [SN 5 KPlain true [] []; SN 6 KPlain false [] []] in
  let f := SN 1 (KScope false) false [SN 2 KPlain false [] []] [comp] in
  own f = [3; 4; 5] /\ own comp = [5; 6] /\ visit f = [1; 2].
Proof. repeat split. Qed.
