(* C19 - Coercion yields a valid node of the requested kind with the same content.

   FULL STATEMENT: converting a node to another kind (as_(), FST(node, mode), or implicitly on put) either raises or
   returns a standalone tree that parses in the requested mode, is an instance of the requested kind, and contains the
   same leaf names, constants and sub-expressions in the same order; if the node already has the requested kind it is
   returned unchanged. Coercing a formatted node and coercing its pure AST give structurally equal results, copy-mode
   coercion leaves the operand untouched, and a put that coerces gives the same structure as a put of the explicitly
   converted node.

   PROVED HERE (models/Coerce.v: the expression <-> match-pattern coercions over a grammar covering everything those
   routines accept, with an opaque node for what they refuse; tied to as_('pattern') / as_('expr') by correspondence of
   accept/refuse and of the resulting structure):
   - whenever an expression coerces to a pattern, the pattern has exactly the names and constants of the expression in
     the same order (wildcard `_` included; a | b | c ladders flatten to one MatchOr without reordering; mapping keys,
     class keyword names, ** rest names all kept in place);
   - whenever a pattern coerces to an expression, likewise;
   - captures, literals, signed numbers and attribute chains go there and back unchanged; any other expression kind is
     refused.
   - (models/Alias.v: _coerce_to_alias, tied to as_('alias') / FST(ast, 'alias') by correspondence) an expression coerces
     to an import alias iff it is an attribute chain on a plain name, and the name - built back to front by the loop - is
     the chain's identifiers in source order joined by dots.
   NOT PROVED: the other ~40 coercion routines (sequences, argument lists, with-items, statements ...), source
   formatting of the result, FST vs pure-AST agreement, copy mode, coercing puts: decided on the implementation by the
   kind x mode matrix of py/props/C19.py (partial). *)
From Coq Require Import List Bool Arith.
From PF Require Import models.Coerce proofs.CoerceProofs models.Alias proofs.AliasProofs.
Import ListNotations.

Theorem C19_expr_to_pattern_keeps_leaves : forall e p, e2p e = Some p -> pleaves p = eleaves e.
Proof. exact e2p_leaves. Qed.
Print Assumptions C19_expr_to_pattern_keeps_leaves.

Theorem C19_pattern_to_expr_keeps_leaves : forall p e, p2e p = Some e -> eleaves e = pleaves p.
Proof. exact p2e_leaves. Qed.
Print Assumptions C19_pattern_to_expr_keeps_leaves.

Theorem C19_simple_round_trip : forall e p, e2p e = Some p ->
  (match e with EName _ | EConst _ | EAttr _ _ | ENeg _ => True | _ => False end) -> p2e p = Some e.
Proof. exact simple_round_trip. Qed.
Print Assumptions C19_simple_round_trip.

Theorem C19_alias_name_is_the_dotted_path_in_source_order : forall e, to_alias e = dotted e.
Proof. exact to_alias_is_dotted_path. Qed.
Print Assumptions C19_alias_name_is_the_dotted_path_in_source_order.

Theorem C19_alias_refuses_exactly_what_is_not_a_name_chain : forall e, to_alias e = None <-> parts e = None.
Proof. exact to_alias_refuses_exactly_non_chains. Qed.
Print Assumptions C19_alias_refuses_exactly_what_is_not_a_name_chain.

(* non-vacuity:  C(a, k=1) | {"s": _, **r} | [x, *y]  coerces, keeps its 9 leaves in order, and comes back *)
Example C19_example :
  let e := EBin OBitOr (EBin OBitOr (ECall (EName 3) [EName 1] [(Some 11, EConst (CNum 1))])
                                    (EDict [(Some (EConst (CStr 5)), EName 0); (None, EName 18)]))
                       (ESeq [EName 24; EStar (EName 25)]) in
  match e2p e with
  | Some p => leaves_eqb (pleaves p) (eleaves e) = true /\ length (eleaves e) = 9 /\ oex_eqb (p2e p) (Some e) = true
  | None => False
  end.
Proof. vm_compute. repeat split. Qed.
