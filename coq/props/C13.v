(* C13 - reconcile() returns a valid tree that equals the externally edited AST.

   FULL STATEMENT: after mark(), any changes made directly to the AST objects (replacing, inserting, deleting, reordering,
   duplicating nodes, mixing in nodes from other trees or brand-new nodes, changing primitive values) followed by
   reconcile() give a tree that satisfies C01 and is structurally equal to the edited AST. With no changes the returned
   source is identical to the marked source, and statements whose AST nodes were not touched keep their original text,
   comments included.

   PROVED HERE (models/Reconcile.v: the recursion of Reconcile.recurse_node / recurse_children over trees whose nodes
   carry "is object k of the marked tree" or "pure AST"; tied to reconcile.py by correspondence of the number of puts):
   - for EVERY marked tree and EVERY edited tree (any mixture of in-place, moved, duplicated, foreign/new nodes, changed
     labels, changed child counts) the returned tree is structurally equal to the edited tree;
   - with no changes nothing is put at all and the marked tree is returned with every formatting identity intact;
   - a child sub-tree that is untouched and still in place under an in-tree parent is returned intact (all identities,
     hence all original text) whatever was done to its siblings.
   - (models/SliceReplay.v: the loop of Reconcile.recurse_slice over an edited list - maximal runs of elements that are
     consecutive in their source list go in by ONE slice operation, elements already in place and pure nodes are handled
     alone, the tail is deleted; tied to reconcile.py by correspondence of the put_slice calls it makes) whatever the
     output list held and wherever the edited elements come from the loop leaves exactly the edited list; an unchanged
     list is only recursed into - no slice operation touches it.
   NOT PROVED: the put operations themselves (C01/C03/C09 - the model assumes a put makes the position equal to what was
   put), recurse_slice_dict and elements from other trees in recurse_slice (verified first, with fall back), comments.
   Decided on the implementation by py/props/C13.py (partial). *)
From Coq Require Import List Bool Arith.
From PF Require Import models.Reconcile proofs.ReconcileProofs models.SliceReplay proofs.SliceReplayProofs.
Import ListNotations.

Theorem C13_reconciled_equals_edited : forall M w, shape (fst (reconcile M w)) = shape w.
Proof. exact reconcile_structurally_equal. Qed.
Print Assumptions C13_reconciled_equals_edited.

Theorem C13_no_change_no_put : forall M, all_marked M = true -> reconcile M M = (M, 0).
Proof. exact reconcile_no_change. Qed.
Print Assumptions C13_no_change_no_put.

Theorem C13_untouched_child_kept : forall M ws os i t,
  nth_error ws i = Some t -> nth_error os i = Some t -> all_marked t = true ->
  nth_error (fst (go_rec M true ws os)) i = Some t.
Proof. intros M ws os i t. apply untouched_child_kept. reflexivity. Qed.
Print Assumptions C13_untouched_child_kept.

Theorem C13_slice_replay_rebuilds_the_edited_list : forall body out, fst (recurse_slice body out) = map eid body.
Proof. exact recurse_slice_rebuilds_the_edited_list. Qed.
Print Assumptions C13_slice_replay_rebuilds_the_edited_list.

Theorem C13_unchanged_list_is_only_recursed_into : forall body,
  (forall i x, nth_error body i = Some x -> own x = true /\ exists p, src x = Some (p, i)) ->
  recurse_slice body (map eid body) = (map eid body, map Recurse (seq 0 (length body))).
Proof. exact unchanged_list_is_only_recursed. Qed.
Print Assumptions C13_unchanged_list_is_only_recursed_into.

(* non-vacuity: mark  f(a, b) ; edit: replace b by a new node, rename f's label: 2 puts, a kept with its identity *)
Example C13_example :
  let M := RT (Some 0) 10 [RT (Some 1) 11 []; RT (Some 2) 12 []; RT (Some 3) 13 []] in
  let w := RT (Some 0) 10 [RT (Some 1) 99 []; RT (Some 2) 12 []; RT None 50 []] in
  reconcile M w = (RT (Some 0) 10 [RT (Some 1) 99 []; RT (Some 2) 12 []; RT None 50 []], 2).
Proof. reflexivity. Qed.
