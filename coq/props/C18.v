(* C18 - Substitution rewrites exactly the matched nodes with the filled-in template.

   FULL STATEMENT: sub(pattern, template) returns a tree satisfying C01 whose structure equals the result of replacing,
   in a pure AST, each matched node (outermost first, or all of them when nested) by the template with every tag slot
   filled by the captured node or slice; nodes that did not match are structurally unchanged and text outside substituted
   nodes is preserved as in C04. A template consisting only of the whole-match slot leaves the structure unchanged, and
   the reported counts equal the number of substitutions performed.

   PROVED HERE (models/Subst.v: any node predicate as the pattern, templates with whole-match and child-capture slots;
   tied to FST.subn by correspondence of results and counts):
   - the non-nested substitution meets the declarative specification "replace exactly the outermost matching nodes by
     the filled template, leave every non-matching node above them as it is", and that specification determines the
     result uniquely;
   - the whole-match template is the identity, nested or not;
   - the count is the number of outermost matches; a tree without matches is returned unchanged with count 0.
   - (models/SubLoop.v, the driver loop over the match locations with count / loop / callback, tied to the counts FST.subn
     reports by correspondence) the reported pair is (locations substituted, substitutions performed) for every setting;
     every location takes at most what it can match and at most the loop allowance, the same allowance at every
     location; a count limit is respected; locations <= substitutions.
   - (models/SlotEscape.v over the string alphabet and the literal scanners of models/StrRepr.v; tied to the text real
     sub() writes by correspondence) a capture written into a slot INSIDE a string constant of the template - quotes and
     backslashes escaped, non-printables as their unicode escapes - reads back as the capture's source, in single- and
     triple-quoted template strings of either quote kind, whatever stands in front of and behind the slot.
   NOT PROVED: the matcher (C17), slice and multi-node captures, the slot discovery per node type, text preservation.
   Decided by the pure-AST reference oracle of py/props/C18.py (partial). *)
From Coq Require Import List Bool Arith.
From PF Require Import models.Subst proofs.SubstProofs models.SubLoop proofs.SubLoopProofs models.StrRepr models.SlotEscape proofs.SlotEscapeProofs.
From Coq Require Import ZArith.
Import ListNotations.

Theorem C18_sub_replaces_exactly_the_outermost_matches : forall p tm t,
  replaced p tm t (sub p tm t) /\ (forall r, replaced p tm t r -> r = sub p tm t).
Proof. intros p tm t. split; [apply sub_meets_spec|apply spec_is_functional]. Qed.
Print Assumptions C18_sub_replaces_exactly_the_outermost_matches.

Theorem C18_whole_match_template_is_identity : forall p t, sub p TWhole t = t /\ subn p TWhole t = t.
Proof. intros p t. split; [apply sub_whole_is_identity|apply subn_whole_is_identity]. Qed.
Print Assumptions C18_whole_match_template_is_identity.

Theorem C18_count_is_number_of_outermost_matches : forall p t, cnt p t = length (outermost p t).
Proof. exact cnt_is_outermost. Qed.
Print Assumptions C18_count_is_number_of_outermost_matches.

Theorem C18_no_match_no_change : forall p tm t, nomatch p t = true -> sub p tm t = t /\ cnt p t = 0.
Proof. exact sub_nomatch_unchanged. Qed.
Print Assumptions C18_no_match_no_change.

(* ---- count / loop / callback: the driver loop of subn() (models/SubLoop.v == the counts FST.subn reports, by correspondence) ---- *)
Theorem C18_reported_counts_are_the_substitutions_performed : forall l0 count0, (0 <= count0)%Z -> forall locs cbs,
  let s := locs_run locs l0 (init count0 cbs) in
  subn_counts locs l0 count0 cbs = (Z.of_nat (nonzero (per_loc s)), sum (per_loc s)).
Proof. exact counts_are_substitutions. Qed.
Print Assumptions C18_reported_counts_are_the_substitutions_performed.

Theorem C18_every_location_within_its_matches_and_the_same_loop_allowance : forall locs l0 count0 cbs,
  let s := locs_run locs l0 (init count0 cbs) in
  length (per_loc s) <= length locs /\
  Forall2 (fun d avail => d <= avail /\ allowance l0 d) (per_loc s) (firstn (length (per_loc s)) locs).
Proof. exact per_location_bounds. Qed.
Print Assumptions C18_every_location_within_its_matches_and_the_same_loop_allowance.

Theorem C18_count_limit_respected : forall locs l0 count0 cbs, (0 < count0)%Z -> (fst (subn_counts locs l0 count0 cbs) <= count0)%Z.
Proof. exact count_limit_respected. Qed.
Print Assumptions C18_count_limit_respected.

Theorem C18_locations_le_substitutions : forall locs l0 count0 cbs, (0 <= count0)%Z ->
  (fst (subn_counts locs l0 count0 cbs) <= Z.of_nat (snd (subn_counts locs l0 count0 cbs)))%Z.
Proof. exact unique_le_total. Qed.
Print Assumptions C18_locations_le_substitutions.

(* ---- slots inside string constants of the template (models/SlotEscape.v) ---- *)
Theorem C18_negative_count_is_no_limit_and_reports_the_substitutions_performed : forall locs l0 count cbs,
  ((count < 0)%Z -> subn_entry locs l0 count cbs = subn_entry locs l0 0%Z cbs) /\
  (let c0 := if (count <? 0)%Z then 0%Z else count in let s := locs_run locs l0 (init c0 cbs) in
   subn_entry locs l0 count cbs = (Z.of_nat (nonzero (per_loc s)), sum (per_loc s))) /\
  (fst (subn_entry locs l0 count cbs) <= Z.of_nat (snd (subn_entry locs l0 count cbs)))%Z.
Proof. intros. split; [apply negative_count_is_no_limit|]. split; [apply entry_counts_are_substitutions|apply entry_unique_le_total]. Qed.
Print Assumptions C18_negative_count_is_no_limit_and_reports_the_substitutions_performed.

Theorem C18_string_slot_reads_back_in_triple_quoted_template : forall q s T, is_quote q = true -> forallb plain s = true ->
  scan q (slot_escape s ++ T) = option_map (app s) (scan q T).
Proof. exact slot_reads_back_in_triple_quoted. Qed.
Print Assumptions C18_string_slot_reads_back_in_triple_quoted_template.

Theorem C18_string_slot_reads_back_in_single_quoted_template : forall q s T, is_quote q = true -> forallb plain s = true ->
  scan1 q (slot_escape s ++ T) = option_map (app s) (scan1 q T).
Proof. exact slot_reads_back_in_single_quoted. Qed.
Print Assumptions C18_string_slot_reads_back_in_single_quoted_template.

Theorem C18_string_slot_alone_is_the_capture_source : forall q s, is_quote q = true -> forallb plain s = true ->
  decode (triple q ++ slot_escape s ++ triple q) = Some s /\ decode1 (q :: slot_escape s ++ [q]) = Some s.
Proof. exact slot_alone_decodes. Qed.
Print Assumptions C18_string_slot_alone_is_the_capture_source.

(* non-vacuity: swap the operands of every outermost node labelled 1:  1(1(a,b), c) -> 1(c, 1(a,b)) non-nested,
   1(c, 1(b,a)) nested *)
Example C18_example :
  let t := Nd 1 [Nd 1 [Nd 7 []; Nd 8 []]; Nd 9 []] in
  let tm := TNode 1 [TKid 1; TKid 0] in
  sub (by_label [1]) tm t = Nd 1 [Nd 9 []; Nd 1 [Nd 7 []; Nd 8 []]] /\
  subn (by_label [1]) tm t = Nd 1 [Nd 9 []; Nd 1 [Nd 8 []; Nd 7 []]] /\ cnt (by_label [1]) t = 1 /\
  (* a capture that becomes the root of the replacement is not re-examined: 1(1(a,b),c) with template = first child *)
  subn (by_label [1]) (TKid 0) t = Nd 1 [Nd 7 []; Nd 8 []].
Proof. repeat split. Qed.
