(* C20 - Options and edits are isolated per call, per block and per thread.

   FULL STATEMENT: an option passed to a call affects only that call; options set through options() are restored
   exactly on exit, also when the block raises; unknown options or invalid values are rejected before anything is
   changed; option defaults set in one thread are never visible in another; threads that edit different trees
   concurrently obtain exactly the results they would obtain running alone.

   PROVED HERE over models/Options.v / models/Registry.v (hand models of fst_options.py / _Modifying; option universe,
   defaults and effect order TRANSLATED into gen/OptionsTable.v), for all option names/values, nestings, exceptions
   and interleavings:
     reads are pure; invalid requests change nothing; a block restores exactly the names it sets and, when its body
     contains no bare set_options, the complete thread state; for every interleaving each thread ends where it would
     end alone; a fresh thread sees the table defaults; registry operations on different roots commute.
   NOT PROVED: atomicity of dict/threading.local operations under the interpreter lock and the behaviour of real
   edits under real preemption (runtime) - exercised by the concurrent cross-check in py/props/C20.py (partial). *)
From Coq Require Import List String Bool Arith.
From PF Require Import gen.OptionsTable models.Options models.Registry proofs.OptionsProofs proofs.RegistryProofs.
Import ListNotations.

Theorem C20_call_option_is_pure : forall t n c, fst (step t (OGet n c)) = t.
Proof. exact get_pure. Qed.
Print Assumptions C20_call_option_is_pure.

Theorem C20_call_option_wins : forall t n c v, assoc n c = Some v -> snd (step t (OGet n c)) = RVal (Some v).
Proof. exact get_prefers_call. Qed.
Print Assumptions C20_call_option_wins.

Theorem C20_invalid_request_changes_nothing : forall t kvs, all_ok kvs = false ->
  step t (OSet kvs) = (t, RErr) /\ step t (OEnter kvs) = (t, RErr).
Proof. exact reject_pure. Qed.
Print Assumptions C20_invalid_request_changes_nothing.

Theorem C20_block_restores_named_options : forall t kvs body,
  all_ok kvs = true -> wf_kvs kvs -> wf_store (st t) -> balanced body ->
  let t1 := fst (step t (OEnter kvs)) in
  let t2 := run t1 body in
  let t3 := fst (step t2 OExit) in
  stack t3 = stack t /\
  forall j d, nth j (st t3) d = if in_dec Nat.eq_dec j (map idx_or0 kvs) then nth j (st t) d else nth j (st t2) d.
Proof. exact block_restore. Qed.
Print Assumptions C20_block_restores_named_options.

Theorem C20_nested_blocks_restore_everything : forall l, quiet l -> forall t, wf_store (st t) ->
  (forall kvs, In (OEnter kvs) l -> wf_kvs kvs) -> run t l = t.
Proof. exact quiet_identity. Qed.
Print Assumptions C20_nested_blocks_restore_everything.

Theorem C20_thread_isolation : forall w tid o tid', tid <> tid' -> wget (wstep w (tid, o)) tid' = wget w tid'.
Proof. exact thread_isolation. Qed.
Print Assumptions C20_thread_isolation.

Theorem C20_every_interleaving_equals_running_alone : forall l w tid, wget (wrun w l) tid = run (wget w tid) (proj tid l).
Proof. exact interleaving_projection. Qed.
Print Assumptions C20_every_interleaving_equals_running_alone.

Theorem C20_fresh_thread_defaults : st (wget [] 0) = global_option_defaults /\ stack (wget [] 0) = [].
Proof. exact fresh_thread_defaults. Qed.
Print Assumptions C20_fresh_thread_defaults.

Theorem C20_option_table_shape :
  List.length global_option_names = n_global /\ List.length global_option_defaults = n_global /\ NoDup global_option_names
  /\ (forall n, In n dyn_option_names -> index_of n global_option_names = None).
Proof. exact table_shape. Qed.
Print Assumptions C20_option_table_shape.

Theorem C20_validate_before_update_restore_in_finally :
  pos_of "Validate" set_options_effects < pos_of "ReadOldOrRaise" set_options_effects /\
  pos_of "ReadOldOrRaise" set_options_effects < pos_of "Update" set_options_effects /\
  List.length (filter (String.eqb "Update") set_options_effects) = 1 /\
  options_cm_effects = ["SetOptions"; "Try["; "Yield"; "]Finally["; "Update"; "]"]%string.
Proof. exact effect_order. Qed.
Print Assumptions C20_validate_before_update_restore_in_finally.

Theorem C20_edits_of_different_trees_commute : forall g o1 o2, rop_root o1 <> rop_root o2 ->
  req (fst (rstep (fst (rstep g o1)) o2)) (fst (rstep (fst (rstep g o2)) o1)) /\
  snd (rstep (fst (rstep g o1)) o2) = snd (rstep g o2) /\ snd (rstep (fst (rstep g o2)) o1) = snd (rstep g o1).
Proof. exact reg_disjoint_commute. Qed.
Print Assumptions C20_edits_of_different_trees_commute.

(* non-vacuity: a nested block with an inner invalid request, on the real defaults *)
Example C20_nonvacuous :
  let pars := {| k_name := "pars"; k_val := "False"; k_valid := true |} in
  let bad := {| k_name := "nope"; k_val := "1"; k_valid := true |} in
  let raw := {| k_name := "raw"; k_val := "True"; k_valid := true |} in
  let l := [OEnter [pars]; OGet "pars" []; OEnter [raw]; OSet [bad]; OExit; OExit] in
  quiet l /\ run fresh l = fresh /\
  snd (step (run fresh [OEnter [pars]]) (OGet "pars" [])) = RVal (Some "False"%string) /\
  snd (step fresh (OGet "pars" [])) = RVal (Some "'auto'"%string).
Proof.
  cbv zeta. split; [|split; [|split]]; try reflexivity.
  apply (q_block _ [OGet "pars" []; OEnter _; OSet _; OExit] []); [reflexivity| |constructor].
  constructor. apply (q_block _ [OSet _] []); [reflexivity| |constructor].
  apply q_set; [reflexivity|constructor].
Qed.
