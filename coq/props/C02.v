(* C02 - An edited tree is observationally identical to a fresh parse of its own source.

   FULL STATEMENT: after any edit sequence every query (locations, parentheses, own source, parent/field/index links,
   navigation, views and their lengths, predicates, docstring lookup) answers as on a tree freshly built from the current
   source; results never depend on which queries were made before (no stale cache); the root keeps its identity.

   PROVED HERE:
     P  positions: for every history of offset passes the nodes end exactly where the position map puts them (K2:
        the walk changes every node the rule changes - so no node is left with a stale POSITION);
     C  caches of position-determined answers (models/Cache.v: visited nodes are moved and flushed, unvisited nodes are
        left alone): coherence `cached v -> v = answer(current position)` is preserved by every interleaving of queries
        and passes, positions do not depend on the queries made, hence the answer obtained after any history equals the
        answer of a tree on which no query was ever made (no stale cache);
     V  views heal to a window inside the field after any external length change (C03_view_heals).
   NOT PROVED: caches whose answer also reads source TEXT beyond the node (bloc, pars), the link structure
   (parent/pfield/a/f) and object identity: decided by the query-battery oracle in py/props/C02.py, which compares ~25
   queries on every node of the live tree with a fresh tree after every edit, under two different query schedules. *)
From Coq Require Import List Bool Arith ZArith.
From PF Require Import kernel.OffsetBase gen.OffsetNode models.Offset models.Cache models.View
  proofs.OffsetProofs proofs.CacheProofs proofs.ViewProofs.
Import ListNotations.

Theorem C02_no_node_keeps_a_stale_position : forall lno colo dln dcol tail head excl oe t, Ordered t ->
  fst (walk_tree lno colo dln dcol tail head excl oe t) = map_tree lno colo dln dcol tail head excl oe t.
Proof. intros. now apply walk_is_map. Qed.
Print Assumptions C02_no_node_keeps_a_stale_position.

Theorem C02_cache_coherent_along_any_history : forall answer ops l,
  Forall (coherent answer) l -> Forall (coherent answer) (fold_left (cstep answer) ops l).
Proof. exact coherent_history. Qed.
Print Assumptions C02_cache_coherent_along_any_history.

Theorem C02_positions_independent_of_queries : forall answer ops l l', positions l = positions l' ->
  positions (fold_left (cstep answer) ops l) = positions (fold_left (cstep answer) (no_asks ops) l').
Proof. exact positions_query_independent. Qed.
Print Assumptions C02_positions_independent_of_queries.

Theorem C02_answers_independent_of_earlier_queries : forall answer ops l l' i n n',
  Forall (coherent answer) l -> Forall (coherent answer) l' -> positions l = positions l' ->
  nth_error (fold_left (cstep answer) ops l) i = Some n ->
  nth_error (fold_left (cstep answer) (no_asks ops) l') i = Some n' ->
  snd (ask answer n) = snd (ask answer n').
Proof. exact answers_query_independent. Qed.
Print Assumptions C02_answers_independent_of_earlier_queries.

Theorem C02_view_heals : forall (A : Type) (s : vst A) f,
  let s' := external s f in hstart s' <= hstop s' <= length f /\ hstart s' <= vstart s.
Proof. exact @external_heals. Qed.
Print Assumptions C02_view_heals.

Example C02_nonvacuous :
  let ans := fun p : npos => let '(l, c, el, ec) := p in (ec - c)%Z in
  let n0 := {| c_pos := (1, 0, 1, 3)%Z; c_cache := None |} in
  let mv := fun p : npos => let '(l, c, el, ec) := p in (l, c, el, (ec + 2)%Z) in
  map (fun n => snd (ask ans n)) (fold_left (cstep ans) [Ask 0; Pass mv [true]; Ask 0] [n0]) = [5%Z] /\
  Forall (coherent ans) [n0].
Proof. split; [reflexivity|]. constructor; [intros v; cbn; discriminate|constructor]. Qed.
