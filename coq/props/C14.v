(* C14 - Traversal visits every node once, in source order, consistently across APIs.

   FULL STATEMENT: walk(all=True) yields exactly the reachable nodes, each once, parents before children, siblings in
   text order; back=True reverses sibling order only; on='leave' yields children before parents; on='both' brackets;
   repeated step_fwd()/step_back() reproduce the walk order; next()/prev() (and next_child/prev_child) are mutually
   inverse and agree with walk(recurse=False); child_path()/child_from_path() are inverse bijections.

   PROVED HERE:
     T  for every regular node class (all but the six hand-coded interleaving classes) and EVERY node shape (all list
        lengths, all optional-field occupancies): the generated stepping function TRANSLATED from traverse_next.py /
        traverse_prev.py returns exactly the successor / predecessor in the child order TRANSLATED from
        astutil._SYNTAX_ORDERED_CHILDREN (generic lemma compat_sound + a finite check over the regenerated tables);
        hence next and prev are mutually inverse walks of the same list;
     W  the walk stack machines (hand model of the generator, tied by correspondence) compute preorder (enter),
        preorder of the mirrored tree (back), postorder (leave), bracketed order (both), and the one-level filter
        (recurse=False), for every tree and filter; with all=True the yielded ids are exactly the tree's ids, parent
        first; leave visits the same set as enter.
     I  (models/Interleave.v) the children of a Call / ClassDef head - two AST lists that interleave in the source -
        merged by (line, column): the merge contains the elements of both lists each once, is in position order, and a
        list in strict position order is determined by its elements (so this is THE syntax order); tied to
        astutil.syntax_ordered_children by correspondence.
   NOT PROVED: the stepping functions of the six special classes (ClassDef, Call, Dict, Compare, arguments, MatchMapping:
   interleaving by position), step_fwd/step_back, child_path: correspondence / oracle cross-check only. "Text order" of children is a
   property of parser output and is checked by the oracle. *)
From Coq Require Import List String Bool Arith.
From PF Require Import models.Traverse models.Walk gen.TraverseTables proofs.TraverseProofs proofs.WalkProofs models.Interleave proofs.InterleaveProofs models.WalkShallowModes proofs.WalkShallowModesProofs.
From Coq Require Import Sorted Permutation.
Import ListNotations.
Local Open Scope string_scope.

Fixpoint lookup (c : string) (t : list (string * option (list citem))) : option (option (list citem)) :=
  match t with [] => None | (k, v) :: r => if String.eqb c k then Some v else lookup c r end.

Definition entry_ok (d : dir) (e : string * option string * option (list instr)) : bool :=
  let '(cls, f, p) := e in
  match lookup cls children_tbl, p with
  | Some (Some items), Some prog => nodup_fields items && compat d items f prog
  | Some None, _ => true                         (* special class: hand-coded, see header *)
  | _, _ => false
  end.

(* every (class, field) and (class, START/END) of every regular class has an entry *)
Definition covered (tbl : list (string * option string * option (list instr))) (cls : string) (f : option string) : bool :=
  existsb (fun e => let '(c, g, _) := e in String.eqb c cls &&
                    match f, g with None, None => true | Some a, Some b => String.eqb a b | _, _ => false end) tbl.
Definition class_covered (tbl : list (string * option string * option (list instr))) (e : string * option (list citem)) : bool :=
  match snd e with
  | None => true
  | Some items => covered tbl (fst e) None && forallb (fun it => let 'CI f _ := it in covered tbl (fst e) (Some f)) items
  end.

Theorem C14_tables_compatible_and_complete :
  forallb (entry_ok Fwd) next_tbl = true /\ forallb (entry_ok Bwd) prev_tbl = true /\
  forallb (class_covered next_tbl) children_tbl = true /\ forallb (class_covered prev_tbl) children_tbl = true.
Proof. vm_compute. repeat split; reflexivity. Qed.
Print Assumptions C14_tables_compatible_and_complete.

Theorem C14_accepted_program_is_syntax_order_step : forall d items f p o, wf_occ items o -> compat d items f p = true ->
  match f with
  | None => forall idx, exec d p o idx = hd_error (children_dir d items o)
  | Some f => forall idx, idx < o f -> exec d p o idx = succ_in (children_dir d items o) (f, idx)
  end.
Proof. exact compat_sound. Qed.
Print Assumptions C14_accepted_program_is_syntax_order_step.

(* the two together, for the actual tables: every regular (class, field) entry steps in syntax order on every node shape *)
Theorem C14_next_is_successor : forall cls f p items o,
  In (cls, Some f, Some p) next_tbl -> lookup cls children_tbl = Some (Some items) -> wf_occ items o ->
  forall idx, idx < o f -> exec Fwd p o idx = succ_in (children_of items o) (f, idx).
Proof.
  intros cls f p items o Hin Hl Hw idx Hi.
  destruct C14_tables_compatible_and_complete as [H _]. rewrite forallb_forall in H. specialize (H _ Hin).
  unfold entry_ok in H. rewrite Hl in H. apply andb_prop in H. destruct H as [_ H].
  exact (compat_sound Fwd items (Some f) p o Hw H idx Hi).
Qed.
Print Assumptions C14_next_is_successor.

Theorem C14_prev_is_predecessor : forall cls f p items o,
  In (cls, Some f, Some p) prev_tbl -> lookup cls children_tbl = Some (Some items) -> wf_occ items o ->
  forall idx, idx < o f -> exec Bwd p o idx = succ_in (rev (children_of items o)) (f, idx).
Proof.
  intros cls f p items o Hin Hl Hw idx Hi.
  destruct C14_tables_compatible_and_complete as [_ [H _]]. rewrite forallb_forall in H. specialize (H _ Hin).
  unfold entry_ok in H. rewrite Hl in H. apply andb_prop in H. destruct H as [_ H].
  exact (compat_sound Bwd items (Some f) p o Hw H idx Hi).
Qed.
Print Assumptions C14_prev_is_predecessor.

Theorem C14_walk_enter_is_preorder : forall t, walk_enter false true t = pre t.
Proof. exact walk_enter_preorder. Qed.
Print Assumptions C14_walk_enter_is_preorder.

Theorem C14_walk_back_reverses_siblings_only : forall t, walk_enter true true t = pre (mirror t).
Proof. exact walk_enter_back_is_mirror_preorder. Qed.
Print Assumptions C14_walk_back_reverses_siblings_only.

Theorem C14_walk_leave_is_postorder : forall t, walk_leave false t = post t.
Proof. exact walk_leave_postorder. Qed.
Print Assumptions C14_walk_leave_is_postorder.

Theorem C14_walk_both_brackets : forall t, walk_both false t = both t.
Proof. exact walk_both_brackets. Qed.
Print Assumptions C14_walk_both_brackets.

Theorem C14_walk_norecurse_is_one_level : forall back t,
  walk_enter back false t = ((if let 'RNode _ ok _ := t in ok then [rid t] else []) ++
    flat_map (fun k => match k with Some (RNode i true _) => [i] | _ => [] end) (ord back (rkids t)))%list.
Proof. exact walk_norecurse. Qed.
Print Assumptions C14_walk_norecurse_is_one_level.

Theorem C14_walk_all_yields_exactly_the_nodes : forall t, all_ok t = true -> walk_enter false true t = ids t.
Proof. intros t H. rewrite walk_enter_preorder. now apply pre_all_is_ids. Qed.
Print Assumptions C14_walk_all_yields_exactly_the_nodes.

Theorem C14_leave_visits_same_set : forall t x, In x (walk_leave false t) <-> In x (walk_enter false true t).
Proof. intros t x. rewrite walk_leave_postorder, walk_enter_preorder. apply post_is_permutation_of_pre. Qed.
Print Assumptions C14_leave_visits_same_set.

Theorem C14_interleaved_children_are_both_lists_each_once : forall l1 l2, Permutation (merge l1 l2) (l1 ++ l2).
Proof. exact merge_perm. Qed.
Print Assumptions C14_interleaved_children_are_both_lists_each_once.

Theorem C14_interleaved_children_are_in_position_order : forall l1 l2,
  Sorted InterleaveProofs.le l1 -> Sorted InterleaveProofs.le l2 -> Sorted InterleaveProofs.le (merge l1 l2).
Proof. exact merge_sorted. Qed.
Print Assumptions C14_interleaved_children_are_in_position_order.

Theorem C14_position_order_is_unique : forall l l', Sorted InterleaveProofs.lt l -> Sorted InterleaveProofs.lt l' -> Permutation l l' -> l = l'.
Proof. exact strictly_sorted_unique. Qed.
Print Assumptions C14_position_order_is_unique.

Example C14_nonvacuous :
  let t := RNode 0 true [Some (RNode 1 true [Some (RNode 2 false []); None]); Some (RNode 3 true [])] in
  walk_enter false true t = [0; 1; 3] /\ walk_enter true true t = [0; 3; 1] /\ walk_leave false t = [1; 3; 0] /\
  walk_both false t = [(0, false); (1, false); (1, true); (3, false); (3, true); (0, true)] /\
  exec Fwd [IdxStep "body"; EndOf "orelse"; RetNone] (fun f => if String.eqb f "body" then 2 else 1) 1 = Some ("orelse", 0).
Proof. vm_compute. repeat split; reflexivity. Qed.

(* ---- on='leave' / on='both' without recursion (models/WalkShallowModes.v) ---- *)
Theorem C14_both_with_recursion_is_the_loop_already_proved : forall back t, walk_both_r back true t = walk_both back t.
Proof. exact walk_both_r_true. Qed.
Print Assumptions C14_both_with_recursion_is_the_loop_already_proved.

Theorem C14_both_without_recursion_enters_and_leaves_the_accepted_children_only : forall back t,
  walk_both_r back false t
  = let 'RNode i ok kids := t in ((if ok then [(i, false)] else []) ++ level_both (ord back kids) ++ (if ok then [(i, true)] else []))%list.
Proof. exact walk_both_shallow. Qed.
Print Assumptions C14_both_without_recursion_enters_and_leaves_the_accepted_children_only.

Theorem C14_leave_without_recursion_yields_the_accepted_children_then_the_root : forall back t,
  walk_leave_r back false t = let 'RNode i ok kids := t in (level (ord back kids) ++ (if ok then [i] else []))%list.
Proof. exact walk_leave_shallow. Qed.
Print Assumptions C14_leave_without_recursion_yields_the_accepted_children_then_the_root.

Theorem C14_the_three_modes_agree_on_one_level : forall (kids : list (option rtree)) f back, List.length kids <= f ->
  run_enter f back false kids = level kids
  /\ map fst (filter (fun e => negb (snd e)) (level_both kids)) = level kids
  /\ map fst (filter (fun e => snd e) (level_both kids)) = level kids.
Proof. intros kids f back H. repeat split; [now apply run_enter_level | apply level_both_entries | apply level_both_leaves]. Qed.
Print Assumptions C14_the_three_modes_agree_on_one_level.
