(* C12 - A failed edit leaves the target tree untouched and still editable.

   FULL STATEMENT: if a structured edit raises, the target tree's source, structure and positions are exactly what
   they were; no internal modification lock or half-applied change survives; the next valid edit on the same tree
   succeeds and the tree still satisfies C01.

   PROVED HERE over models/Registry.v (hand model of _MODIFYING / _Modifying.enter/success/fail) and the regenerated
   list of call sites (gen/ModSites.v): for EVERY nest of modification blocks with refusals and exceptions anywhere,
   the registry is (observationally) what it was; from idle it ends idle; a refused enter changes nothing; the next
   edit of any node is admitted; every call site in the source is a `with` item or the guarded manual protocol.
   NOT PROVED: validate-before-mutate inside the hundreds of handler raise sites - no model; decided by the
   fault-sequence cross-check in py/props/C12.py (partial). *)
From Coq Require Import List String Bool Arith.
From PF Require Import gen.ModSites models.Registry proofs.RegistryProofs.
Import ListNotations.

Theorem C12_registry_restored_by_any_block_nest : forall l g, wf g -> req (fst (run_items g l)) g.
Proof. exact reg_bracket. Qed.
Print Assumptions C12_registry_restored_by_any_block_nest.

Theorem C12_no_lock_survives : forall l r, rget (fst (run_items [] l)) r = None.
Proof. exact reg_ends_empty. Qed.
Print Assumptions C12_no_lock_survives.

Theorem C12_refused_enter_is_pure : forall g r n f, enter g r n f = None -> rstep g (REnter r n f) = (g, false).
Proof. exact reg_reject_pure. Qed.
Print Assumptions C12_refused_enter_is_pure.

Theorem C12_next_edit_admitted : forall l r n f, exists g', enter (fst (run_items [] l)) r n f = Some g'.
Proof. exact reg_next_edit. Qed.
Print Assumptions C12_next_edit_admitted.

Definition site_ok (s : string * nat * string) : bool :=
  let k := snd s in (String.eqb k "with" || String.eqb k "manual_guarded" || String.eqb k "def")%bool.

(* finite obligation over the regenerated call-site list: every use of the modification context is released on
   both the normal and the exceptional path *)
Theorem C12_all_sites_bracketed : forallb site_ok mod_sites = true.
Proof. vm_compute. reflexivity. Qed.
Print Assumptions C12_all_sites_bracketed.

Example C12_nonvacuous :
  let l := [Blk 1 10 false [Blk 1 10 false [] false; Blk 1 11 false [] false; Blk 2 20 false [] true] false] in
  run_items [] l = ([], true) /\ wf [] /\ enter [(1, (10, 1))] 1 11 false = None.
Proof. split; [reflexivity|split; [intros ? ? ? E; discriminate|reflexivity]]. Qed.
