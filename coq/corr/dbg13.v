From Coq Require Import List Bool Arith.
From PF Require Import models.Reconcile.
Import ListNotations.
Eval vm_compute in (reconcile (RT (Some 0) 1 [RT (Some 1) 2 [RT (Some 2) 3 [RT (Some 3) 4 []; RT (Some 4) 5 []; RT (Some 5) 6 []; RT (Some 6) 7 []]; RT (Some 7) 8 [RT (Some 8) 9 []]]; RT (Some 9) 10 [RT (Some 10) 11 []; RT (Some 11) 12 [RT (Some 12) 9 []; RT (Some 13) 13 []; RT (Some 14) 14 []]]]) (RT (Some 0) 1 [RT (Some 1) 2 [RT (Some 2) 3 [RT (Some 3) 4 []; RT (Some 4) 5 []; RT (Some 5) 6 []; RT (Some 6) 7 []]; RT (Some 7) 8 [RT (Some 8) 9 []]]; RT (Some 9) 10 [RT (Some 10) 11 []; RT (Some 11) 12 [RT (Some 12) 9 []; RT None 15 []; RT (Some 14) 14 []]]])).
