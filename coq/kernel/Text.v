(* K1: the text algebra of fst_core.py:_get_src / _put_src.  Hand model (tied to the code by correspondence in
   py/props/C11.py & C04.py); positions are (line, char column) naturals as in FST coordinates. Definitions only. *)
From Coq Require Import ZArith NArith List Bool Lia.
From PF Require Import kernel.PyBase.
Import ListNotations.
Local Open Scope nat_scope.

Definition NL : N := 10%N.
Definition lineAt (L : pytext) (i : nat) : pyline := nth i L [].

(* '\n'.join(lines) *)
Fixpoint flat (L : pytext) : list N :=
  match L with
  | [] => []
  | [l] => l
  | l :: r => l ++ NL :: flat r
  end.

(* flat character offset of (ln, col) *)
Fixpoint off (L : pytext) (ln col : nat) : nat :=
  match ln, L with
  | 0, _ => col
  | S n, l :: r => length l + 1 + off r n col
  | S n, [] => col
  end.

(* _get_src(..., as_lines=True) *)
Definition get_src (L : pytext) (ln col eln ecol : nat) : pytext :=
  if Nat.eqb eln ln then [firstn (ecol - col) (skipn col (lineAt L ln))]
  else skipn col (lineAt L ln) :: firstn (eln - ln - 1) (skipn (S ln) L) ++ [firstn ecol (lineAt L eln)].

(* Python slice assignment  lines[a:b] = new  for a <= b <= len *)
Definition set_range {A} (l : list A) (a b : nat) (new : list A) : list A := firstn a l ++ new ++ skipn b l.
Definition set_nth {A} (l : list A) (i : nat) (x : A) : list A := firstn i l ++ x :: skipn (S i) l.

(* _put_src text part: branch by branch as in the source (is_del / 1 new line / same line / multi) *)
Definition put_src (L : pytext) (P : option pytext) (ln col eln ecol : nat) : pytext :=
  match P with
  | None =>  (* delete *)
      if negb (Nat.eqb eln ln) then set_range L ln (S eln) [firstn col (lineAt L ln) ++ skipn ecol (lineAt L eln)]
      else if negb (Nat.eqb ecol col) then set_nth L ln (firstn col (lineAt L ln) ++ skipn ecol (lineAt L ln))
      else L
  | Some put =>
      match put with
      | [] => L   (* never passed by the code: put_lines always has at least one line *)
      | [p0] =>
          if Nat.eqb eln ln then set_nth L ln (firstn col (lineAt L ln) ++ p0 ++ skipn ecol (lineAt L ln))
          else set_range L ln (S eln) [firstn col (lineAt L ln) ++ p0 ++ skipn ecol (lineAt L eln)]
      | p0 :: rest =>
          if Nat.eqb eln ln then
            (* lend = put[-1] + l[end_col:]; lines[ln] = l[:col] + put[0]; insert put[1:] after; last inserted = lend *)
            let l := lineAt L ln in
            let lend := last rest [] ++ skipn ecol l in
            let L1 := set_nth L ln (firstn col l ++ p0) in
            let L2 := set_range L1 (S ln) (S ln) rest in
            set_nth L2 (ln + length put - 1) lend
          else
            let L1 := set_nth L ln (firstn col (lineAt L ln) ++ p0) in
            let L2 := set_nth L1 eln (last rest [] ++ skipn ecol (lineAt L eln)) in
            set_range L2 (S ln) eln (removelast rest)
      end
  end.

(* the single algebraic description all five branches must equal *)
Definition glue (x : pyline) (put : pytext) (y : pyline) : pytext :=
  match put with
  | [] => [x ++ y]
  | [p] => [x ++ p ++ y]
  | p :: rest => (x ++ p) :: removelast rest ++ [last rest [] ++ y]
  end.

Definition put_spec (L : pytext) (put : pytext) (ln col eln ecol : nat) : pytext :=
  firstn ln L ++ glue (firstn col (lineAt L ln)) put (skipn ecol (lineAt L eln)) ++ skipn (S eln) L.

Definition put_lines_of (P : option pytext) : pytext := match P with None => [[]] | Some p => p end.

(* a location is valid for L when both lines exist, columns are inside their lines and start <= end *)
Definition valid_loc (L : pytext) (ln col eln ecol : nat) : Prop :=
  ln <= eln /\ eln < length L /\ col <= length (lineAt L ln) /\ ecol <= length (lineAt L eln) /\ (eln = ln -> col <= ecol).

(* character columns <-> byte columns on one line (astutil.bistr.c2b); the general lemmas live in Bistr.v *)
Definition c2b (l : pyline) (c : nat) : nat := blen_nat (firstn c l).
