(* Vocabulary for the _offset model: tri-state flags, node positions (AST coordinates: 1-based line, byte column),
   loop control outcome of the per-node rule. *)
From Coq Require Import ZArith List Bool.
Import ListNotations.

Inductive tri := TTrue | TFalse | TNone.
Definition tri_eqb (a b : tri) : bool :=
  match a, b with TTrue, TTrue | TFalse, TFalse | TNone, TNone => true | _, _ => false end.

(* lineno, col_offset, end_lineno, end_col_offset *)
Definition npos := (Z * Z * Z * Z)%type.
Inductive ctl := Break | Continue | Fall.
