(* Vocabulary for the precedence tables: a table value is a level, or the Python sentinels False / True. *)
From Coq Require Import List String Bool Arith.
Import ListNotations.

Inductive pv := PNum (n : nat) | PFalse | PTrue.
Definition pv_truthy (p : pv) : bool := match p with PFalse => false | PNum 0 => false | _ => true end.
Definition pv_is_true (p : pv) : bool := match p with PTrue => true | _ => false end.
(* `a < b` on levels; comparing a level with True/False cannot happen on the paths that reach the comparison *)
Definition pv_lt (a b : pv) : option bool := match a, b with PNum x, PNum y => Some (Nat.ltb x y) | _, _ => None end.

Record flags := { flag_dict_key_None : bool; flag_matchas_pat_None : bool; flag_attr_val_int : bool; flag_arglike : bool }.
Definition no_flags := {| flag_dict_key_None := false; flag_matchas_pat_None := false; flag_attr_val_int := false; flag_arglike := false |}.
