(* Base vocabulary shared by translated and hand-written models.
   Code points are N; a line is a list of code points; a text is a list of lines. *)
From Coq Require Import ZArith NArith List Bool.
Import ListNotations.
Local Open Scope Z_scope.

Inductive idx := End | Ix (z : Z).

Definition pyline := list N.
Definition pytext := list pyline.

(* UTF-8 width of a code point, as str.encode() computes it (surrogates cannot be encoded; never generated) *)
Definition u8w (c : N) : nat :=
  if (c <? 128)%N then 1%nat else if (c <? 2048)%N then 2%nat else if (c <? 65536)%N then 3%nat else 4%nat.

Fixpoint blen_nat (l : pyline) : nat :=
  match l with [] => 0%nat | c :: r => (u8w c + blen_nat r)%nat end.

Definition blen (l : pyline) : Z := Z.of_nat (blen_nat l).

(* Python list indexing with an int (negative counts from the end); out of range is [] (Python raises; the
   theorems that use it carry the in-range guard) *)
Definition py_line (L : pytext) (i : Z) : pyline :=
  let n := Z.of_nat (length L) in
  let j := if i <? 0 then i + n else i in
  if (j <? 0) || (j >=? n) then [] else nth (Z.to_nat j) L [].

(* s[:k] for k >= 0 clips at len; negative k counts from the end *)
Definition py_prefix (l : pyline) (k : Z) : pyline :=
  let n := Z.of_nat (length l) in
  let j := if k <? 0 then Z.max 0 (k + n) else k in
  firstn (Z.to_nat j) l.
