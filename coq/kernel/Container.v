(* Layer-A abstract container semantics: what a slice put / single put / delete on a list-like field MEANS.
   Written from the Python language reference (list slice assignment), independent of pfst. Definitions only. *)
From Coq Require Import ZArith List Bool Lia.
Import ListNotations.
Local Open Scope Z_scope.

Section ListSpec.
  Context {A : Type}.

  (* Python's normalisation of one slice bound against a length (slice.indices with step 1) *)
  Definition py_clamp (len a : Z) : Z :=
    if a <? 0 then Z.max 0 (a + len) else Z.min a len.

  (* old[:s] + new + old[e:]   (s, e already normalised, as naturals) *)
  Definition put_slice_spec (old : list A) (s e : nat) (new : list A) : list A :=
    firstn s old ++ new ++ skipn e old.

  Definition get_slice_spec (old : list A) (s e : nat) : list A :=
    firstn (e - s) (skipn s old).

  Definition del_slice_spec (old : list A) (s e : nat) : list A := put_slice_spec old s e [].

  (* Python `l[a:b] = new` for arbitrary ints: when the normalised stop precedes the start, Python inserts at start *)
  Definition py_setslice (old : list A) (a b : Z) (new : list A) : list A :=
    let len := Z.of_nat (length old) in
    let s := py_clamp len a in
    let e := Z.max s (py_clamp len b) in
    put_slice_spec old (Z.to_nat s) (Z.to_nat e) new.

  (* single element forms, all expressed through put_slice_spec *)
  Definition replace_spec (old : list A) (i : nat) (x : A) := put_slice_spec old i (S i) [x].
  Definition remove_spec (old : list A) (i : nat) := put_slice_spec old i (S i) [].
  Definition insert_spec (old : list A) (i : nat) (x : A) := put_slice_spec old i i [x].
  Definition append_spec (old : list A) (x : A) := put_slice_spec old (length old) (length old) [x].
  Definition extend_spec (old : list A) (xs : list A) := put_slice_spec old (length old) (length old) xs.

  (* Python list[i] index normalisation: Some real index or None (IndexError) *)
  Definition py_index (len i : Z) : option Z :=
    if (i <? - len) || (i >=? len) then None else Some (if i <? 0 then i + len else i).
End ListSpec.

(* A view onto a list field: window [start, stop) with optional fixed stop, healing as in view.py *)
Record view := { v_start : nat; v_stop : option nat }.

Definition view_indices (len : nat) (v : view) : nat * nat :=
  let stop := match v_stop v with None => len | Some s => Nat.min s len end in
  let start := Nat.min (v_start v) stop in
  (start, stop).

Definition view_items {A} (l : list A) (v : view) : list A :=
  let '(s, e) := view_indices (length l) v in firstn (e - s) (skipn s l).
