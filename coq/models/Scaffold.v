(* K1b: the text the statement-level raw reparse works on when the statement starts at column 0 below other lines
   (fst_raw.py:_reparse_raw_stmtlike, `copy_lines = [bistr('')] * pln + lines[pln : pend_ln + 1]`): the lines above the
   statement are BLANKED, the statement's own lines kept in place so that the positions of the reparsed nodes are already
   right.  For a ROOT statement the kept part reaches to the end of the source, which is exactly `scaffold`.  The edit is then
   put into this copy with the same coordinates as into the real source.  Definitions only. *)
From Coq Require Import List NArith.
From PF Require Import kernel.PyBase kernel.Text.
Import ListNotations.

Definition scaffold (L : pytext) (pln : nat) : pytext := repeat [] pln ++ skipn pln L.

(* is there any text at all in the first n lines *)
Definition blank_above (L : pytext) (n : nat) : bool := forallb (fun l => match l with [] => true | _ => false end) (firstn n L).
