(* C13: reconcile.py Reconcile.recurse_slice at the level of the list it rebuilds. `body` is the edited list; every element
   has an identity and, if it still carries formatting, the place it comes from in the marked tree: (parent, index) and
   whether that parent / field is the very list being rebuilt (own). The loop walks the edited list: an element that can
   be taken as part of a formatted slice (it has a source place, and either it is not an own child already at its
   position, or - coming from elsewhere - its slice kind is compatible) starts a maximal run of consecutive source
   indices of the same parent, which is put over out[start:end] in ONE slice operation; any other element is handled
   alone: inserted if the output is too short, then recursed into at its position. Finally the output's tail is
   deleted. Elements from another tree (verified first, with fall back) are not modelled. The operations performed are
   recorded. Hand model, tied to the code by correspondence (py/props/C13.py stage_slice_replay: the put_slice calls
   real reconcile() makes on list edits vs the model's operations). Definitions only. *)
From Coq Require Import List Bool Arith.
Import ListNotations.

Record elem := { eid : nat; src : option (nat * nat); own : bool; compat : bool }.   (* src = (parent, index in the marked tree) *)

Inductive op := PutSlice (s e : nat) | InsertOne (i : nat) | Recurse (i : nat) | DelTail (s : nat).

Definition no_slice (x : elem) (start : nat) : bool :=
  match src x with
  | None => true
  | Some (_, j) => if own x then Nat.eqb j start else negb (compat x)
  end.

(* the end of the maximal run that starts at body[start] = x : following elements with the same parent and consecutive indices *)
Fixpoint run_end (p j : nat) (rest : list elem) (pos : nat) : nat :=
  match rest with
  | y :: r => match src y with
              | Some (p', j') => if Nat.eqb p' p && Nat.eqb j' (S j) then run_end p (S j) r (S pos) else pos
              | None => pos
              end
  | [] => pos
  end.

Definition set_nth (i v : nat) (l : list nat) : list nat := firstn i l ++ match skipn i l with [] => [] | _ :: r => v :: r end.

(* one outer iteration at `start` over the remaining elements; returns the new output, the operations and how many elements were consumed *)
Definition step (rest : list elem) (start : nat) (out : list nat) : list nat * list op * nat :=
  match rest with
  | [] => (out, [], 0)
  | x :: r =>
      if no_slice x start then
        let '(out1, ops1) := if Nat.leb (length out) start then (firstn start out ++ [eid x] ++ skipn start out, [InsertOne start]) else (out, []) in
        (set_nth start (eid x) out1, ops1 ++ [Recurse start], 1)
      else
        match src x with
        | Some (p, j) =>
            let e := run_end p j r (S start) in
            let k := e - start in
            let ids := map eid (firstn k rest) in
            (firstn start out ++ ids ++ skipn e out, PutSlice start e :: map Recurse (seq start k), k)
        | None => (out, [], 1)      (* not reached: no_slice is true without a source *)
        end
  end.

Fixpoint replay (fuel : nat) (rest : list elem) (start : nat) (out : list nat) : list nat * list op :=
  match fuel with
  | 0 => (out, [])
  | S f =>
      match rest with
      | [] => if Nat.ltb start (length out) then (firstn start out, [DelTail start]) else (out, [])
      | _ =>
          let '(out1, ops1, k) := step rest start out in
          let '(out2, ops2) := replay f (skipn k rest) (start + k) out1 in
          (out2, ops1 ++ ops2)
      end
  end.

Definition recurse_slice (body : list elem) (out : list nat) : list nat * list op := replay (S (length body)) body 0 out.
