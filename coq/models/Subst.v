(* K10: substitution (match.py subn/sub, C18) on rose trees. The pattern is any node predicate; the template is a tree
   whose leaves may be slots: the whole matched node, or the i-th child of the matched node (a single-node capture).
   Non-nested: every outermost match is replaced by the filled template and the walk does not enter the replacement.
   Nested: the walk enters the replacement; nodes that come from the template itself are never substituted (they are
   "dirty"), nor is the top node of a whole-match copy, but captured copies and the children of the whole-match copy are.
   `sub`/`subn` return the new tree, `cnt`/`cntn` the number of substitutions performed. Hand model tied to FST.subn by
   correspondence (py/props/C18.py). Definitions only. *)
From Coq Require Import List Bool Arith.
Import ListNotations.

Inductive tr := Nd (label : nat) (kids : list tr).
Inductive tmpl := TNode (label : nat) (kids : list tmpl) | TWhole | TKid (i : nat).

Definition tkids (t : tr) := let 'Nd _ k := t in k.
Definition dummy := Nd 0 [].

Fixpoint fill (tm : tmpl) (t : tr) : tr :=
  match tm with
  | TNode l ks => Nd l (map (fun k => fill k t) ks)
  | TWhole => t
  | TKid i => nth i (tkids t) dummy
  end.

Section Sub.
  Variable p : tr -> bool.
  Variable tm : tmpl.

  Fixpoint sub (t : tr) : tr :=
    if p t then fill tm t else let 'Nd l ks := t in Nd l (map sub ks).

  Fixpoint cnt (t : tr) : nat :=
    if p t then 1 else let 'Nd _ ks := t in fold_right (fun k n => cnt k + n) 0 ks.

  (* nested: the walk enters the replacement but never re-examines its root (that is what `loop` is for), nor any node
     that comes from the template, nor the top node of a whole-match copy; captured copies placed below the template
     root are examined like any other node. subn2 returns (fully processed tree, tree with only its children processed) *)
  Fixpoint subn2 (t : tr) : tr * tr :=
    let 'Nd l ks := t in
    let rs := map subn2 ks in
    let kept := Nd l (map fst rs) in
    let full :=
      if p t then
        match tm with
        | TWhole => kept
        | TKid i => snd (nth i rs (dummy, dummy))        (* the capture becomes the root of the replacement *)
        | TNode l' ms =>
            Nd l' (map (fix filln (m : tmpl) : tr :=
                          match m with
                          | TNode l2 ms2 => Nd l2 (map filln ms2)
                          | TWhole => kept
                          | TKid i => fst (nth i rs (dummy, dummy))
                          end) ms)
        end
      else kept in
    (full, kept).

  Definition subn (t : tr) : tr := fst (subn2 t).

  (* all outermost matches, in walk order *)
  Fixpoint outermost (t : tr) : list tr :=
    if p t then [t] else let 'Nd _ ks := t in flat_map outermost ks.

  (* no node of t matches *)
  Fixpoint nomatch (t : tr) : bool :=
    negb (p t) && let 'Nd _ ks := t in forallb nomatch ks.
End Sub.

Fixpoint tr_eqb (a b : tr) : bool :=
  let 'Nd l k := a in let 'Nd m k' := b in
  Nat.eqb l m && (fix go (x y : list tr) : bool := match x, y with [] , [] => true | u :: x', v :: y' => tr_eqb u v && go x' y' | _, _ => false end) k k'.

(* a family of executable predicates for the correspondence: label membership *)
Definition by_label (ls : list nat) (t : tr) : bool := let 'Nd l _ := t in existsb (Nat.eqb l) ls.
