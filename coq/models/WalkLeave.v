(* C15: the loops of fst_traverse.py walk() for on='leave' and on='both', on a tree that is not being modified, with the
   caller's send() decisions. The stack holds nodes still to be ENTERED (pushed as AST objects in the code) and nodes whose
   children have been queued and that are ready to be yielded on LEAVING (pushed as FST objects). A decision is what the
   caller sent at a yield: None (nothing), Some false, Some true; an exhausted decision list answers None.
   on='leave': a node is yielded when popped as "leaving" (a node without children at once); send(True) at that yield
   queues the node again behind its children: they are walked again and the node is yielded again.
   on='both': a node is yielded as (n, false) when entered - send(False) there skips its children, it is still left -
   and as (n, true) when left; send(True) on leaving enters it again.
   Hand model, tied to the code by correspondence (py/props/C15.py stage_resend drives the real generator and the model
   with the same decision lists). Definitions only. *)
From Coq Require Import List Bool Arith.
Import ListNotations.

Inductive tree := Node (a : nat) (cs : list tree).

Definition label (t : tree) : nat := match t with Node a _ => a end.
Definition children (t : tree) : list tree := match t with Node _ cs => cs end.

Fixpoint size (t : tree) : nat := match t with Node _ cs => S (fold_right (fun c n => size c + n) 0 cs) end.
Definition sizes (cs : list tree) : nat := fold_right (fun c n => size c + n) 0 cs.

(* the specifications: bottom-up order, and entry/exit brackets *)
Fixpoint post (t : tree) : list nat := match t with Node a cs => flat_map post cs ++ [a] end.
Fixpoint bracket (t : tree) : list (nat * bool) := match t with Node a cs => (a, false) :: flat_map bracket cs ++ [(a, true)] end.

Inductive item := E (t : tree) | L (t : tree).
Definition dec := option bool.
Definition next_dec (ds : list dec) : dec * list dec := match ds with d :: r => (d, r) | [] => (None, []) end.
Definition is_true (d : dec) : bool := match d with Some true => true | _ => false end.
Definition is_false (d : dec) : bool := match d with Some false => true | _ => false end.

(* ---- on='leave' ---- *)
Definition lstep (stk : list item) (ds : list dec) (out : list nat) : list item * list dec * list nat :=
  match stk with
  | [] => ([], ds, out)
  | E t :: st =>
      match children t with
      | [] => let '(d, ds') := next_dec ds in ((if is_true d then [L t] else []) ++ st, ds', out ++ [label t])
      | cs => (map E cs ++ L t :: st, ds, out)
      end
  | L t :: st =>
      let '(d, ds') := next_dec ds in
      ((if is_true d then map E (children t) ++ [L t] else []) ++ st, ds', out ++ [label t])
  end.

Fixpoint lrun (fuel : nat) (stk : list item) (ds : list dec) (out : list nat) : option (list nat * list dec) :=
  match stk with
  | [] => Some (out, ds)
  | _ => match fuel with
         | 0 => None
         | S f => let '(stk', ds', out') := lstep stk ds out in lrun f stk' ds' out'
         end
  end.

(* loop iterations a quiet walk of t takes *)
Fixpoint lsteps (t : tree) : nat :=
  match t with Node _ cs => match cs with [] => 1 | _ => S (S (fold_right (fun c n => lsteps c + n) 0 cs)) end end.
Definition lstepss (cs : list tree) : nat := fold_right (fun c n => lsteps c + n) 0 cs.

(* ---- on='both' ---- *)
Definition bstep (stk : list item) (ds : list dec) (out : list (nat * bool)) : list item * list dec * list (nat * bool) :=
  match stk with
  | [] => ([], ds, out)
  | E t :: st =>
      let '(d, ds') := next_dec ds in
      ((if is_false d then [] else map E (children t)) ++ L t :: st, ds', out ++ [(label t, false)])
  | L t :: st =>
      let '(d, ds') := next_dec ds in
      ((if is_true d then [E t] else []) ++ st, ds', out ++ [(label t, true)])
  end.

Fixpoint brun (fuel : nat) (stk : list item) (ds : list dec) (out : list (nat * bool)) : option (list (nat * bool) * list dec) :=
  match stk with
  | [] => Some (out, ds)
  | _ => match fuel with
         | 0 => None
         | S f => let '(stk', ds', out') := bstep stk ds out in brun f stk' ds' out'
         end
  end.

(* no send(True) among the first n decisions / no send at all among them *)
Definition quiet (n : nat) (ds : list dec) : Prop := Forall (fun d => is_true d = false) (firstn n ds).
Definition silent (n : nat) (ds : list dec) : Prop := Forall (fun d => d = None) (firstn n ds).
