(* K2: the intended position map (spec) of _offset, the hand model of its tree walk with early exits, and span trees.
   The per-node rule `offset_node` itself is TRANSLATED (gen/OffsetNode.v). Definitions only. *)
From Coq Require Import ZArith List Bool.
From PF Require Import kernel.OffsetBase gen.OffsetNode.
Import ListNotations.
Local Open Scope Z_scope.

(* lexicographic order on (line, col) *)
Definition pos_lt (l1 c1 l2 c2 : Z) : bool := (l1 <? l2) || ((l1 =? l2) && (c1 <? c2)).
Definition pos_le (l1 c1 l2 c2 : Z) : bool := (l1 <? l2) || ((l1 =? l2) && (c1 <=? c2)).

Definition is_fwd (dln dcol : Z) : bool := (dln >? 0) || ((dln =? 0) && (dcol >=? 0)).

(* may an END point lying exactly on the offset point move?  (docstring table of _offset) *)
Definition end_moves_at (tail head : tri) (fwd zero_len : bool) : bool :=
  (tri_eqb tail TTrue && (fwd || negb (tri_eqb head TFalse) || negb zero_len))
  || (tri_eqb tail TNone && tri_eqb head TTrue && fwd && zero_len).

Definition start_moves_at (tail head : tri) (fwd zero_len : bool) : bool :=
  (tri_eqb head TTrue && (negb fwd || negb (tri_eqb tail TFalse) || negb zero_len))
  || (tri_eqb head TNone && tri_eqb tail TTrue && negb fwd && zero_len).

(* move one point: points strictly after the offset point move by dln lines, and by dcol if they are on its line;
   a point exactly on it moves iff `at_` says so; points before it never move *)
Definition move_point (lno colo dln dcol : Z) (at_ : bool) (l c : Z) : Z * Z :=
  if l >? lno then (l + dln, c)
  else if l =? lno then
    if (c >? colo) || ((c =? colo) && at_) then (l + dln, c + dcol) else (l, c)
  else (l, c).

Definition offset_spec (lno colo dln dcol : Z) (tail head : tri) (n : npos) : npos :=
  let '(l, c, el, ec) := n in
  let zl := (l =? el) && (c =? ec) in
  let fwd := is_fwd dln dcol in
  let '(l', c') := move_point lno colo dln dcol (start_moves_at tail head fwd zl) l c in
  let '(el', ec') := move_point lno colo dln dcol (end_moves_at tail head fwd zl) el ec in
  (l', c', el', ec').

(* ---- span trees: a node may have no position (None), an optional first-decorator line, and children in syntax
   order (None entries allowed, as syntax_ordered_children may return) *)
Inductive stree := SNode (id : nat) (pos : option npos) (deco0 : option Z) (kids : list (option stree)).

Definition s_id (t : stree) := let 'SNode i _ _ _ := t in i.
Definition s_pos (t : stree) := let 'SNode _ p _ _ := t in p.
Definition s_kids (t : stree) := let 'SNode _ _ _ k := t in k.

Section Walk.
  Variables (lno colo dln dcol : Z) (tail head : tri).
  Variable excl : option nat.          (* id of the `exclude` node *)
  Variable offset_excluded : bool.

  (* apply the translated rule to one node: new node + control *)
  Definition node_step (t : stree) : option npos * ctl :=
    match s_pos t with
    | None => (None, Fall)
    | Some p => let '(p', c) := offset_node lno colo dln dcol tail head p (let 'SNode _ _ d _ := t in d) in (Some p', c)
    end.

  (* The two nested stacks of _offset as structural recursion: `walk_list` processes a sibling list from its LAST
     element to its first (stack.pop()); Break abandons the rest of THIS list only (flag `stopped`). *)
  Fixpoint walk_tree (t : stree) : stree * bool (* broke *) :=
    let 'SNode i p d kids := t in
    let is_excl := match excl with Some e => Nat.eqb e i | None => false end in
    if is_excl && negb offset_excluded then (t, false)
    else
      let '(p', c) := node_step t in
      match c with
      | Break => (t, true)
      | Continue => (SNode i p' d kids, false)
      | Fall =>
          if is_excl then (SNode i p' d kids, false)
          else
            (SNode i p' d
               (fst ((fix walk_list (l : list (option stree)) : list (option stree) * bool :=
                   match l with
                   | [] => ([], false)
                   | x :: r =>
                       let '(r', stopped) := walk_list r in
                       if stopped then (x :: r', true)
                       else match x with
                            | None => (None :: r', false)
                            | Some k => let '(k', b) := walk_tree k in (Some k' :: r', b)
                            end
                   end) kids)), false)
      end.
End Walk.

(* ---- the map of the per-node SPEC over the tree (what the walk is supposed to compute) and the order assumption *)
Section MapSpec.
  Variables (lno colo dln dcol : Z) (tail head : tri).
  Variable excl : option nat.
  Variable offset_excluded : bool.

  Fixpoint map_tree (t : stree) : stree :=
    let 'SNode i p d kids := t in
    let is_excl := match excl with Some e => Nat.eqb e i | None => false end in
    if is_excl && negb offset_excluded then t
    else
      let p' := option_map (offset_spec lno colo dln dcol tail head) p in
      if is_excl then SNode i p' d kids
      else SNode i p' d (map (fun k => match k with Some k => Some (map_tree k) | None => None end) kids).
End MapSpec.

Fixpoint all_pos (t : stree) : list npos :=
  let 'SNode _ p _ kids := t in
  (match p with Some q => [q] | None => [] end)
  ++ flat_map (fun k => match k with Some k => all_pos k | None => [] end) kids.

Definition kpos (k : option stree) : list npos := match k with Some t => all_pos t | None => [] end.

Definition end_le (q p : npos) : Prop :=
  let '(_, _, qel, qec) := q in let '(_, _, pel, pec) := p in pos_le qel qec pel pec = true.

Definition lowline (d : option Z) (l : Z) : Z := match d with Some z => Z.min z l | None => l end.

Definition SibOrd (kids : list (option stree)) : Prop :=
  forall A k B pk, kids = A ++ Some k :: B -> s_pos k = Some pk ->
  forall q, In q (flat_map kpos A) -> end_le q pk.

(* The assumption spelled out in the WARNING of _offset: spans are well-formed, children end inside their positioned
   parent and do not start above its first line (first decorator line if decorated), and every node in an earlier
   sibling's sub-tree ends no later than a later positioned sibling ends. *)
Inductive Ordered : stree -> Prop :=
| Ord i p d kids :
    (forall l c el ec, p = Some (l, c, el, ec) ->
       pos_le l c el ec = true /\
       forall q, In q (flat_map kpos kids) -> end_le q (l, c, el, ec) /\ lowline d l <= (let '(ql, _, _, _) := q in ql)) ->
    SibOrd kids ->
    (forall k, In (Some k) kids -> Ordered k) ->
    Ordered (SNode i p d kids).

Definition wf_pos (q : npos) : Prop := let '(l, c, el, ec) := q in pos_le l c el ec = true.

(* ---- top-level entry variants and the two-phase offset of put_src(action='offset') ------------------------------ *)
Section Top.
  Variables (lno colo dln dcol : Z) (tail head : tri).
  Variable excl : option nat.
  Variable offset_excluded : bool.

  Definition walk_kids (kids : list (option stree)) : list (option stree) :=
    fst ((fix walk_list (l : list (option stree)) : list (option stree) * bool :=
            match l with
            | [] => ([], false)
            | x :: r =>
                let '(r', stopped) := walk_list r in
                if stopped then (x :: r', true)
                else match x with
                     | None => (None :: r', false)
                     | Some k => let '(k', b) := walk_tree lno colo dln dcol tail head excl offset_excluded k in (Some k' :: r', b)
                     end
            end) kids).

  (* _offset(..., self_=...) including the early returns *)
  Definition offset_top (self_ : bool) (t : stree) : stree :=
    if (dln =? 0) && (dcol =? 0) then t
    else if self_ then fst (walk_tree lno colo dln dcol tail head excl offset_excluded t)
    else let 'SNode i p d kids := t in
         if match excl with Some e => Nat.eqb e i | None => false end then t
         else SNode i p d (walk_kids kids).
End Top.

Fixpoint apply_at (self : nat) (f : stree -> stree) (t : stree) : stree :=
  let 'SNode i p d kids := t in
  if Nat.eqb self i then f t
  else SNode i p d (map (fun k => match k with Some k => Some (apply_at self f k) | None => None end) kids).

(* put_src(action='offset') on node `self`:  root._offset(P, tail=True, head=False, exclude=self) (inside _put_src), then
   self._offset(P, tail=False, head=True, self_=False) *)
Definition offset_mode (lno colo dln dcol : Z) (self : nat) (t : stree) : stree :=
  apply_at self (offset_top lno colo dln dcol TFalse TTrue None true false)
    (offset_top lno colo dln dcol TTrue TFalse (Some self) true true t).

(* what it is supposed to compute: containers (self, its ancestors, everything not below self) treat the point as
   INSIDE them (end follows, start stays); nodes below self treat it as OUTSIDE (start follows, end stays) *)
Fixpoint mode_map (lno colo dln dcol : Z) (self : nat) (inside : bool) (t : stree) : stree :=
  let 'SNode i p d kids := t in
  let sp := if inside then offset_spec lno colo dln dcol TFalse TTrue else offset_spec lno colo dln dcol TTrue TFalse in
  SNode i (option_map sp p) d
    (map (fun k => match k with Some k => Some (mode_map lno colo dln dcol self (inside || Nat.eqb self i) k) | None => None end) kids).

(* executable helpers for the correspondence check *)
Fixpoint flat_pos (t : stree) : list (option npos) :=
  let 'SNode _ p _ kids := t in
  p :: flat_map (fun k => match k with Some k => flat_pos k | None => [] end) kids.

Definition npos_eqb (a b : npos) : bool :=
  let '(a1, a2, a3, a4) := a in let '(b1, b2, b3, b4) := b in (a1 =? b1) && (a2 =? b2) && (a3 =? b3) && (a4 =? b4).
Fixpoint lpos_eqb (a b : list (option npos)) : bool :=
  match a, b with
  | [], [] => true
  | None :: a', None :: b' => lpos_eqb a' b'
  | Some x :: a', Some y :: b' => npos_eqb x y && lpos_eqb a' b'
  | _, _ => false
  end.

(* ---- single-expression replacement (fst_put_one.py:_make_exprlike_fst), positions part -------------------------
   root._put_src(put, loc, tail=True, head=False, exclude=parent); parent._offset(P, exclude=target, self_=False);
   put_fst._offset(0, 0, ln, dcol0); then the new sub-tree is linked in place of the target. *)
Definition rigid (ln0 dcol0 : Z) (new : stree) : stree :=
  offset_top 1 0 ln0 dcol0 TFalse TTrue None true true new.

Definition expr_replace (lno colo dln dcol : Z) (parent target : nat) (ln0 dcol0 : Z) (new : stree) (t : stree) : stree :=
  apply_at target (fun _ => rigid ln0 dcol0 new)
    (apply_at parent (offset_top lno colo dln dcol TFalse TTrue (Some target) true false)
       (offset_top lno colo dln dcol TTrue TFalse (Some parent) true true t)).

(* rigid move of one span: the standalone tree starts at line 1 column 0 *)
Definition rigid_pos (ln0 dcol0 : Z) (q : npos) : npos :=
  let '(l, c, el, ec) := q in (l + ln0, (if l =? 1 then c + dcol0 else c), el + ln0, (if el =? 1 then ec + dcol0 else ec)).

Fixpoint map_pos (f : npos -> npos) (t : stree) : stree :=
  let 'SNode i p d kids := t in
  SNode i (option_map f p) d (map (fun k => match k with Some k => Some (map_pos f k) | None => None end) kids).

(* all spans of a standalone tree start at or after (1, 0) *)
Definition standalone (t : stree) : Prop := forall q, In q (all_pos t) -> let '(l, c, el, ec) := q in pos_le 1 0 l c = true /\ pos_lt l c el ec = true.
