(* K9: scope membership (fst_traverse walk(scope=True), C16). A node is plain or opens a scope (comprehension or not);
   its children are split into the parts that syntactically sit inside it but belong to the ENCLOSING scope
   (decorators, defaults, annotations, base classes, the first iterable of a comprehension) and the parts that are in
   its own scope. A walrus target inside a comprehension belongs to the comprehension's walk and ALSO to every enclosing
   comprehension up to and including the nearest non-comprehension scope (as the symbol tables list it). `assign` is the declarative rule (one traversal assigning owners); `visit`/`own`
   is the scope-restricted walk as the generator does it (stop at nested scopes, take only their outer parts, hoist
   walrus targets out of comprehensions). Hand model, tied to walk(scope=True) by correspondence. Definitions only. *)
From Coq Require Import List Bool Arith.
Import ListNotations.

Inductive skind := KPlain | KScope (comp : bool).
Inductive snode := SN (id : nat) (k : skind) (walrus : bool) (outer inner : list snode).

Definition sid (t : snode) := let 'SN i _ _ _ _ := t in i.

(* declarative: (node, owning scope) pairs. chain = the current scope followed by the scopes above it that a walrus
   target is also bound/visible in: all enclosing comprehensions up to and including the nearest function-like scope *)
Fixpoint assign (chain : list nat) (t : snode) : list (nat * nat) :=
  let 'SN i k w outer inner := t in
  let here := match chain with
              | [] => []
              | cur :: above => (i, cur) :: (if w then map (pair i) above else [])
              end in
  let chain' := match k with KPlain => chain | KScope true => i :: chain | KScope false => [i] end in
  here ++ flat_map (assign chain) outer ++ flat_map (assign chain') inner.

(* walrus targets reachable without crossing a non-comprehension scope *)
Fixpoint hoisted (t : snode) : list nat :=
  let 'SN i k w outer inner := t in
  (if w then [i] else []) ++ flat_map hoisted outer ++
  (match k with KScope false => [] | _ => flat_map hoisted inner end).

(* the walk inside one scope *)
Fixpoint visit (t : snode) : list nat :=
  let 'SN i k w outer inner := t in
  i :: flat_map visit outer ++
  (match k with
   | KPlain => flat_map visit inner
   | KScope true => flat_map hoisted inner       (* a nested comprehension: only what it hoists *)
   | KScope false => []
   end).

(* walk(scope=True, self_=False) from a scope root *)
Definition own (r : snode) : list nat := let 'SN _ _ _ _ inner := r in flat_map visit inner.

Fixpoint ids (t : snode) : list nat :=
  let 'SN i _ _ outer inner := t in i :: flat_map ids outer ++ flat_map ids inner.

Fixpoint scope_roots (t : snode) : list snode :=
  let 'SN _ k _ outer inner := t in
  (match k with KScope _ => [t] | KPlain => [] end) ++ flat_map scope_roots outer ++ flat_map scope_roots inner.
