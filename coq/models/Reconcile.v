(* K7: the top-down diff-and-replay of reconcile.py (Reconcile.recurse_node / recurse_children), on trees whose nodes
   carry an optional identity: Some k = "this object is node k of the marked tree" (it carries the original
   formatting), None = pure AST (no formatting). The out tree starts as a copy of the mark. For each node of the edited
   tree the algorithm either finds it in place, copies it from the mark, or puts it as unformatted AST, fixes a changed
   primitive label, and recurses into the children (falling back to a wholesale AST put when the child lists cannot be
   paired). Slice moves (recurse_slice's formatting-preserving slice copies) are an optimisation of WHERE the formatting
   comes from and are not modelled: the family used for the correspondence avoids them. Hand model; definitions only. *)
From Coq Require Import List Bool Arith.
Import ListNotations.

Inductive rt := RT (id : option nat) (label : nat) (kids : list rt).

Definition rid (t : rt) := let 'RT i _ _ := t in i.
Definition rlabel (t : rt) := let 'RT _ l _ := t in l.
Definition rkids (t : rt) := let 'RT _ _ k := t in k.

(* structure without identities: what "structurally equal" compares *)
Fixpoint shape (t : rt) : rt := let 'RT _ l k := t in RT None l (map shape k).
(* an AST put: all formatting (identities) lost *)
Definition unfmt := shape.

Definition oid_eqb (a b : option nat) : bool :=
  match a, b with Some x, Some y => Nat.eqb x y | None, None => true | _, _ => false end.

(* the sub-tree of the mark with identity k (first in pre-order) *)
Fixpoint lookup (m : rt) (k : nat) : option rt :=
  let 'RT i _ ks := m in
  if oid_eqb i (Some k) then Some m
  else (fix go (l : list rt) : option rt := match l with [] => None | x :: r => match lookup x k with Some t => Some t | None => go r end end) ks.

(* recurse_node + recurse_children: (new out sub-tree, number of puts); o = out sub-tree currently at this position,
   ff = coming from an in-tree FST parent *)
Fixpoint rec (M w : rt) (o : rt) (ff : bool) {struct w} : rt * nat :=
  match w with
  | RT wid wl wk =>
    let base : rt * nat :=
      match wid with
      | None => if ff then (unfmt w, 1) else (o, 0)
      | Some k => if ff && oid_eqb (rid o) (Some k) then (o, 0)
                  else match lookup M k with Some m => (m, 1) | None => (unfmt w, 1) end
      end in
    let o1 := fst base in
    let n1 := snd base in
    let ff' := match rid o1 with Some _ => true | None => false end in
    let n2 := if Nat.eqb (rlabel o1) wl then n1 else S n1 in
    if Nat.eqb (length (rkids o1)) (length wk) then
      let r := (fix go (ws os : list rt) : list rt * nat :=
                  match ws, os with
                  | w' :: ws', o' :: os' =>
                      let r1 := rec M w' o' ff' in
                      let rs := go ws' os' in
                      (fst r1 :: fst rs, snd r1 + snd rs)
                  | _, _ => ([], 0)
                  end) wk (rkids o1) in
      (RT (rid o1) wl (fst r), n2 + snd r)
    else (unfmt w, S n1)
  end.

Definition reconcile (M w : rt) : rt * nat := rec M w M true.

Fixpoint all_marked (t : rt) : bool :=
  let 'RT i _ k := t in match i with Some _ => forallb all_marked k | None => false end.

Fixpoint rt_eqb (a b : rt) : bool :=
  let 'RT i l k := a in let 'RT j m k' := b in
  oid_eqb i j && Nat.eqb l m &&
  (fix go (x y : list rt) : bool := match x, y with [], [] => true | p :: x', q :: y' => rt_eqb p q && go x' y' | _, _ => false end) k k'.
