(* K11: coercion between expressions and match patterns (code.py: the _coerce_to_pattern_ast_X and _coerce_to_expr_ast_MatchX families),
   on a grammar that covers every construct those functions accept plus an opaque "other expression" node for everything
   they refuse. Names are numbers (0 is the wildcard name `_`). Hand model, tied to FST.as_('pattern') / as_('expr') by
   correspondence (py/props/C19.py). Definitions only. *)
From Coq Require Import List Bool Arith.
Import ListNotations.

Inductive cst := CNum (n : nat) | CStr (n : nat) | CNone | CTrue | CFalse | CEllipsis | CImag (n : nat).
Inductive binop := OAdd | OSub | OBitOr | OOther.

Inductive ex :=
| EName (s : nat)
| EConst (c : cst)
| EAttr (e : ex) (a : nat)
| ESeq (l : list ex)                                    (* List / Tuple / Set *)
| EDict (kvs : list (option ex * ex))                   (* None key = ** value *)
| ECall (f : ex) (args : list ex) (kws : list (option nat * ex))   (* None keyword name = ** *)
| EBin (o : binop) (a b : ex)
| EStar (e : ex)
| ENeg (e : ex)                                          (* unary minus *)
| EOther (k : nat) (kids : list ex).                     (* anything else *)

Inductive pat :=
| PAs (name : option nat) (sub : option pat)            (* capture / wildcard / `p as name` *)
| PValue (e : ex)
| PSingle (c : cst)
| PSeq (l : list pat)
| PMap (keys : list ex) (pats : list pat) (rest : option nat)
| PClass (cls : ex) (ps : list pat) (kwa : list nat) (kwp : list pat)
| POr (l : list pat)
| PStar (name : option nat).

Definition nm (s : nat) : option nat := match s with 0 => None | _ => Some s end.
Definition unnm (o : option nat) : nat := match o with Some s => s | None => 0 end.

(* Attribute chain on a Name other than `_` *)
Fixpoint attr_ok (e : ex) : bool :=
  match e with
  | EAttr (EName s) _ => negb (Nat.eqb s 0)
  | EAttr e' _ => attr_ok e'
  | _ => false
  end.

Definition real_nonneg (e : ex) : bool := match e with EConst (CNum _) => true | _ => false end.
Definition imag_nonneg (e : ex) : bool := match e with EConst (CImag _) => true | _ => false end.

Definition opt_all {A} (l : list (option A)) : option (list A) :=
  fold_right (fun o acc => match o, acc with Some x, Some r => Some (x :: r) | _, _ => None end) (Some []) l.

(* keys of a mapping: Constant as it is, signed numbers / complex / attribute chains after validation *)
Definition key_ok (e : ex) : bool :=
  match e with
  | EConst CEllipsis => false
  | EConst _ => true
  | EAttr _ _ => attr_ok e
  | ENeg o => real_nonneg o || imag_nonneg o
  | EBin OAdd l r | EBin OSub l r => imag_nonneg r && (real_nonneg l || match l with ENeg o => real_nonneg o | _ => false end)
  | _ => false
  end.

Fixpoint e2p (e : ex) : option pat :=
  match e with
  | EName s => Some (PAs (nm s) None)
  | EConst CNone => Some (PSingle CNone)
  | EConst CTrue => Some (PSingle CTrue)
  | EConst CFalse => Some (PSingle CFalse)
  | EConst CEllipsis => None
  | EConst c => Some (PValue e)
  | EAttr _ _ => if attr_ok e then Some (PValue e) else None
  | EStar (EName s) => Some (PStar (nm s))
  | EStar _ => None
  | ENeg o => if real_nonneg o || imag_nonneg o then Some (PValue e) else None
  | EBin OAdd l r | EBin OSub l r =>
      if imag_nonneg r && (real_nonneg l || match l with ENeg o => real_nonneg o | _ => false end) then Some (PValue e) else None
  | EBin OBitOr l r =>
      match r, l with
      | EStar _, _ | _, EStar _ => None
      | _, _ =>
        match e2p r, e2p l with
        | Some pr, Some (POr ps) => Some (POr (ps ++ [pr]))       (* a | b | c : one flat MatchOr *)
        | Some pr, Some pl => Some (POr [pl; pr])
        | _, _ => None
        end
      end
  | EBin OOther _ _ => None
  | ESeq l => option_map PSeq (opt_all (map e2p l))
  | EDict kvs =>
      match (fix go (kvs : list (option ex * ex)) : option (list ex * list pat * option nat) :=
               match kvs with
               | [] => Some ([], [], None)
               | (None, v) :: r =>                                  (* ** must be last, once, a Name other than _ *)
                   match v, r with
                   | EName s, [] => if Nat.eqb s 0 then None else Some ([], [], Some s)
                   | _, _ => None
                   end
               | (Some k, v) :: r =>
                   if key_ok k then
                     match e2p v, go r with
                     | Some q, Some (ks, ps, rest) => Some (k :: ks, q :: ps, rest)
                     | _, _ => None
                     end
                   else None
               end) kvs with
      | Some (ks, ps, rest) => Some (PMap ks ps rest)
      | None => None
      end
  | ECall f args kws =>
      let fok := match f with EName s => negb (Nat.eqb s 0) | EAttr _ _ => attr_ok f | _ => false end in
      if fok && forallb (fun a => match a with EStar _ => false | _ => true end) args
             && forallb (fun kw => match fst kw with Some _ => true | None => false end) kws
      then match opt_all (map e2p args), opt_all (map (fun kw => e2p (snd kw)) kws) with
           | Some ps, Some kps => Some (PClass f ps (map (fun kw => unnm (fst kw)) kws) kps)
           | _, _ => None
           end
      else None
  | EOther _ _ => None
  end.

Fixpoint p2e (p : pat) : option ex :=
  match p with
  | PAs n None => Some (EName (unnm n))
  | PAs _ (Some _) => None
  | PValue e => Some e
  | PSingle c => Some (EConst c)
  | PStar n => Some (EStar (EName (unnm n)))
  | PSeq l => option_map ESeq (opt_all (map p2e l))
  | PMap keys pats rest =>
      match opt_all (map p2e pats) with
      | Some vs => if Nat.eqb (length keys) (length vs)
                   then Some (EDict (combine (map Some keys) vs ++ match rest with Some s => [(None, EName s)] | None => [] end))
                   else None
      | None => None
      end
  | PClass cls ps kwa kwp =>
      match opt_all (map p2e ps), opt_all (map p2e kwp) with
      | Some a, Some k => if Nat.eqb (length kwa) (length k) then Some (ECall cls a (combine (map Some kwa) k)) else None
      | _, _ => None
      end
  | POr l =>
      match opt_all (map p2e l) with
      | Some (a :: r) => Some (fold_left (fun acc x => EBin OBitOr acc x) r a)
      | _ => None
      end
  end.

(* ---- leaves: the names and constants in source order ---- *)
Inductive leaf := LName (s : nat) | LConst (c : cst).

Fixpoint eleaves (e : ex) : list leaf :=
  match e with
  | EName s => [LName s]
  | EConst c => [LConst c]
  | EAttr e' a => eleaves e' ++ [LName a]
  | ESeq l => flat_map eleaves l
  | EDict kvs => flat_map (fun kv => (match fst kv with Some k => eleaves k | None => [] end) ++ eleaves (snd kv)) kvs
  | ECall f args kws => eleaves f ++ flat_map eleaves args ++ flat_map (fun kw => LName (unnm (fst kw)) :: eleaves (snd kw)) kws
  | EBin _ a b => eleaves a ++ eleaves b
  | EStar e' => eleaves e'
  | ENeg e' => eleaves e'
  | EOther _ kids => flat_map eleaves kids
  end.

Fixpoint pleaves (p : pat) : list leaf :=
  match p with
  | PAs n None => [LName (unnm n)]
  | PAs n (Some q) => pleaves q ++ [LName (unnm n)]
  | PValue e => eleaves e
  | PSingle c => [LConst c]
  | PStar n => [LName (unnm n)]
  | PSeq l => flat_map pleaves l
  | PMap keys pats rest =>
      (fix go (ps : list pat) (ks : list ex) {struct ps} : list leaf :=
         match ps, ks with
         | q :: ps', k :: ks' => eleaves k ++ pleaves q ++ go ps' ks'
         | _, _ => []
         end) pats keys ++ match rest with Some s => [LName s] | None => [] end
  | PClass cls ps kwa kwp =>
      eleaves cls ++ flat_map pleaves ps ++
      (fix go (qs : list pat) (ks : list nat) {struct qs} : list leaf :=
         match qs, ks with
         | q :: qs', k :: ks' => LName k :: pleaves q ++ go qs' ks'
         | _, _ => []
         end) kwp kwa
  | POr l => flat_map pleaves l
  end.

(* boolean equalities for the correspondence *)
Definition cst_eqb (a b : cst) : bool :=
  match a, b with
  | CNum x, CNum y | CStr x, CStr y | CImag x, CImag y => Nat.eqb x y
  | CNone, CNone | CTrue, CTrue | CFalse, CFalse | CEllipsis, CEllipsis => true
  | _, _ => false
  end.
Definition leaf_eqb (a b : leaf) : bool :=
  match a, b with LName x, LName y => Nat.eqb x y | LConst x, LConst y => cst_eqb x y | _, _ => false end.
Fixpoint leaves_eqb (a b : list leaf) : bool :=
  match a, b with [], [] => true | x :: a', y :: b' => leaf_eqb x y && leaves_eqb a' b' | _, _ => false end.

(* structural equalities for the correspondence *)
Definition onat_eqb (a b : option nat) : bool := match a, b with Some x, Some y => Nat.eqb x y | None, None => true | _, _ => false end.
Definition binop_eqb (a b : binop) : bool := match a, b with OAdd, OAdd | OSub, OSub | OBitOr, OBitOr | OOther, OOther => true | _, _ => false end.

Fixpoint ex_eqb (a b : ex) : bool :=
  let lst := fix go (x y : list ex) : bool := match x, y with [], [] => true | u :: x', v :: y' => ex_eqb u v && go x' y' | _, _ => false end in
  match a, b with
  | EName x, EName y => Nat.eqb x y
  | EConst x, EConst y => cst_eqb x y
  | EAttr e1 a1, EAttr e2 a2 => ex_eqb e1 e2 && Nat.eqb a1 a2
  | ESeq l1, ESeq l2 => lst l1 l2
  | EDict k1, EDict k2 =>
      (fix go (x y : list (option ex * ex)) : bool :=
         match x, y with
         | [], [] => true
         | (ok1, v1) :: x', (ok2, v2) :: y' =>
             (match ok1, ok2 with Some p, Some q => ex_eqb p q | None, None => true | _, _ => false end) && ex_eqb v1 v2 && go x' y'
         | _, _ => false
         end) k1 k2
  | ECall f1 a1 k1, ECall f2 a2 k2 =>
      ex_eqb f1 f2 && lst a1 a2 &&
      (fix go (x y : list (option nat * ex)) : bool :=
         match x, y with
         | [], [] => true
         | (n1, v1) :: x', (n2, v2) :: y' => onat_eqb n1 n2 && ex_eqb v1 v2 && go x' y'
         | _, _ => false
         end) k1 k2
  | EBin o1 a1 b1, EBin o2 a2 b2 => binop_eqb o1 o2 && ex_eqb a1 a2 && ex_eqb b1 b2
  | EStar e1, EStar e2 => ex_eqb e1 e2
  | ENeg e1, ENeg e2 => ex_eqb e1 e2
  | EOther k1 l1, EOther k2 l2 => Nat.eqb k1 k2 && lst l1 l2
  | _, _ => false
  end.

Fixpoint lex_eqb (x y : list ex) : bool := match x, y with [], [] => true | u :: x', v :: y' => ex_eqb u v && lex_eqb x' y' | _, _ => false end.
Fixpoint lnat_eqb (x y : list nat) : bool := match x, y with [], [] => true | u :: x', v :: y' => Nat.eqb u v && lnat_eqb x' y' | _, _ => false end.

Fixpoint pat_eqb (a b : pat) : bool :=
  let lst := fix go (x y : list pat) : bool := match x, y with [], [] => true | u :: x', v :: y' => pat_eqb u v && go x' y' | _, _ => false end in
  match a, b with
  | PAs n1 s1, PAs n2 s2 => onat_eqb n1 n2 && (match s1, s2 with Some p, Some q => pat_eqb p q | None, None => true | _, _ => false end)
  | PValue e1, PValue e2 => ex_eqb e1 e2
  | PSingle c1, PSingle c2 => cst_eqb c1 c2
  | PSeq l1, PSeq l2 => lst l1 l2
  | PMap k1 p1 r1, PMap k2 p2 r2 => lex_eqb k1 k2 && lst p1 p2 && onat_eqb r1 r2
  | PClass c1 p1 a1 q1, PClass c2 p2 a2 q2 => ex_eqb c1 c2 && lst p1 p2 && lnat_eqb a1 a2 && lst q1 q2
  | POr l1, POr l2 => lst l1 l2
  | PStar n1, PStar n2 => onat_eqb n1 n2
  | _, _ => false
  end.

Definition opat_eqb (a b : option pat) : bool := match a, b with Some x, Some y => pat_eqb x y | None, None => true | _, _ => false end.
Definition oex_eqb (a b : option ex) : bool := match a, b with Some x, Some y => ex_eqb x y | None, None => true | _, _ => false end.
