(* C03: Call.args / Call.keywords (and ClassDef.bases / keywords) are two AST lists whose elements interleave in the source:
   a starred positional argument may follow keywords. pfst edits `keywords` slices through the merged, source-ordered list
   (the virtual field `_args`), mapping keyword index i to merged index i + len(args). This file states when that
   mapping is right and that the guard of _put_slice_Call_ClassDef_keywords refuses exactly the other cases.
   Hand model (a merged list of tags in source order), tied to the code by correspondence (py/props/C03.py
   stage_split_fields: merged order and guard outcome of real calls). Definitions only. *)
From Coq Require Import List Bool Arith.
Import ListNotations.

Inductive tag := A | K.                       (* positional (incl. starred) / keyword, in source order *)

Definition is_a (t : tag) : bool := match t with A => true | K => false end.
Definition is_k (t : tag) : bool := match t with K => true | A => false end.

Definition count_a (l : list tag) : nat := length (filter is_a l).
Definition count_k (l : list tag) : nat := length (filter is_k l).

(* merged index of the i-th keyword; i = number of keywords means "the end" *)
Fixpoint kw_pos (l : list tag) (i : nat) : option nat :=
  match l with
  | [] => match i with 0 => Some 0 | S _ => None end
  | A :: r => option_map S (kw_pos r i)
  | K :: r => match i with 0 => Some 0 | S j => option_map S (kw_pos r j) end
  end.

(* what the code uses *)
Definition mapped (l : list tag) (i : nat) : nat := i + count_a l.

(* the guard: refuse when there is a keyword at index i and it precedes the last positional argument *)
Definition arg_after (l : list tag) (p : nat) : bool := existsb is_a (skipn p l).
Definition guard_refuses (l : list tag) (i : nat) : bool :=
  Nat.ltb i (count_k l) && match kw_pos l i with Some p => arg_after l p | None => false end.

(* list insertion at a merged position, and the keyword list that results *)
Definition insert_at {X} (l : list X) (p : nat) (new : list X) : list X := firstn p l ++ new ++ skipn p l.

(* ---- edits of the `args` / `bases` field itself (_put_slice_Call_args, _put_slice_ClassDef_bases) ----
   They work on the source between positional arguments, so everything they touch must lie in front of the first keyword.
   Guard: refuse when there are keywords and (stop > 0 and args[stop-1] lies behind the first keyword), or (something is
   put by a pure insertion at start = stop < len(args) and args[stop] lies behind the first keyword). *)
Fixpoint lead_a (l : list tag) : nat := match l with A :: r => S (lead_a r) | _ => 0 end.   (* positional arguments in front of the first keyword *)

Fixpoint arg_pos (l : list tag) (i : nat) : option nat :=       (* merged index of the i-th positional argument *)
  match l with
  | [] => None
  | K :: r => option_map S (arg_pos r i)
  | A :: r => match i with 0 => Some 0 | S j => option_map S (arg_pos r j) end
  end.

Definition behind_first_kw (l : list tag) (i : nat) : bool :=
  match arg_pos l i with Some p => Nat.ltb (lead_a l) p | None => false end.

Definition args_guard_refuses (l : list tag) (start stop : nat) (has_code : bool) : bool :=
  Nat.ltb 0 (count_k l) &&
  ((Nat.ltb 0 stop && behind_first_kw l (stop - 1)) ||
   (has_code && Nat.eqb start stop && Nat.ltb stop (count_a l) && behind_first_kw l stop)).
