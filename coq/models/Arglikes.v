(* C03: Call.args / Call.keywords (and ClassDef.bases / keywords) are two AST lists whose elements interleave in the source:
   a starred positional argument may follow keywords. pfst edits `keywords` slices through the merged, source-ordered list
   (the virtual field `_args`), mapping keyword index i to merged index i + len(args). This file states when that
   mapping is right and that the guard of _put_slice_Call_ClassDef_keywords refuses exactly the other cases.
   Hand model (a merged list of tags in source order), tied to the code by correspondence (py/props/C03.py
   stage_split_fields: merged order and guard outcome of real calls). Definitions only. *)
From Coq Require Import List Bool Arith.
Import ListNotations.

Inductive tag := A | K.                       (* positional (incl. starred) / keyword, in source order *)

Definition is_a (t : tag) : bool := match t with A => true | K => false end.
Definition is_k (t : tag) : bool := match t with K => true | A => false end.

Definition count_a (l : list tag) : nat := length (filter is_a l).
Definition count_k (l : list tag) : nat := length (filter is_k l).

(* merged index of the i-th keyword; i = number of keywords means "the end" *)
Fixpoint kw_pos (l : list tag) (i : nat) : option nat :=
  match l with
  | [] => match i with 0 => Some 0 | S _ => None end
  | A :: r => option_map S (kw_pos r i)
  | K :: r => match i with 0 => Some 0 | S j => option_map S (kw_pos r j) end
  end.

(* what the code uses *)
Definition mapped (l : list tag) (i : nat) : nat := i + count_a l.

(* the guard: refuse when there is a keyword at index i and it precedes the last positional argument *)
Definition arg_after (l : list tag) (p : nat) : bool := existsb is_a (skipn p l).
Definition guard_refuses (l : list tag) (i : nat) : bool :=
  Nat.ltb i (count_k l) && match kw_pos l i with Some p => arg_after l p | None => false end.

(* list insertion at a merged position, and the keyword list that results *)
Definition insert_at {X} (l : list X) (p : nat) (new : list X) : list X := firstn p l ++ new ++ skipn p l.
