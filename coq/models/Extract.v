(* K5: the text side of copy / cut (fst_core._make_fst_and_dedent, _dedent_lns, _indent_lns): the copied span is
   kernel.Text.get_src, the remainder of a cut is kernel.Text.put_src / put_spec; the extracted lines are dedented line by
   line. Hand model tied to the code by correspondence (py/props/C07.py traces every _dedent_lns / _indent_lns call made
   by the API). Definitions only. *)
From Coq Require Import List NArith Bool Arith.
From PF Require Import kernel.PyBase kernel.Text.
Import ListNotations.

Definition is_ws (c : N) : bool := N.eqb c 32 || N.eqb c 9.

Fixpoint line_starts_with (p l : pyline) : bool :=
  match p, l with
  | [], _ => true
  | a :: p', b :: l' => N.eqb a b && line_starts_with p' l'
  | _, [] => false
  end.

Fixpoint ws_len (l : pyline) : nat := match l with c :: r => if is_ws c then S (ws_len r) else 0 | [] => 0 end.

(* one line of _dedent_lns: full dedent when the line starts with the dedent string or has at least that much leading
   white space, otherwise as much white space as there is; empty lines are left alone *)
Definition dedent_line (d l : pyline) : pyline :=
  match l with
  | [] => []
  | _ => if line_starts_with d l || Nat.leb (length d) (ws_len l) then skipn (length d) l else skipn (ws_len l) l
  end.

(* the column change _offset_lns applies to the nodes on that line (characters removed) *)
Definition dedent_amount (d l : pyline) : nat :=
  match l with
  | [] => 0
  | _ => if line_starts_with d l || Nat.leb (length d) (ws_len l) then length d else ws_len l
  end.

Definition indent_line (ind l : pyline) : pyline := match l with [] => [] | _ => ind ++ l end.

(* apply f to the lines whose index is in lns *)
Fixpoint map_lns (f : pyline -> pyline) (lns : list nat) (i : nat) (L : pytext) : pytext :=
  match L with
  | [] => []
  | l :: r => (if existsb (Nat.eqb i) lns then f l else l) :: map_lns f lns (S i) r
  end.

Definition dedent_lns (d : pyline) (lns : list nat) (L : pytext) : pytext := map_lns (dedent_line d) lns 0 L.
Definition indent_lns (ind : pyline) (lns : list nat) (L : pytext) : pytext := map_lns (indent_line ind) lns 0 L.

(* copy: the span; cut: the span and the remainder with put_lines in place of the (possibly larger) deleted span *)
Definition copy_text (L : pytext) (ln col eln ecol : nat) : pytext := get_src L ln col eln ecol.
Definition cut_text (L : pytext) (ln col eln ecol : nat) : pytext * pytext :=
  (get_src L ln col eln ecol, put_spec L [] ln col eln ecol).

(* position of an original (line, column) inside the copied text: _offset(copy_ln, copy_col, -copy_ln, -copy_col) *)
Definition shift_pos (ln col : nat) (p : nat * nat) : nat * nat :=
  let '(pl, pc) := p in (pl - ln, if Nat.eqb pl ln then pc - col else pc).

Definition char_at (L : pytext) (p : nat * nat) : option N := nth_error (lineAt L (fst p)) (snd p).
