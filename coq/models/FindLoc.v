(* C06: FST.find_contains_loc (fst.py): the lowest node whose bounding location contains a given span. The code walks the
   DESCENDANTS of the current node in syntax order (the generator of walk(), which can be told to skip the sub-tree of the
   node just yielded): a node that ends at or before the start of the span is passed over (its descendants are still
   visited), a node that starts behind the start of the span ends the search at the current node, a node that starts in
   time but ends too early is skipped with its sub-tree, any other node contains the span and becomes the current node.
   Positions are natural numbers (any total order does; (line, column) pairs are compared lexicographically in the code).
   allow_exact = True. Hand model, tied to the code by correspondence (py/props/C06.py stage_find_model: the real method
   on every node span, gap and random span of the programs vs the model on the encoded tree). Definitions only. *)
From Coq Require Import List Bool Arith.
Import ListNotations.

Inductive tree := Node (id s e : nat) (kids : list tree).

Definition nid (t : tree) := let 'Node i _ _ _ := t in i.
Definition st (t : tree) := let 'Node _ s _ _ := t in s.
Definition en (t : tree) := let 'Node _ _ e _ := t in e.
Definition kids (t : tree) := let 'Node _ _ _ k := t in k.

Definition contains (t : tree) (a b : nat) : bool := Nat.leb (st t) a && Nat.leb b (en t).

Inductive verdict := Stay | Into (t : tree).

(* the for loop over walk('loc', self_=False) of the current node: `todo` is what the generator still has to yield *)
Fixpoint scan (fuel : nat) (a b : nat) (todo : list tree) : verdict :=
  match fuel with
  | 0 => Stay
  | S f =>
      match todo with
      | [] => Stay                                          (* for ... else: return self *)
      | x :: rest =>
          if Nat.leb (en x) a then scan f a b (kids x ++ rest)         (* continue: the walk goes on into x *)
          else if Nat.ltb a (st x) then Stay                            (* starts behind: return self *)
          else if Nat.ltb (en x) b then scan f a b rest                 (* send(False); continue *)
          else Into x
      end
  end.

Fixpoint size (t : tree) : nat := let 'Node _ _ _ k := t in S (fold_right (fun c n => size c + n) 0 k).
Definition sizes (l : list tree) : nat := fold_right (fun c n => size c + n) 0 l.

(* the while True loop *)
Fixpoint descend (fuel : nat) (a b : nat) (self : tree) : tree :=
  match fuel with
  | 0 => self
  | S f => match scan (S (sizes (kids self))) a b (kids self) with
           | Stay => self
           | Into x => descend f a b x
           end
  end.

Definition find_contains (root : tree) (a b : nat) : option nat :=
  if contains root a b then Some (nid (descend (size root) a b root)) else None.

(* well formed: children lie inside their parent, in order, without overlap (spans may touch) *)
Fixpoint ordered (lo : nat) (l : list tree) : bool :=
  match l with
  | [] => true
  | x :: r => Nat.leb lo (st x) && ordered (en x) r
  end.

Fixpoint wf (t : tree) : bool :=
  let 'Node _ s e k := t in
  Nat.leb s e && ordered s k && forallb (fun c => Nat.leb (en c) e) k && forallb wf k.

(* ---- find_in_loc: the first node, in the order of the walk, that lies entirely inside a span ----
   self inside the span: self. Otherwise ONE walk over the descendants: a node that starts before the span is passed over (the
   walk goes on into it), a node that starts and ends inside the span is the answer, any other node (it starts inside and ends
   behind) is passed over as well - the walk goes on into it and, because siblings can overlap (the Constant in front of a
   self-documenting f-string field), behind it. (The code also stops at the first node whose bounding location starts behind
   the span: from there on nothing the walk has left can lie inside; the model walks on, the answers are the same.) *)
Definition inside (t : tree) (a b : nat) : bool := Nat.leb a (st t) && Nat.leb (en t) b.

Fixpoint scan_in (fuel : nat) (a b : nat) (todo : list tree) : option tree :=
  match fuel with
  | 0 => None
  | S f =>
      match todo with
      | [] => None
      | x :: rest =>
          if Nat.ltb (st x) a then scan_in f a b (kids x ++ rest)
          else if Nat.leb (en x) b then Some x
          else scan_in f a b (kids x ++ rest)
      end
  end.

Definition find_in (root : tree) (a b : nat) : option nat :=
  if inside root a b then Some (nid root) else option_map nid (scan_in (S (sizes (kids root))) a b (kids root)).

(* ---- allow_exact: True (above), 'top' and False ----
   A node whose bounding location IS the span: with 'top' the first such node met on the way down is returned at once (the
   highest of several nodes at the same location, an Expr and its expression), with False the search stops ABOVE it (the
   span must lie inside the node returned without touching both of its ends); for the search root itself: 'top' returns it,
   False finds nothing. *)
Inductive mode := MExact | MTop | MStrict.

Definition exact (t : tree) (a b : nat) : bool := Nat.eqb (st t) a && Nat.eqb (en t) b.

Inductive verdict_m := StayM | IntoM (t : tree) | StopM (t : tree).

Fixpoint scan_m (m : mode) (fuel : nat) (a b : nat) (todo : list tree) : verdict_m :=
  match fuel with
  | 0 => StayM
  | S f =>
      match todo with
      | [] => StayM
      | x :: rest =>
          if Nat.leb (en x) a then scan_m m f a b (kids x ++ rest)
          else if Nat.ltb a (st x) then StayM
          else if Nat.ltb (en x) b then scan_m m f a b rest
          else if exact x a b then match m with MExact => IntoM x | MTop => StopM x | MStrict => StayM end
          else IntoM x
      end
  end.

Fixpoint descend_m (m : mode) (fuel : nat) (a b : nat) (self : tree) : tree :=
  match fuel with
  | 0 => self
  | S f => match scan_m m (S (sizes (kids self))) a b (kids self) with
           | StayM => self
           | StopM x => x
           | IntoM x => descend_m m f a b x
           end
  end.

Definition find_contains_m (m : mode) (root : tree) (a b : nat) : option nat :=
  if contains root a b then
    if exact root a b then match m with MExact => Some (nid (descend_m m (size root) a b root)) | MTop => Some (nid root) | MStrict => None end
    else Some (nid (descend_m m (size root) a b root))
  else None.

(* the nodes entered below `self` by the search with allow_exact=True, in order *)
Fixpoint path (fuel : nat) (a b : nat) (self : tree) : list tree :=
  match fuel with
  | 0 => []
  | S f => match scan (S (sizes (kids self))) a b (kids self) with
           | Stay => []
           | Into x => x :: path f a b x
           end
  end.

(* the first element that satisfies p, else d; the last element before the first that satisfies p, else the last one (d for none) *)
Fixpoint first_or (p : tree -> bool) (l : list tree) (d : tree) : tree :=
  match l with [] => d | x :: r => if p x then x else first_or p r (last r x) end.

Fixpoint before_first (p : tree -> bool) (l : list tree) (d : tree) : tree :=
  match l with [] => d | x :: r => if p x then d else before_first p r x end.
