(* K7c: matching a tree against a pattern that is itself a plain tree (an AST given as pattern, fst/match.py with the default
   options): node classes must be equal, every field is compared in order, lists element by element with equal length,
   primitive leaves by type and value (an Ellipsis CONSTANT in an AST pattern is a literal, only a pattern FIELD given as
   `...` - here TAny - is the wildcard).  Uniform encoding: an AST node is
   `Node kind [field; ...]` (fields in `_fields` order), a list field is `Node 0 [element; ...]`, a primitive (or an absent
   optional node, None) is a `Leaf`.  Hand model, tied to FST.match(<AST>) by correspondence (py/props/C17.py).  Definitions only. *)
From Coq Require Import List Bool Arith ZArith NArith.
Import ListNotations.

Inductive prim :=
| VNone | VBool (b : bool) | VInt (z : Z) | VStr (s : list N) | VBytes (s : list N)
| VNum (repr : list N)       (* float / complex, by the text of its repr *)
| VDots.                      (* Ellipsis *)

Inductive tree := Leaf (p : prim) | Node (kind : nat) (kids : list tree).

Fixpoint ln_eqb (a b : list N) : bool :=
  match a, b with [], [] => true | x :: a', y :: b' => N.eqb x y && ln_eqb a' b' | _, _ => false end.

Definition prim_eqb (a b : prim) : bool :=
  match a, b with
  | VNone, VNone | VDots, VDots => true
  | VBool x, VBool y => Bool.eqb x y
  | VInt x, VInt y => Z.eqb x y
  | VStr x, VStr y | VBytes x, VBytes y | VNum x, VNum y => ln_eqb x y
  | _, _ => false
  end.

(* patterns: a tree in which any sub-tree may be the wildcard *)
Inductive ptree := TAny | TLeaf (p : prim) | TNode (kind : nat) (kids : list ptree).

Fixpoint of_tree (t : tree) : ptree :=
  match t with Leaf p => TLeaf p | Node k kids => TNode k (map of_tree kids) end.

Fixpoint tmatch (p : ptree) (t : tree) : bool :=
  match p, t with
  | TAny, _ => true
  | TLeaf a, Leaf b => prim_eqb a b
  | TNode k ps, Node k' ts =>
      Nat.eqb k k' &&
      (fix go (ps : list ptree) (ts : list tree) : bool :=
         match ps, ts with
         | [], [] => true
         | p' :: ps', t' :: ts' => tmatch p' t' && go ps' ts'
         | _, _ => false
         end) ps ts
  | _, _ => false
  end.

(* the tree with the sub-tree at a path (child indices) replaced *)
Fixpoint put_at (path : list nat) (new : tree) (t : tree) : tree :=
  match path, t with
  | [], _ => new
  | i :: rest, Node k kids =>
      Node k ((fix go (i : nat) (l : list tree) {struct l} : list tree :=
                 match l, i with
                 | [], _ => []
                 | x :: l', 0 => put_at rest new x :: l'
                 | x :: l', S i' => x :: go i' l'
                 end) i kids)
  | _ :: _, Leaf _ => t
  end.

(* the pattern of a tree with the sub-pattern at a path replaced by the wildcard *)
Fixpoint any_at (path : list nat) (p : ptree) : ptree :=
  match path, p with
  | [], _ => TAny
  | i :: rest, TNode k kids =>
      TNode k ((fix go (i : nat) (l : list ptree) {struct l} : list ptree :=
                  match l, i with
                  | [], _ => []
                  | x :: l', 0 => any_at rest x :: l'
                  | x :: l', S i' => x :: go i' l'
                  end) i kids)
  | _ :: _, _ => p
  end.
