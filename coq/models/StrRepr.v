(* K4: astutil.repr_str_multiline / _escape_char (the quoting used by put_docstr) over an abstract character alphabet,
   Python's str.replace and repr(str) as far as the function uses them, and the reference reader: CPython's
   triple-quoted string literal scanner + escape evaluation. Hand model, tied to the code by correspondence
   (py/props/C08.py). Definitions only.

   Alphabet. DQ SQ BS NL TAB NUL are the characters the function treats specially; Ln Lt Ez stand for the printable
   texts n, t and x00 (the bodies of the escapes of NL, TAB, NUL); NP k is any other non-printable character and E k the
   printable body of its unicode_escape (r, xNN, uNNNN, UNNNNNNNN: letters and digits only); P k is any other printable
   character. *)
From Coq Require Import List Bool Arith.
Import ListNotations.

Inductive sym := DQ | SQ | BS | NL | TAB | NUL | Ln | Lt | Ez | P (k : nat) | NP (k : nat) | E (k : nat).

Definition sym_eqb (a b : sym) : bool :=
  match a, b with
  | DQ, DQ | SQ, SQ | BS, BS | NL, NL | TAB, TAB | NUL, NUL | Ln, Ln | Lt, Lt | Ez, Ez => true
  | P i, P j | NP i, NP j | E i, E j => Nat.eqb i j
  | _, _ => false
  end.

Definition pystr := list sym.

(* _escape_char *)
Definition escape_char (c : sym) : pystr :=
  match c with
  | NL => [NL] | TAB => [TAB]
  | BS => [BS; BS]
  | NUL => [BS; Ez]
  | NP k => [BS; E k]
  | c => [c]
  end.

Definition escaped (s : pystr) : pystr := flat_map escape_char s.

(* `pat in s` for the two three-character patterns used *)
Definition starts2 (q : sym) (s : pystr) : bool :=
  match s with a :: b :: _ => sym_eqb a q && sym_eqb b q | _ => false end.

Fixpoint has_triple (q : sym) (s : pystr) : bool :=
  match s with
  | [] => false
  | c :: r => (sym_eqb c q && starts2 q r) || has_triple q r
  end.

Definition has (c : sym) (s : pystr) : bool := existsb (sym_eqb c) s.

(* str.replace for a two-character pattern and for a one-character pattern (left to right, non-overlapping) *)
Fixpoint replace2 (a b : sym) (rep s : pystr) : pystr :=
  match s with
  | x :: ((y :: r) as t) => if sym_eqb x a && sym_eqb y b then rep ++ replace2 a b rep r else x :: replace2 a b rep t
  | _ => s
  end.

Definition replace1 (a : sym) (rep s : pystr) : pystr := flat_map (fun x => if sym_eqb x a then rep else [x]) s.

(* repr(str): quote choice and escapes *)
Definition repr_char (q c : sym) : pystr :=
  match c with
  | BS => [BS; BS] | NL => [BS; Ln] | TAB => [BS; Lt] | NUL => [BS; Ez] | NP k => [BS; E k]
  | c => if sym_eqb c q then [BS; c] else [c]
  end.

Definition py_repr (s : pystr) : pystr :=
  let q := if has SQ s && negb (has DQ s) then DQ else SQ in
  q :: flat_map (repr_char q) s ++ [q].

Definition triple (q : sym) : pystr := [q; q; q].

Definition repr_nonempty (s : pystr) : pystr :=
    let e := escaped s in
    let hd3 := has_triple DQ e in
    let hs3 := has_triple SQ e in
    if hd3 && hs3 then
      let r := replace1 NUL [BS; BS] (replace2 BS Ln [NL] (replace2 BS BS [NUL] (py_repr s))) in
      match r with q :: _ => [q; q] ++ r ++ [q; q] | [] => [] end
    else
      let possible := if negb hd3 then (if hs3 then [DQ] else [DQ; SQ]) else [SQ] in
      let l := last e DQ in
      let quotes := if sym_eqb l (hd DQ possible) then last possible DQ else hd DQ possible in
      let e' := if sym_eqb quotes l then removelast e ++ [BS; l] else e in
      triple quotes ++ e' ++ triple quotes.

Definition repr_str_multiline (s : pystr) : pystr :=
  match s with
  | [] => triple DQ ++ triple DQ
  | _ => repr_nonempty s
  end.

(* ---- the reader: CPython's scanner for a triple-quoted literal (no prefix) and its escape evaluation ---- *)
Definition unesc (c : sym) : pystr :=
  match c with
  | BS => [BS] | SQ => [SQ] | DQ => [DQ] | Ln => [NL] | Lt => [TAB] | Ez => [NUL] | E k => [NP k]
  | NL => []                       (* backslash-newline: continuation *)
  | c => [BS; c]                   (* unknown escape: kept *)
  end.

Fixpoint scan (q : sym) (s : pystr) : option pystr :=     (* s: the text after the opening quotes *)
  match s with
  | [] => None
  | BS :: [] => None
  | BS :: c :: r => option_map (app (unesc c)) (scan q r)
  | c :: r =>
      if sym_eqb c q && starts2 q r
      then (match r with [_; _] => Some [] | _ => None end)    (* the closing quotes must end the literal *)
      else option_map (cons c) (scan q r)
  end.

Definition is_quote (q : sym) : bool := match q with DQ | SQ => true | _ => false end.

Definition decode (lit : pystr) : option pystr :=
  match lit with
  | q :: q2 :: q3 :: r => if is_quote q && sym_eqb q q2 && sym_eqb q q3 then scan q r else None
  | _ => None
  end.

(* ---- get_docstr's per-line dedent and the indentation a put applies to the continuation lines of a docstring ---- *)
(* a line is a list of symbols; whitespace = P 0 (space) or TAB. dedent is the block indent (whitespace only). *)
Definition is_ws (c : sym) : bool := match c with TAB => true | P 0 => true | _ => false end.

Fixpoint starts_with (p l : pystr) : bool :=
  match p, l with
  | [], _ => true
  | a :: p', b :: l' => sym_eqb a b && starts_with p' l'
  | _, [] => false
  end.

Fixpoint ws_prefix_len (l : pystr) : nat := match l with c :: r => if is_ws c then S (ws_prefix_len r) else 0 | [] => 0 end.

Definition dedent_line (dedent l : pystr) : pystr :=
  if starts_with dedent l then skipn (length dedent) l
  else if Nat.leb (length dedent) (ws_prefix_len l) then skipn (length dedent) l
  else skipn (ws_prefix_len l) l.

Definition get_docstr_lines (dedent : pystr) (ls : list pystr) : list pystr := map (dedent_line dedent) ls.

(* what the put does to the lines of the literal: the first line is placed after the indentation, each further
   non-empty line gets the block indent prepended, empty lines stay empty *)
Definition indent_line (ind l : pystr) : pystr := match l with [] => [] | _ => ind ++ l end.
Definition put_docstr_lines (ind : pystr) (ls : list pystr) : list pystr :=
  match ls with [] => [] | f :: r => f :: map (indent_line ind) r end.
