(* K3b: NAME indexing of a statement-list view (view['g'], fst/view.py:_fixup_item_indices, str branch): the definitions among the
   elements of the view are searched for the name; for a direct child the index handed on is its index in the REAL field made
   relative to the view: real - start - idx_off (idx_off = 1 for `_body` behind a docstring).  `names` gives for every element of the
   real field the name it defines (None: not a def / class).  Hand model, tied by correspondence (py/props/C03.py).  Definitions only. *)
From Coq Require Import List Arith Bool.
Import ListNotations.

Fixpoint find_name (name : nat) (l : list (option nat)) : option nat :=
  match l with
  | [] => None
  | x :: r => if match x with Some n => Nat.eqb n name | None => false end then Some 0
              else option_map S (find_name name r)
  end.

(* the slice of the real field the view shows, the index of the first definition of `name` in the REAL field, and what the view hands on *)
Definition view_slice (names : list (option nat)) (start stop idx_off : nat) : list (option nat) :=
  firstn (stop - start) (skipn (start + idx_off) names).
Definition real_index (names : list (option nat)) (start stop idx_off name : nat) : option nat :=
  option_map (fun k => start + idx_off + k) (find_name name (view_slice names start stop idx_off)).
Definition name_index (names : list (option nat)) (start stop idx_off name : nat) : option nat :=
  option_map (fun real => real - start - idx_off) (real_index names start stop idx_off name).

(* the slip of seed C03_13: the view's own start is not subtracted *)
Definition name_index_not_relative (names : list (option nat)) (start stop idx_off name : nat) : option nat :=
  option_map (fun real => real - idx_off) (real_index names start stop idx_off name).
