(* Effect-order model for atomicity arguments: a procedure is a sequence of atoms; an adversarial oracle decides at each
   may-raise atom whether it raises. The live state is abstracted to a version counter that every live mutation bumps.
   Used for the raw reparse (gen/RawEffects.v is regenerated from fst_raw.py). Definitions only. *)
From Coq Require Import List Bool Arith.
Import ListNotations.

Inductive atom := APure | ACopy | AMut | ARaise.

(* (final version, raised?) *)
Fixpoint run (p : list atom) (fails : list bool) (st : nat) : nat * bool :=
  match p with
  | [] => (st, false)
  | AMut :: r => run r fails (S st)
  | ARaise :: r => match fails with
                   | true :: _ => (st, true)
                   | false :: f => run r f st
                   | [] => run r [] st
                   end
  | _ :: r => run r fails st
  end.

(* no may-raise atom after a live mutation *)
Fixpoint ordered_from (mutated : bool) (p : list atom) : bool :=
  match p with
  | [] => true
  | AMut :: r => ordered_from true r
  | ARaise :: r => negb mutated && ordered_from mutated r
  | _ :: r => ordered_from mutated r
  end.
Definition ordered (p : list atom) : bool := ordered_from false p.
