(* C17, nested quantifiers. match.py lets the repeated sub-list of a quantifier contain quantifiers itself
   (_match__inside_list_quantifier.match_next_q_pat calls _match__inside_list(qpat_iter, tgt_iter, allow_partial=True)):
   ONE REPETITION is then the FIRST successful match of the sub-list on a prefix of what is left of the target - the inner
   quantifiers backtrack among themselves while that repetition is being matched, but once it has succeeded the outer
   quantifier treats it as a unit: it is given back whole or kept whole, never re-matched differently ("the backtracking
   from those quantifiers doesn't mix with the parent quantifier", docs/d11_match.py). In regular-expression terms a
   repetition is an atomic group (?>...). This file transcribes that algorithm for arbitrarily nested quantifiers; the
   flat model models/Match.v is the special case where every repeated sub-list consists of element patterns.
   Hand model, tied to the code by correspondence (py/props/C17.py stage_nested). Definitions only. *)
From Coq Require Import List Bool Arith.
From PF Require Import models.Match.
Import ListNotations.

Inductive nitem :=
| NElem (e : epat)
| NQ (mn : nat) (mx : option nat) (greedy : bool) (sub : list nitem).

(* result of matching the rest of a pattern list: for every quantifier of THIS list (left to right) the number of target
   elements consumed by each of its repetitions, and the target that is left at the end (non-empty only in partial mode) *)
Definition res := (list (list nat) * list nat)%type.

(* lengths consumed by the repetitions, first repetition first; starts = target at the start of each repetition, latest first *)
Fixpoint lens (starts : list (list nat)) (cur : list nat) (acc : list nat) : list nat :=
  match starts with
  | [] => acc
  | s :: st => lens st s ((length s - length cur) :: acc)
  end.

Section Q.
  Variable rep : list nat -> option (list nat).   (* one repetition: what is left of the target *)
  Variable k : list nat -> option res.            (* the rest of the pattern list *)

  (* `while count < count_to: if not match_next_q_pat(): break` *)
  Fixpoint reps_upto (n : nat) (starts : list (list nat)) (cur : list nat) : list (list nat) * list nat :=
    match n with
    | 0 => (starts, cur)
    | S m => match rep cur with Some rest => reps_upto m (cur :: starts) rest | None => (starts, cur) end
    end.

  Definition finish (starts : list (list nat)) (cur : list nat) (r : res) : res := (lens starts cur [] :: fst r, snd r).

  (* greedy: try the rest; on failure give the last repetition back (tgt_iter.idx = tgt_idxs.pop()), not below mn *)
  Fixpoint down (mn : nat) (starts : list (list nat)) (cur : list nat) : option res :=
    match k cur with
    | Some r => Some (finish starts cur r)
    | None => match starts with
              | [] => None
              | s :: st => if Nat.leb (length starts) mn then None else down mn st s
              end
    end.

  (* lazy: try the rest; on failure match one more repetition, `more` = how many more are allowed *)
  Fixpoint up (more : nat) (starts : list (list nat)) (cur : list nat) : option res :=
    match k cur with
    | Some r => Some (finish starts cur r)
    | None => match more with
              | 0 => None
              | S m => match rep cur with Some rest => up m (cur :: starts) rest | None => None end
              end
    end.

  Definition quant (mn cap : nat) (greedy : bool) (tgt : list nat) : option res :=
    if greedy then
      let '(starts, cur) := reps_upto cap [] tgt in
      if Nat.ltb (length starts) mn then None else down mn starts cur
    else
      let '(starts, cur) := reps_upto mn [] tgt in
      if Nat.ltb (length starts) mn then None else up (cap - mn) starts cur.
End Q.

Fixpoint step (it : nitem) (k : list nat -> option res) (tgt : list nat) {struct it} : option res :=
  match it with
  | NElem e => match tgt with t :: ts => if ematch e t then k ts else None | [] => None end
  | NQ mn mx g sub =>
      let rep := fun t => option_map snd
        ((fix seq (l : list nitem) (k' : list nat -> option res) (t' : list nat) {struct l} : option res :=
            match l with [] => k' t' | i :: r => step i (seq r k') t' end) sub (fun t' => Some ([], t')) t) in
      quant rep k mn (cap_of mx (length tgt)) g tgt
  end.

Fixpoint seq (l : list nitem) (k : list nat -> option res) (tgt : list nat) {struct l} : option res :=
  match l with [] => k tgt | i :: r => step i (seq r k) tgt end.

(* one atomic repetition of a sub-list, as used inside step *)
Definition arep (sub : list nitem) (t : list nat) : option (list nat) := option_map snd (seq sub (fun t' => Some ([], t')) t).

Definition final (partial : bool) (t : list nat) : option res :=
  if partial || match t with [] => true | _ => false end then Some ([], t) else None.

Definition nmatch (items : list nitem) (partial : bool) (tgt : list nat) : option res := seq items (final partial) tgt.

(* ---- reference semantics: the regular language of the nested pattern (NO atomicity) ------------------------------------ *)
Section L.
  Variable L : list nat -> Prop.
  Fixpoint nreps (c : nat) (w : list nat) : Prop :=
    match c with 0 => w = [] | S m => exists a b, w = a ++ b /\ L a /\ nreps m b end.
End L.

Fixpoint ilang (it : nitem) (w : list nat) {struct it} : Prop :=
  match it with
  | NElem e => exists t, w = [t] /\ ematch e t = true
  | NQ mn mx _ sub =>
      exists c, in_bounds mn mx c /\
        nreps ((fix sl (l : list nitem) (w' : list nat) {struct l} : Prop :=
                  match l with [] => w' = [] | i :: r => exists a b, w' = a ++ b /\ ilang i a /\ sl r b end) sub) c w
  end.

Fixpoint slang (l : list nitem) (w : list nat) {struct l} : Prop :=
  match l with [] => w = [] | i :: r => exists a b, w = a ++ b /\ ilang i a /\ slang r b end.

(* the MQ constructor: 0 <= min <= max, and an unbounded quantifier's sub-list cannot match the empty sequence *)
Fixpoint min_len (it : nitem) : nat :=
  match it with
  | NElem _ => 1
  | NQ mn _ _ sub => mn * (fix ml (l : list nitem) : nat := match l with [] => 0 | i :: r => min_len i + ml r end) sub
  end.
Fixpoint min_lens (l : list nitem) : nat := match l with [] => 0 | i :: r => min_len i + min_lens r end.

Fixpoint wf_item (it : nitem) : bool :=
  match it with
  | NElem _ => true
  | NQ mn mx _ sub =>
      match mx with Some m => Nat.leb mn m | None => Nat.ltb 0 (min_lens sub) end &&
      (fix wl (l : list nitem) : bool := match l with [] => true | i :: r => wf_item i && wl r end) sub
  end.
Fixpoint wf_items (l : list nitem) : bool := match l with [] => true | i :: r => wf_item i && wf_items r end.

(* embedding of the flat model *)
Definition embed_item (it : item) : nitem :=
  match it with IElem e => NElem e | IQ mn mx g sub => NQ mn mx g (map NElem sub) end.
