(* Hand model of the process-global modification registry fst_core._MODIFYING : root -> (node, depth) driven by
   _Modifying.enter / success / fail (success and fail have the same effect on the registry). Definitions only. *)
From Coq Require Import List Bool Arith.
Import ListNotations.

Definition entry := (nat * nat)%type.                 (* (node holding the modification, nesting depth >= 1) *)
Definition reg := list (nat * entry).                  (* association list keyed by root id; first binding wins *)

Fixpoint rget (g : reg) (r : nat) : option entry :=
  match g with [] => None | (k, e) :: t => if Nat.eqb k r then Some e else rget t r end.
Definition rset (g : reg) (r : nat) (e : entry) : reg := (r, e) :: g.
Fixpoint rdel (g : reg) (r : nat) : reg :=
  match g with [] => [] | (k, e) :: t => if Nat.eqb k r then rdel t r else (k, e) :: rdel t r end.

(* _Modifying.enter(): None = RuntimeError('nested modification of different nodes not allowed'), registry untouched *)
Definition enter (g : reg) (r n : nat) (force : bool) : option reg :=
  match rget g r with
  | Some (n0, d) => if negb (Nat.eqb n n0) && negb force then None else Some (rset g r (n0, S d))
  | None => Some (rset g r (n, 1))
  end.

(* success() / fail(): None = the KeyError/TypeError the code would hit on a missing entry *)
Definition leave (g : reg) (r : nat) : option reg :=
  match rget g r with
  | Some (n0, d) => if Nat.ltb 1 d then Some (rset g r (n0, d - 1)) else Some (rdel g r)
  | None => None
  end.

(* The language of nested `with self._modifying(...)` blocks (and the guarded manual protocol of unpar): a block enters,
   runs its body items unless entering was refused, and ALWAYS leaves (success on normal exit, fail on exception).
   `boom` = user code raises at the end of the body. *)
Inductive item := Blk (r n : nat) (force : bool) (body : list item) (boom : bool).

Fixpoint run_item (g : reg) (i : item) : reg * bool (* raised *) :=
  match i with
  | Blk r n force body boom =>
      match enter g r n force with
      | None => (g, true)
      | Some g1 =>
          let '(g2, raised) :=
            (fix run_items (g : reg) (l : list item) : reg * bool :=
               match l with
               | [] => (g, false)
               | x :: t => let '(g', ra) := run_item g x in if ra then (g', true) else run_items g' t
               end) g1 body in
          match leave g2 r with
          | Some g3 => (g3, raised || boom)
          | None => (g2, true)
          end
      end
  end.

Fixpoint run_items (g : reg) (l : list item) : reg * bool :=
  match l with
  | [] => (g, false)
  | x :: t => let '(g', ra) := run_item g x in if ra then (g', true) else run_items g' t
  end.

(* flat operations for the correspondence check and for commutation *)
Inductive rop := REnter (r n : nat) (force : bool) | RLeave (r : nat).
Definition rstep (g : reg) (o : rop) : reg * bool (* ok *) :=
  match o with
  | REnter r n f => match enter g r n f with Some g' => (g', true) | None => (g, false) end
  | RLeave r => match leave g r with Some g' => (g', true) | None => (g, false) end
  end.
Definition rop_root (o : rop) : nat := match o with REnter r _ _ => r | RLeave r => r end.

(* observation of the registry on a finite set of roots *)
Definition robs (g : reg) (roots : list nat) : list (option entry) := map (rget g) roots.
Fixpoint rrun_obs (g : reg) (roots : list nat) (ops : list rop) : list (bool * list (option entry)) :=
  match ops with
  | [] => []
  | o :: t => let '(g', ok) := rstep g o in (ok, robs g' roots) :: rrun_obs g' roots t
  end.

Definition oe_eqb (a b : option entry) : bool :=
  match a, b with
  | None, None => true
  | Some (x, y), Some (u, v) => Nat.eqb x u && Nat.eqb y v
  | _, _ => false
  end.
Fixpoint loe_eqb (a b : list (option entry)) : bool :=
  match a, b with [], [] => true | x :: a', y :: b' => oe_eqb x y && loe_eqb a' b' | _, _ => false end.
Fixpoint robs_eqb (a b : list (bool * list (option entry))) : bool :=
  match a, b with
  | [], [] => true
  | (o1, l1) :: a', (o2, l2) :: b' => Bool.eqb o1 o2 && loe_eqb l1 l2 && robs_eqb a' b'
  | _, _ => false
  end.
