(* C17 models. (1) The backtracking list matcher of match.py (_match__inside_list / _match__inside_list_quantifier)
   for element patterns and quantifiers over fixed-length sub-lists: transcription of the count-up / back-off loops,
   with the back-off restoring the index saved before the repetition (the repaired behaviour). (2) The search()
   pre-filter algebra (_leaf_asts of M / MNOT / MOR / MAND / MTYPES / node patterns). Definitions only. *)
From Coq Require Import List Bool Arith.
Import ListNotations.

(* ---- elements and element patterns -------------------------------------------------------------------------------- *)
Inductive epat := ELit (n : nat) | EAny.
Definition ematch (p : epat) (t : nat) : bool := match p with ELit n => Nat.eqb n t | EAny => true end.

(* a quantifier repeats a fixed-length list of element patterns (a single pattern is a list of length 1) *)
Inductive item :=
| IElem (e : epat)
| IQ (mn : nat) (mx : option nat) (greedy : bool) (sub : list epat).

(* one repetition: the remaining target on success *)
Fixpoint rep (sub : list epat) (tgt : list nat) : option (list nat) :=
  match sub with
  | [] => Some tgt
  | e :: r => match tgt with t :: ts => if ematch e t then rep r ts else None | [] => None end
  end.

(* how many consecutive repetitions match, at most `cap`; fuel bounds the loop (|tgt| suffices when sub <> []) *)
Fixpoint count_reps (fuel : nat) (sub : list epat) (tgt : list nat) (cap : nat) : nat :=
  match fuel, cap with
  | 0, _ | _, 0 => 0
  | S f, S c => match rep sub tgt with Some rest => S (count_reps f sub rest c) | None => 0 end
  end.

(* target after n repetitions (each known to match) *)
Fixpoint after_reps (n : nat) (sub : list epat) (tgt : list nat) : list nat :=
  match n with 0 => tgt | S m => match rep sub tgt with Some rest => after_reps m sub rest | None => tgt end end.

Definition cap_of (mx : option nat) (len : nat) : nat := match mx with Some m => m | None => S len end.

Section K.
  (* the continuation: match the REST of the pattern list against what is left of the target; returns the repetition
     counts chosen for the remaining quantifiers *)
  Variable k : list nat -> option (list nat).

  (* greedy: having matched n repetitions, try the rest; on failure give one repetition back, down to mn *)
  Fixpoint try_down (sub : list epat) (tgt : list nat) (mn : nat) (n : nat) : option (list nat) :=
    match k (after_reps n sub tgt) with
    | Some cs => Some (n :: cs)
    | None => match n with
              | 0 => None
              | S m => if Nat.leb n mn then None else try_down sub tgt mn m
              end
    end.

  (* lazy: having matched c repetitions, try the rest; on failure match one more repetition, up to the cap *)
  Fixpoint try_up (fuel : nat) (sub : list epat) (tgt : list nat) (cap : nat) (c : nat) (cur : list nat) : option (list nat) :=
    match k cur with
    | Some cs => Some (c :: cs)
    | None => match fuel with
              | 0 => None
              | S f => if Nat.leb cap c then None
                       else match rep sub cur with Some rest => try_up f sub tgt cap (S c) rest | None => None end
              end
    end.
End K.

Fixpoint match_items (items : list item) (partial : bool) (tgt : list nat) : option (list nat) :=
  match items with
  | [] => if partial || match tgt with [] => true | _ => false end then Some [] else None
  | IElem e :: r => match tgt with t :: ts => if ematch e t then match_items r partial ts else None | [] => None end
  | IQ mn mx greedy sub :: r =>
      let cap := cap_of mx (length tgt) in
      if greedy then
        let n := count_reps (S (length tgt)) sub tgt cap in
        if Nat.ltb n mn then None else try_down (match_items r partial) sub tgt mn n
      else
        let n0 := count_reps (S (length tgt)) sub tgt mn in
        if Nat.ltb n0 mn then None
        else try_up (match_items r partial) (S (length tgt)) sub tgt cap mn (after_reps mn sub tgt)
  end.

(* ---- reference semantics: the regular language of the pattern sequence --------------------------------------------- *)
Fixpoint reps_exact (n : nat) (sub : list epat) (pre : list nat) : Prop :=
  match n with
  | 0 => pre = []
  | S m => exists a b, pre = a ++ b /\ rep sub a = Some [] /\ reps_exact m sub b
  end.

Definition in_bounds (mn : nat) (mx : option nat) (c : nat) : Prop := mn <= c /\ match mx with Some m => c <= m | None => True end.

Fixpoint lang (items : list item) (tgt : list nat) : Prop :=
  match items with
  | [] => tgt = []
  | IElem e :: r => exists t ts, tgt = t :: ts /\ ematch e t = true /\ lang r ts
  | IQ mn mx _ sub :: r => exists c pre post, in_bounds mn mx c /\ tgt = pre ++ post /\ reps_exact c sub pre /\ lang r post
  end.

(* what the MQ constructor guarantees (0 <= min <= max) plus a non-empty quantified sub-list *)
Definition well_formed (items : list item) : Prop :=
  forall mn mx g sub, In (IQ mn mx g sub) items -> sub <> [] /\ match mx with Some m => mn <= m | None => True end.

(* ---- search pre-filter ------------------------------------------------------------------------------------------------ *)
Definition node := (nat * nat)%type.            (* (kind, payload) *)
Definition nkind (n : node) : nat := fst n.

Inductive pat :=
| PAny                                              (* `...` *)
| PType (ks : list nat)                             (* a class / MTYPES without fields: pure type test *)
| PNode (ks : list nat) (extra : node -> bool)      (* node pattern with field constraints *)
| PUnknown (f : node -> bool)                       (* MRE / MCB / str: may look at source, leaf set unknown *)
| PPrim                                             (* a primitive: never matches a node *)
| POr (l : list pat) | PAnd (l : list pat) | PNot (p : pat).

Definition mem (k : nat) (ks : list nat) : bool := existsb (Nat.eqb k) ks.

Fixpoint pmatch (p : pat) (n : node) : bool :=
  match p with
  | PAny => true
  | PType ks => mem (nkind n) ks
  | PNode ks extra => mem (nkind n) ks && extra n
  | PUnknown f => f n
  | PPrim => false
  | POr l => existsb (fun q => pmatch q n) l
  | PAnd l => forallb (fun q => pmatch q n) l
  | PNot q => negb (pmatch q n)
  end.

(* _leaf_asts: None = indeterminate (walk everything); Some S = only kinds in S need to be looked at *)
Definition is_pure_type (p : pat) : bool := match p with PType _ => true | _ => false end.

Fixpoint leaf (p : pat) : option (nat -> bool) :=
  match p with
  | PAny => Some (fun _ => true)
  | PType ks => Some (fun k => mem k ks)
  | PNode ks _ => Some (fun k => mem k ks)
  | PUnknown _ => None
  | PPrim => Some (fun _ => false)
  | POr l => fold_right (fun q acc => match leaf q, acc with Some a, Some b => Some (fun k => a k || b k) | _, _ => None end) (Some (fun _ => false)) l
  | PAnd l => fold_right (fun q acc => match leaf q, acc with Some a, Some b => Some (fun k => a k && b k) | _, _ => None end) (Some (fun _ => true)) l
  | PNot q => match leaf q with
              | None => None
              | Some a => if is_pure_type q then Some (fun k => negb (a k)) else Some (fun _ => true)
              end
  end.

Definition prefilter (p : pat) (n : node) : bool := match leaf p with None => true | Some s => s (nkind n) end.

(* search: walk, keep the kinds the pre-filter lets through, test the pattern *)
Definition search (p : pat) (nodes : list node) : list node := filter (pmatch p) (filter (prefilter p) nodes).
