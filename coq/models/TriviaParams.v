(* C04: fst_trivia.get_trivia_params - how the compact `trivia` option is read. One side of the option is a bool, an int (a
   line number) or a string KIND[+N|-N|+|-] in which a missing KIND stands for the side's default kind ('block' for the
   leading side, 'line' for the trailing side). Hand model, tied to the code by exhaustive correspondence over all shapes
   (py/props/C04.py stage_params_corr). Definitions only. *)
From Coq Require Import List Bool Arith.
Import ListNotations.

Inductive kind := KNone | KAll | KBlock | KLine.
Inductive cm := CKind (k : kind) | CInt (n : nat).          (* the `comments` parameter of _leading/_trailing_trivia *)
Inductive sp := SpFalse | SpTrue | SpN (n : nat).            (* the `space` parameter: False / True / a count *)
Inductive sfx := XNone | XPlus (n : option nat) | XMinus (n : option nat).
Inductive part := PBool (b : bool) | PInt (n : nat) | PStr (k : option kind) (x : sfx).
Inductive opt := OOne (p : part) | OPair (l t : part) | OEmpty | OSingle (t : part).

Definition count (n : option nat) : sp := match n with Some n => SpN n | None => SpTrue end.

Definition side (dflt : kind) (neg : bool) (p : part) : cm * sp * bool :=
  match p with
  | PBool b => (CKind (if b then dflt else KNone), SpFalse, false)
  | PInt n => (CInt n, SpFalse, false)
  | PStr k x =>
      let k' := match k with Some k => k | None => dflt end in
      match x with
      | XNone => (CKind k', SpFalse, false)
      | XPlus n => (CKind k', count n, false)
      | XMinus n => (CKind k', (if neg then count n else SpN 0), true)
      end
  end.

Definition params (neg : bool) (o : opt) : (cm * sp * bool) * (cm * sp * bool) :=
  match o with
  | OOne p => (side KBlock neg p, side KLine neg (PBool true))
  | OPair l t => (side KBlock neg l, side KLine neg t)
  | OEmpty => (side KBlock neg (PBool false), side KLine neg (PBool false))
  | OSingle t => (side KBlock neg (PBool true), side KLine neg t)
  end.

(* a string part has a kind or a suffix (the empty string is not an option value) *)
Definition wf_part (p : part) : bool := match p with PStr None XNone => false | _ => true end.

(* ---- boolean equalities for the correspondence ---- *)
Definition kind_eqb (a b : kind) : bool :=
  match a, b with KNone, KNone | KAll, KAll | KBlock, KBlock | KLine, KLine => true | _, _ => false end.
Definition cm_eqb (a b : cm) : bool :=
  match a, b with CKind x, CKind y => kind_eqb x y | CInt x, CInt y => Nat.eqb x y | _, _ => false end.
Definition sp_eqb (a b : sp) : bool :=
  match a, b with SpFalse, SpFalse | SpTrue, SpTrue => true | SpN x, SpN y => Nat.eqb x y | _, _ => false end.
Definition tri_eqb (a b : cm * sp * bool) : bool :=
  let '(c1, s1, n1) := a in let '(c2, s2, n2) := b in cm_eqb c1 c2 && sp_eqb s1 s2 && Bool.eqb n1 n2.
Definition params_eqb (a b : (cm * sp * bool) * (cm * sp * bool)) : bool := tri_eqb (fst a) (fst b) && tri_eqb (snd a) (snd b).
