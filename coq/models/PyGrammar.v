(* Hand-written precedence requirements of the Python 3.12 expression / pattern grammar (from the language reference's
   grammar: named_expression < star_expressions(tuple) < yield < expression(if-else, lambda) < or < and < not <
   comparison < | < ^ < & < shift < sum < term < factor < power < await < primary/atom).
   `grammar_needs slot child` says: an UNPARENTHESISED child of this kind in this slot does not parse back to that
   child in that slot. This is the independent spec the pfst tables are checked against (props/C09.v); the spec itself
   is validated against CPython on every run by exhaustive enumeration of its finite domain (py/props/C09.py). *)
From Coq Require Import List String Bool Arith.
From PF Require Import kernel.PrecBase.
Import ListNotations.
Local Open Scope string_scope.

Definition L_named := 1. Definition L_tuple := 2. Definition L_yield := 3. Definition L_test := 4.
Definition L_or := 5. Definition L_and := 6. Definition L_not := 7. Definition L_cmp := 8. Definition L_bor := 9.
Definition L_bxor := 10. Definition L_band := 11. Definition L_shift := 12. Definition L_sum := 13. Definition L_term := 14.
Definition L_factor := 15. Definition L_power := 16. Definition L_await := 17. Definition L_atom := 18.

(* the lowest grammar level that derives an unparenthesised node of this kind *)
Definition child_levels : list (string * nat) := [
  ("NamedExpr", L_named); ("Tuple", L_tuple); ("Yield", L_yield); ("YieldFrom", L_yield); ("Lambda", L_test); ("IfExp", L_test);
  ("Or", L_or); ("And", L_and); ("Not", L_not); ("Compare", L_cmp); ("BitOr", L_bor); ("BitXor", L_bxor); ("BitAnd", L_band);
  ("LShift", L_shift); ("RShift", L_shift); ("Add", L_sum); ("Sub", L_sum); ("Mult", L_term); ("MatMult", L_term); ("Div", L_term);
  ("Mod", L_term); ("FloorDiv", L_term); ("UAdd", L_factor); ("USub", L_factor); ("Invert", L_factor); ("Pow", L_power); ("Await", L_await);
  ("Name", L_atom); ("Constant", L_atom); ("Attribute", L_atom); ("Subscript", L_atom); ("Call", L_atom); ("List", L_atom); ("Set", L_atom);
  ("Dict", L_atom); ("ListComp", L_atom); ("SetComp", L_atom); ("DictComp", L_atom); ("GeneratorExp", L_atom); ("JoinedStr", L_atom);
  (* patterns: as_pattern < or_pattern < closed_pattern; an open sequence pattern behaves like a tuple *)
  ("MatchAs_pat", L_test); ("MatchOr", L_bor); ("MatchSequence", L_tuple);
  ("MatchValue", L_atom); ("MatchSingleton", L_atom); ("MatchMapping", L_atom); ("MatchClass", L_atom); ("MatchAs", L_atom)].

Definition child_level (k : string) : nat :=
  match find (fun e => String.eqb (fst e) k) child_levels with Some e => snd e | None => L_atom end.

(* What a slot accepts without parentheses: the lowest level of the chain  expression(4) .. atom(18), and whether the
   three constructs that sit BESIDE that chain in the grammar are allowed bare: `x := y` (named_expression), `a, b`
   (star_expressions) and `yield ...` (yield_expr). *)
Record slot := { s_level : nat; s_named : bool; s_tuple : bool; s_yield : bool }.
Definition sl (l : nat) (n t y : bool) := {| s_level := l; s_named := n; s_tuple := t; s_yield := y |}.
Definition T := true. Definition F := false.

Definition slot_table : list (string * string * slot) := [
  ("Expr", "value", sl L_test F T T); ("Assign", "value", sl L_test F T T); ("AugAssign", "value", sl L_test F T T);
  ("AnnAssign", "value", sl L_test F T T); ("AnnAssign", "annotation", sl L_test F F F);
  ("Return", "value", sl L_test F T F); ("For", "iter", sl L_test F T F);
  ("If", "test", sl L_test T F F); ("While", "test", sl L_test T F F); ("Assert", "test", sl L_test F F F); ("Assert", "msg", sl L_test F F F);
  ("Raise", "exc", sl L_test F F F); ("Raise", "cause", sl L_test F F F); ("withitem", "context_expr", sl L_test F F F);
  ("Match", "subject", sl L_test T T F); ("match_case", "guard", sl L_test T F F);
  ("FunctionDef", "decorator_list", sl L_test T F F); ("FunctionDef", "returns", sl L_test F F F); ("arguments", "defaults", sl L_test F F F);
  ("arg", "annotation", sl L_test F F F); ("ClassDef", "bases", sl L_test T F F); ("keyword", "value", sl L_test F F F);
  ("Call", "func", sl L_atom F F F); ("Call", "args", sl L_test T F F); ("NamedExpr", "value", sl L_test F F F); ("Lambda", "body", sl L_test F F F);
  ("IfExp", "body", sl L_or F F F); ("IfExp", "test", sl L_or F F F); ("IfExp", "orelse", sl L_test F F F);
  ("Dict", "keys", sl L_test F F F); ("Dict", "values", sl L_test F F F);
  ("Set", "elts", sl L_test T F F); ("List", "elts", sl L_test T F F); ("Tuple", "elts", sl L_test T F F);
  ("ListComp", "elt", sl L_test T F F); ("SetComp", "elt", sl L_test T F F); ("GeneratorExp", "elt", sl L_test T F F);
  ("DictComp", "key", sl L_test F F F); ("DictComp", "value", sl L_test F F F);
  ("comprehension", "iter", sl L_or F F F); ("comprehension", "ifs", sl L_or F F F);
  ("Await", "value", sl L_atom F F F); ("Yield", "value", sl L_test F T F); ("YieldFrom", "value", sl L_test F F F);
  ("Compare", "left", sl L_bor F F F); ("Compare", "comparators", sl L_bor F F F);
  ("Attribute", "value", sl L_atom F F F); ("Subscript", "value", sl L_atom F F F); ("Subscript", "slice", sl L_test T T F);
  ("Slice", "lower", sl L_test F F F); ("Slice", "upper", sl L_test F F F); ("Slice", "step", sl L_test F F F);
  ("FormattedValue", "value", sl L_test F T T);
  ("Not", "operand", sl L_not F F F); ("USub", "operand", sl L_factor F F F); ("UAdd", "operand", sl L_factor F F F); ("Invert", "operand", sl L_factor F F F);
  ("And", "values", sl L_not F F F); ("Or", "values", sl L_and F F F);
  ("Add", "left", sl L_sum F F F); ("Sub", "left", sl L_sum F F F); ("Mult", "left", sl L_term F F F); ("MatMult", "left", sl L_term F F F);
  ("Div", "left", sl L_term F F F); ("Mod", "left", sl L_term F F F); ("FloorDiv", "left", sl L_term F F F);
  ("LShift", "left", sl L_shift F F F); ("RShift", "left", sl L_shift F F F);
  ("BitOr", "left", sl L_bor F F F); ("BitXor", "left", sl L_bxor F F F); ("BitAnd", "left", sl L_band F F F); ("Pow", "left", sl L_await F F F);
  ("Add", "right", sl L_term F F F); ("Sub", "right", sl L_term F F F); ("Mult", "right", sl L_factor F F F); ("MatMult", "right", sl L_factor F F F);
  ("Div", "right", sl L_factor F F F); ("Mod", "right", sl L_factor F F F); ("FloorDiv", "right", sl L_factor F F F);
  ("LShift", "right", sl L_sum F F F); ("RShift", "right", sl L_sum F F F);
  ("BitOr", "right", sl L_bxor F F F); ("BitXor", "right", sl L_band F F F); ("BitAnd", "right", sl L_shift F F F); ("Pow", "right", sl L_factor F F F);
  (* patterns: `s_tuple` = open sequence pattern allowed bare *)
  ("match_case", "pattern", sl L_test F T F); ("MatchAs", "pattern", sl L_bor F F F); ("MatchOr", "patterns", sl L_bxor F F F);
  ("MatchSequence", "patterns", sl L_test F F F); ("MatchMapping", "patterns", sl L_test F F F); ("MatchClass", "patterns", sl L_test F F F);
  ("MatchClass", "kwd_patterns", sl L_test F F F)].

Definition slot_levels : list (string * string * nat) := map (fun e => (fst e, s_level (snd e))) slot_table.

Definition slot_of (parent field : string) : slot :=
  match find (fun e => String.eqb (fst (fst e)) parent && String.eqb (snd (fst e)) field) slot_table with
  | Some e => snd e | None => sl L_test F F F end.

Definition starts_with_brace (child : string) : bool :=
  existsb (String.eqb child) ["Set"; "Dict"; "SetComp"; "DictComp"].

Definition needs_in (s : slot) (child : string) (cl : nat) : bool :=
  if String.eqb child "NamedExpr" then negb (s_named s)
  else if String.eqb child "Tuple" || String.eqb child "MatchSequence" then negb (s_tuple s)
  else if String.eqb child "Yield" || String.eqb child "YieldFrom" then negb (s_yield s)
  else Nat.ltb cl (s_level s).

Definition grammar_needs (child parent field : string) (fl : flags) : bool :=
  let cl := if String.eqb child "MatchAs" && negb (flag_matchas_pat_None fl) then child_level "MatchAs_pat" else child_level child in
  if String.eqb parent "Attribute" && flag_attr_val_int fl then true            (* `1 .real`: an int literal before a dot *)
  else if String.eqb parent "Dict" && String.eqb field "values" && flag_dict_key_None fl then needs_in (sl L_bor F F F) child cl   (* `**` bitwise_or *)
  else if String.eqb parent "Starred" then needs_in (sl (if flag_arglike fl then L_test else L_bor) F F F) child cl   (* `*` expression in calls, bitwise_or elsewhere *)
  else if String.eqb parent "FormattedValue" && String.eqb child "Lambda" then true   (* `:` would start the format spec *)
  else needs_in (slot_of parent field) child cl.

(* finite domains *)
Definition expr_children : list string := [
  "Name"; "Constant"; "Attribute"; "Subscript"; "Call"; "List"; "Set"; "Dict"; "ListComp"; "SetComp"; "DictComp"; "GeneratorExp"; "JoinedStr";
  "Tuple"; "NamedExpr"; "Yield"; "YieldFrom"; "Lambda"; "IfExp"; "Await"; "Compare"; "Or"; "And"; "Not"; "Invert"; "UAdd"; "USub";
  "Add"; "Sub"; "Mult"; "MatMult"; "Div"; "Mod"; "FloorDiv"; "LShift"; "RShift"; "BitOr"; "BitXor"; "BitAnd"; "Pow"].
Definition pat_children : list string := ["MatchValue"; "MatchSingleton"; "MatchSequence"; "MatchMapping"; "MatchClass"; "MatchAs"; "MatchOr"].

Definition is_pattern_slot (parent : string) : bool :=
  existsb (String.eqb parent) ["match_case"; "MatchAs"; "MatchOr"; "MatchSequence"; "MatchMapping"; "MatchClass"].

Definition all_flags : list flags :=
  flat_map (fun a => flat_map (fun b => flat_map (fun c => map (fun d =>
    {| flag_dict_key_None := a; flag_matchas_pat_None := b; flag_attr_val_int := c; flag_arglike := d |}) [false; true]) [false; true]) [false; true]) [false; true].

(* all (child, parent, field) triples: expression children in expression slots, pattern children in pattern slots;
   the extra Starred slot is not in slot_levels because its level depends on the flag *)
Definition expr_slots : list (string * string) :=
  map fst (filter (fun e => negb (is_pattern_slot (fst (fst e))) || String.eqb (snd (fst e)) "guard") slot_levels) ++ [("Starred", "value")].
Definition pat_slots : list (string * string) :=
  map fst (filter (fun e => is_pattern_slot (fst (fst e)) && negb (String.eqb (snd (fst e)) "guard")) slot_levels).

Definition all_triples : list (string * string * string) :=
  flat_map (fun s => map (fun c => (c, fst s, snd s)) expr_children) expr_slots ++
  flat_map (fun s => map (fun c => (c, fst s, snd s)) pat_children) pat_slots.
