(* Hand model of fst_options.py: per-thread option store, set_options (validate-all-then-update), the options()
   context manager (set, yield, restore in finally), get_option (per-call dict, then thread default), threads.
   The option universe / defaults / effect order are TRANSLATED (gen/OptionsTable.v). Values are Python reprs.
   Validity of a value for a name is an ORACLE bit carried by each request (k_valid) - the theorems hold for any
   validity predicate; the correspondence check supplies the documented domain. Definitions only. *)
From Coq Require Import List String Bool Arith.
From PF Require Import gen.OptionsTable.
Import ListNotations.

Definition store := list string.                       (* position = index in global_option_names *)
Record kv := { k_name : string; k_val : string; k_valid : bool }.

Fixpoint index_of (s : string) (l : list string) : option nat :=
  match l with
  | [] => None
  | x :: r => if String.eqb s x then Some 0 else option_map S (index_of s r)
  end.

Definition kv_idx (x : kv) : option nat := index_of (k_name x) global_option_names.
(* check_options(options, all=False): unknown (or call-only) name, or a value outside the documented domain *)
Definition kv_ok (x : kv) : bool := match kv_idx x with Some _ => k_valid x | None => false end.
Definition all_ok (kvs : list kv) : bool := forallb kv_ok kvs.

Definition set_nth_s (s : store) (i : nat) (v : string) : store := firstn i s ++ v :: skipn (S i) s.

Definition upd := (nat * string)%type.
Definition update (s : store) (ups : list upd) : store := fold_left (fun s (u : upd) => set_nth_s s (fst u) (snd u)) ups s.

Definition idx_or0 (x : kv) : nat := match kv_idx x with Some i => i | None => 0 end.
Definition new_of (kvs : list kv) : list upd := map (fun x => (idx_or0 x, k_val x)) kvs.
Definition old_of (s : store) (kvs : list kv) : list upd := map (fun x => (idx_or0 x, nth (idx_or0 x) s ""%string)) kvs.

(* per-thread state: store + stack of old_options of the open options() blocks *)
Record tstate := { st : store; stack : list (list upd) }.
Definition fresh : tstate := {| st := global_option_defaults; stack := [] |}.

Inductive op :=
| OSet (kvs : list kv)                       (* FST.set_options of kvs *)
| OEnter (kvs : list kv)                     (* with FST.options of kvs:  __enter__ *)
| OExit                                      (* __exit__ (normal or exceptional: the same finally clause) *)
| OGet (name : string) (callopts : list (string * string)).   (* FST.get_option(name, callopts) *)

Inductive result := RNone | RErr | RVal (v : option string) | ROld (old : list upd).

Fixpoint assoc (n : string) (l : list (string * string)) : option string :=
  match l with [] => None | (k, v) :: r => if String.eqb n k then Some v else assoc n r end.

Definition step (t : tstate) (o : op) : tstate * result :=
  match o with
  | OSet kvs =>
      if all_ok kvs then ({| st := update (st t) (new_of kvs); stack := stack t |}, ROld (old_of (st t) kvs))
      else (t, RErr)
  | OEnter kvs =>
      if all_ok kvs then ({| st := update (st t) (new_of kvs); stack := old_of (st t) kvs :: stack t |}, ROld (old_of (st t) kvs))
      else (t, RErr)
  | OExit =>
      match stack t with
      | old :: r => ({| st := update (st t) old; stack := r |}, RNone)
      | [] => (t, RErr)
      end
  | OGet n callopts =>
      (t, RVal (match assoc n callopts with
                | Some v => Some v
                | None => match index_of n global_option_names with Some i => Some (nth i (st t) ""%string) | None => None end
                end))
  end.

Definition run (t : tstate) (ops : list op) : tstate := fold_left (fun t o => fst (step t o)) ops t.

(* results along a run, for the correspondence check *)
Fixpoint run_obs (t : tstate) (ops : list op) : list (result * store) :=
  match ops with
  | [] => []
  | o :: r => let '(t', res) := step t o in (res, st t') :: run_obs t' r
  end.

(* ---- threads: a world maps thread ids to thread states; a thread seen for the first time starts from the defaults *)
Definition world := list (nat * tstate).
Fixpoint wget (w : world) (tid : nat) : tstate :=
  match w with [] => fresh | (i, t) :: r => if Nat.eqb i tid then t else wget r tid end.
Fixpoint wset (w : world) (tid : nat) (t : tstate) : world :=
  match w with
  | [] => [(tid, t)]
  | (i, t0) :: r => if Nat.eqb i tid then (i, t) :: r else (i, t0) :: wset r tid t
  end.
Definition wstep (w : world) (e : nat * op) : world := wset w (fst e) (fst (step (wget w (fst e)) (snd e))).
Definition wrun (w : world) (l : list (nat * op)) : world := fold_left wstep l w.
Definition proj (tid : nat) (l : list (nat * op)) : list op :=
  map snd (filter (fun e => Nat.eqb (fst e) tid) l).

(* ---- bracket structure of traces *)
(* balanced: every accepted OEnter has its OExit; rejected requests stand alone *)
Inductive balanced : list op -> Prop :=
| bal_nil : balanced []
| bal_get n c l : balanced l -> balanced (OGet n c :: l)
| bal_set kvs l : balanced l -> balanced (OSet kvs :: l)
| bal_rej kvs l : all_ok kvs = false -> balanced l -> balanced (OEnter kvs :: l)
| bal_block kvs body l : all_ok kvs = true -> balanced body -> balanced l -> balanced (OEnter kvs :: body ++ OExit :: l).

(* quiet: balanced and every bare set_options in it is rejected (only blocks and reads change anything) *)
Inductive quiet : list op -> Prop :=
| q_nil : quiet []
| q_get n c l : quiet l -> quiet (OGet n c :: l)
| q_set kvs l : all_ok kvs = false -> quiet l -> quiet (OSet kvs :: l)
| q_rej kvs l : all_ok kvs = false -> quiet l -> quiet (OEnter kvs :: l)
| q_block kvs body l : all_ok kvs = true -> quiet body -> quiet l -> quiet (OEnter kvs :: body ++ OExit :: l).

Definition wf_kvs (kvs : list kv) : Prop := NoDup (map k_name kvs).
Definition wf_store (s : store) : Prop := List.length s = n_global.

(* executable equality helpers for the correspondence *)
Fixpoint ls_eqb (a b : list string) : bool :=
  match a, b with [], [] => true | x :: a', y :: b' => String.eqb x y && ls_eqb a' b' | _, _ => false end.
