(* C18: how match.py subn() writes a capture into a `__FST_tag` slot that stands INSIDE a string constant of the template:
   the source text of the capture, character by character: a quote of either kind and a backslash get a backslash in
   front, a character that is not printable becomes its unicode_escape (\n, \t, \x00, \xNN, \uNNNN ...), every other
   character stays. Over the abstract alphabet of models/StrRepr.v (DQ SQ BS NL TAB NUL, the escape bodies Ln Lt Ez / E k,
   other non-printables NP k, other printables P k). The readers are CPython's string literal scanner and escape
   evaluation: StrRepr.scan for triple-quoted literals, scan1 below for single-quoted ones. Hand model, tied to the code
   by correspondence (py/props/C18.py stage_string_slots: the text real sub() writes for captures holding quotes,
   backslashes, raw tabs / newlines / form feeds / non-ASCII non-printables == the model's text; Python's evaluation of
   the resulting literal == the capture's source). Definitions only. *)
From Coq Require Import List Bool Arith.
From PF Require Import models.StrRepr.
Import ListNotations.

Definition slot_escape_char (c : sym) : pystr :=
  match c with
  | DQ => [BS; DQ] | SQ => [BS; SQ] | BS => [BS; BS]
  | NL => [BS; Ln] | TAB => [BS; Lt] | NUL => [BS; Ez] | NP k => [BS; E k]
  | c => [c]
  end.

Definition slot_escape (s : pystr) : pystr := flat_map slot_escape_char s.

(* a capture's source never holds the stand-ins for escape bodies as such; they are ordinary printable letters there *)
Definition plain (c : sym) : bool := match c with Ln | Lt | Ez | E _ => false | _ => true end.

(* the scanner of a SINGLE-quoted literal (no prefix): ends at the first unescaped quote of its kind, which must be the last
   character; a raw newline is an error *)
Fixpoint scan1 (q : sym) (s : pystr) : option pystr :=     (* s: the text after the opening quote *)
  match s with
  | [] => None
  | BS :: [] => None
  | BS :: c :: r => option_map (app (unesc c)) (scan1 q r)
  | NL :: _ => None
  | c :: r => if sym_eqb c q then (match r with [] => Some [] | _ => None end) else option_map (cons c) (scan1 q r)
  end.

Definition decode1 (lit : pystr) : option pystr :=
  match lit with
  | q :: r => if is_quote q then scan1 q r else None
  | _ => None
  end.
