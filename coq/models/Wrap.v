(* K6: the geometry of the parse wrappers of parsex.py. Every extended-mode parser embeds the fragment on lines of its
   own -  prefix NEWLINE fragment NEWLINE suffix  - parses the embedding with CPython and moves the result up by one
   line (_offset_linenos(ast, -1)); columns are left alone. The delimiter guard (_verify_no_close_delimiters) walks
   the text outside the elements and refuses when the wrapper's own delimiter would be closed by the fragment.
   Hand model, tied by correspondence (py/props/C05.py). Definitions only. *)
From Coq Require Import List NArith ZArith Bool Arith.
From PF Require Import kernel.PyBase kernel.Text models.Extract.
Import ListNotations.

Definition wrap (pre post : pyline) (L : pytext) : pytext := pre :: L ++ [post].

(* several prefix lines (the match/case wrappers use two): _offset_linenos(ast, -(number of prefix lines)) *)
Definition wrapn (pres : pytext) (post : pyline) (L : pytext) : pytext := pres ++ L ++ [post].
Definition unwrapn_pos (n : nat) (p : nat * nat) : nat * nat := (fst p - n, snd p).

(* _offset_linenos(ast, -1) on one position (0-based line of the embedding -> 0-based line of the fragment) *)
Definition unwrap_pos (p : nat * nat) : nat * nat := (fst p - 1, snd p).

(* ---- delimiter guard: characters are classified as opener, closer or other ---- *)
Inductive dch := DOpen | DClose | DOther.

(* the loop of _verify_no_close_delimiters: None = raise *)
Fixpoint guard (count : nat) (s : list dch) : option nat :=
  match s with
  | [] => Some count
  | DClose :: r => match count with 0 => None | S c => guard c r end
  | DOpen :: r => guard (S count) r
  | DOther :: r => guard count r
  end.

(* specification: signed depth of a prefix *)
Fixpoint depth (s : list dch) : Z :=
  match s with
  | [] => 0%Z
  | DOpen :: r => (1 + depth r)%Z
  | DClose :: r => (-1 + depth r)%Z
  | DOther :: r => depth r
  end.

(* index (in w) of the delimiter that closes an opener seen just before w, scanning with nesting level lvl *)
Fixpoint closer_index (lvl : nat) (w : list dch) : option nat :=
  match w with
  | [] => None
  | DClose :: r => match lvl with 0 => Some 0 | S l => option_map S (closer_index l r) end
  | DOpen :: r => option_map S (closer_index (S lvl) r)
  | DOther :: r => option_map S (closer_index lvl r)
  end.
