(* C14: children of a Call (func, args, keywords) and of a ClassDef (bases, keywords) in syntax order: two AST lists, each in
   source order, whose elements interleave in the source (a starred argument may follow keywords). astutil.py
   _syntax_ordered_children_Call / _ClassDef merge them by (line, column) with a hand-rolled loop; this is the textbook
   merge. Hand model, tied to the code by correspondence (py/props/C14.py stage_interleave: real syntax_ordered_children of
   every Call / ClassDef of the programs vs the model). Definitions only. *)
From Coq Require Import List Bool Arith.
Import ListNotations.

Definition pos := (nat * nat)%type.                      (* line, column *)
Definition pos_leb (a b : pos) : bool := Nat.ltb (fst a) (fst b) || (Nat.eqb (fst a) (fst b) && Nat.leb (snd a) (snd b)).
Definition elt := (pos * nat)%type.                      (* position, node id *)
Definition leb (x y : elt) : bool := pos_leb (fst x) (fst y).

Fixpoint merge (l1 l2 : list elt) : list elt :=
  let fix merge_aux (l2 : list elt) : list elt :=
    match l1, l2 with
    | [], _ => l2
    | _, [] => l1
    | a1 :: l1', a2 :: l2' => if leb a1 a2 then a1 :: merge l1' l2 else a2 :: merge_aux l2'
    end
  in merge_aux l2.

Definition call_children (func : nat) (args kws : list elt) : list nat := func :: map snd (merge args kws).
Definition classdef_head_children (bases kws : list elt) : list nat := map snd (merge bases kws).
