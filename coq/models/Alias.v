(* C19: code.py _coerce_to_alias (also _Import_name, and the single-element route of _aliases / _Import_names): an
   expression coerces to an import alias iff it is a chain of attribute accesses on a plain name; the loop walks the chain
   from the OUTSIDE in and builds the dotted name back to front (`name = f'.{a.attr}{name}'`, finally `a.id + name`).
   Hand model, tied to the code by correspondence (py/props/C19.py stage_alias). Definitions only. *)
From Coq Require Import List String.
Import ListNotations.
Local Open Scope string_scope.

Inductive dexpr := DName (id : string) | DAttr (value : dexpr) (attr : string) | DOther.

(* the while loop: `name` is what has been accumulated so far *)
Fixpoint alias_loop (a : dexpr) (name : string) : option string :=
  match a with
  | DAttr v attr => alias_loop v ("." ++ attr ++ name)
  | DName id => Some (id ++ name)
  | DOther => None
  end.

Definition to_alias (e : dexpr) : option string := alias_loop e "".

(* specification: the identifiers of the chain in source order, joined by dots *)
Fixpoint parts (e : dexpr) : option (list string) :=
  match e with
  | DName id => Some [id]
  | DAttr v attr => match parts v with Some l => Some (l ++ [attr])%list | None => None end
  | DOther => None
  end.

Definition dotted (e : dexpr) : option string := option_map (String.concat ".") (parts e).
