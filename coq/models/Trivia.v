(* Hand transcription of fst_trivia.py:leading_trivia (and the line classifiers of common.py it uses) - the function that
   decides which comment / blank lines ABOVE an element belong to it. Loops become `scan_up`. Definitions only. *)
From Coq Require Import List NArith Bool Arith.
From PF Require Import kernel.PyBase.
Import ListNotations.

Definition is_ws (c : N) : bool := N.eqb c 32 || N.eqb c 9.
Fixpoint skip_ws (l : pyline) : pyline := match l with c :: r => if is_ws c then skip_ws r else l | [] => [] end.

(* re_empty_line.match(l, 0, col): only spaces/tabs in l[:col] *)
Definition empty_upto (l : pyline) (col : nat) : bool := forallb is_ws (firstn col l).
(* re_comment_line_start: blanks then a hash *)
Definition comment_start (l : pyline) : bool := match skip_ws l with c :: _ => N.eqb c 35 | [] => false end.
(* re_empty_line_or_cont: blanks, then nothing or one trailing backslash *)
Definition empty_or_cont (l : pyline) : bool :=
  match skip_ws l with [] => true | [c] => N.eqb c 92 | _ => false end.
(* re_empty_line_cont_or_comment: blanks, then nothing, a lone trailing backslash, or a comment *)
Definition trivia_line (l : pyline) : bool :=
  match skip_ws l with [] => true | c :: r => N.eqb c 35 || (N.eqb c 92 && match r with [] => true | _ => false end) end.
Definition is_comment (l : pyline) : bool := comment_start l.

Definition lineN (L : pytext) (i : nat) : pyline := nth i L [].

(* walk upwards from line lo+n-1 while P holds, not above lo: returns the index of the topmost line of the run *)
Fixpoint scan_up (P : pyline -> bool) (L : pytext) (lo n : nat) : nat :=
  match n with
  | 0 => lo
  | S m => if P (lineN L (lo + m)) then scan_up P L lo m else lo + m + 1
  end.

(* the upward loop `while (ln := ln - 1) >= stop_ln: if not P(lines[ln]): break` followed by `ln + 1` *)
Definition scan_from (P : pyline -> bool) (L : pytext) (stop ln : nat) : nat :=
  if Nat.leb stop ln then scan_up P L stop (ln - stop) else ln.

(* topmost comment line in [k, hi), or hi when there is none *)
Fixpoint first_comment (L : pytext) (k n : nat) : nat :=
  match n with
  | 0 => k
  | S m => if is_comment (lineN L k) then k else first_comment L (S k) m
  end.

Inductive comments_opt := CNone | CAll | CBlock | CLine (n : nat).
Inductive space_opt := SFalse | STrue | SInt (n : nat).
Definition space_on (s : space_opt) : bool := match s with SFalse => false | STrue => true | SInt n => negb (Nat.eqb n 0) end.

(* the part of leading_trivia after the comment start line `c` is known (all modes except 'all') *)
Definition lt_tail (L : pytext) (top_ln ln col : nat) (space : space_opt) (c : nat) : (nat * nat) * option nat * bool :=
  let text_pos := if Nat.eqb c ln then (ln, col) else (c, 0) in
  (* `None if comments_pos == text_pos else comments_pos`: the start of the element's own line when it is indented *)
  let sp0 := if Nat.eqb c ln && negb (Nat.eqb col 0) then Some c else None in
  if negb (space_on space) || Nat.eqb c top_ln then (text_pos, sp0, true)
  else
    let lo := match space with SInt n => Nat.max top_ln (c - n) | _ => top_ln end in
    let s := scan_from empty_or_cont L lo c in
    if Nat.eqb s c then (text_pos, sp0, true) else (text_pos, Some s, true).

(* result: (text position (line, col), optional space start line, indent present?) ; false for indent = element does not start its line *)
Definition leading_trivia (L : pytext) (bound_ln bound_col ln col : nat) (comments : comments_opt) (space : space_opt)
  : (nat * nat) * option nat * bool :=
  if (Nat.eqb bound_ln ln && negb (Nat.eqb bound_col 0)) || negb (empty_upto (lineN L ln) col) then ((ln, col), None, false)
  else
    let top_ln := bound_ln + (if Nat.eqb bound_col 0 then 0 else 1) in
    let stop_ln := match comments with CLine n => if Nat.ltb top_ln n then n else top_ln | _ => top_ln end in
    match comments with
    | CAll =>
        let k := scan_from trivia_line L stop_ln ln in
        let c := first_comment L k (ln - k) in
        let text_pos := if Nat.eqb c ln then (ln, col) else (c, 0) in
        let sp0 := if Nat.eqb c ln && negb (Nat.eqb col 0) then Some c else None in
        if negb (space_on space) || Nat.eqb c k then (text_pos, sp0, true)
        else match space with
             | STrue => (text_pos, Some k, true)
             | SInt n => (text_pos, Some (c - Nat.min n (c - k)), true)
             | SFalse => (text_pos, None, true)
             end
    | CNone => lt_tail L top_ln ln col space ln
    | CBlock => lt_tail L top_ln ln col space (scan_from comment_start L stop_ln ln)
    | CLine _ => lt_tail L top_ln ln col space (scan_from trivia_line L stop_ln ln)
    end.
