(* C16: the classification half of FST.scope_symbols(full=True). The scope-restricted walk (models/Scope.v) delivers the nodes
   of the scope in syntactic order; each contributes events (what is done to which name): a load, a store (Name in Store
   context, parameter, def / class name, import binding, type parameter, except / pattern capture, ** rest), a del, a
   `global` / `nonlocal` declaration, and - only when the scope root is a comprehension - a store that is the target of a
   walrus (it belongs to an enclosing scope). Dictionaries keep first-insertion order. Hand model, tied to the code by
   correspondence (py/props/C16.py stage_symbols: events re-derived from the node set, dictionaries compared key by key,
   in order). Definitions only. *)
From Coq Require Import List Bool Arith.
Import ListNotations.

Inductive kind := KLoad | KStore | KDel | KGlobal | KNonlocal | KWalrus.
Definition ev := (kind * nat)%type.

Definition mem (n : nat) (l : list nat) : bool := existsb (Nat.eqb n) l.
Definition add (n : nat) (l : list nat) : list nat := if mem n l then l else l ++ [n].

Definition kind_eqb (a b : kind) : bool :=
  match a, b with KLoad, KLoad | KStore, KStore | KDel, KDel | KGlobal, KGlobal | KNonlocal, KNonlocal | KWalrus, KWalrus => true | _, _ => false end.

(* keys of one dictionary: names of the events selected, in order of first insertion *)
Definition keys (sel : kind -> bool) (evs : list ev) : list nat :=
  fold_left (fun acc e => if sel (fst e) then add (snd e) acc else acc) evs [].

Definition is_store (k : kind) : bool := match k with KStore | KWalrus => true | _ => false end.

Record syms := { s_load : list nat; s_store : list nat; s_del : list nat; s_global : list nat; s_nonlocal : list nat; s_local : list nat; s_free : list nat }.

(* comp: the scope root is a comprehension (walrus targets are then reported to the enclosing scope) *)
Definition classify (comp : bool) (evs : list ev) : syms :=
  let store := keys is_store evs in
  let del := keys (kind_eqb KDel) evs in
  let glob := keys (kind_eqb KGlobal) evs in
  let nonl := keys (kind_eqb KNonlocal) evs in
  let walrus := if comp then keys (kind_eqb KWalrus) evs else [] in
  (* a walrus target of a comprehension root is also entered in the load dictionary (to be reported free), in walk order *)
  let load_all := keys (fun k => match k with KLoad => true | KWalrus => comp | _ => false end) evs in
  let local := filter (fun n => negb (mem n glob || mem n nonl || mem n walrus)) store in
  let non_load := if comp then filter (fun n => negb (mem n walrus)) store else store ++ del ++ nonl ++ glob in
  let free := filter (fun n => negb (mem n non_load)) load_all in
  let load := if comp then filter (fun n => mem n (keys (kind_eqb KLoad) evs)) load_all else load_all in
  {| s_load := load; s_store := store; s_del := del; s_global := glob; s_nonlocal := nonl; s_local := local; s_free := free |}.

(* the compiler's rule for a function-like scope: a name is bound by a store or a del; declared global / nonlocal wins;
   a bound undeclared name is local; a name only used is free (or an implicit global: the same from inside the scope) *)
Definition occurs (k : kind) (n : nat) (evs : list ev) : Prop := In (k, n) evs.
Definition declared (n : nat) (evs : list ev) : Prop := occurs KGlobal n evs \/ occurs KNonlocal n evs.
Definition py_local (n : nat) (evs : list ev) : Prop := (occurs KStore n evs \/ occurs KDel n evs) /\ ~ declared n evs.
Definition py_free (n : nat) (evs : list ev) : Prop := occurs KLoad n evs /\ ~ occurs KStore n evs /\ ~ occurs KDel n evs /\ ~ declared n evs.
Definition no_walrus_ev (evs : list ev) : Prop := forall n, ~ In (KWalrus, n) evs.
