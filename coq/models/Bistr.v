(* K3: astutil.bistr - character <-> UTF-8 byte column maps of one line. c2b is the prefix-sum of code point widths;
   b2c maps a byte index to the character that contains it (bytes inside a character map to its start). Functional
   hand model (the arrays of the implementation are tied to it by correspondence). Definitions only. *)
From Coq Require Import List NArith Bool Arith.
From PF Require Import kernel.PyBase kernel.Text.
Import ListNotations.

(* c2b is kernel.Text.c2b : blen_nat (firstn c l) *)

Fixpoint b2c (l : pyline) (j : nat) : nat :=
  match l with
  | [] => 0
  | c :: r => if Nat.ltb j (u8w c) then 0 else S (b2c r (j - u8w c))
  end.

Definition is_ascii (l : pyline) : bool := forallb (fun c => N.ltb c 128) l.

(* the arrays the implementation builds, for the correspondence check *)
Definition c2b_array (l : pyline) : list nat := map (c2b l) (seq 0 (S (length l))).
Definition b2c_array (l : pyline) : list nat := map (b2c l) (seq 0 (S (blen_nat l))).
