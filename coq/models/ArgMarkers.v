(* C03: the `/` and `*` markers of a parameter list. arguments._all is a flat list of parameters, each in one of five
   categories (positional-only, ordinary, *vararg, keyword-only, **kwarg); a put into that list keeps every element in the
   category it has where it comes from and re-derives the markers. `render` is the marker placement: a `/` behind the last
   positional-only parameter, a bare `*` in front of the first keyword-only parameter unless a *vararg stands there.
   `parse` is Python's reading of such a token list: names in front of a `/` are positional-only, names behind a `*` or a
   *vararg are keyword-only. Hand model, tied to the code by correspondence (py/props/C03.py stage_arguments_sweep: the
   tokens of the parameter list real put_slice writes == render of the expected element list). Definitions only. *)
From Coq Require Import List Bool Arith.
Import ListNotations.

Inductive cat := Pos | Arg | Var | Kwo | Kw.
Definition cnum (c : cat) : nat := match c with Pos => 0 | Arg => 1 | Var => 2 | Kwo => 3 | Kw => 4 end.
Definition elem := (cat * nat)%type.                       (* category, name *)

Inductive tok := TId (n : nat) | TVar (n : nat) | TKw (n : nat) | TSlash | TStar.

Definition name_tok (e : elem) : tok := match fst e with Var => TVar (snd e) | Kw => TKw (snd e) | _ => TId (snd e) end.

(* prev = category number of the element in front (1 when there is none: nothing pending) *)
Fixpoint render (prev : nat) (l : list elem) : list tok :=
  match l with
  | [] => if Nat.eqb prev 0 then [TSlash] else []
  | e :: r =>
      let c := cnum (fst e) in
      (if Nat.eqb prev 0 && negb (Nat.eqb c 0) then [TSlash] else []) ++
      (if Nat.eqb c 3 && negb (Nat.eqb prev 2 || Nat.eqb prev 3) then [TStar] else []) ++
      name_tok e :: render c r
  end.

(* the categories never go down, *vararg and **kwarg occur at most once *)
Fixpoint ok (prev : nat) (l : list elem) : bool :=
  match l with
  | [] => true
  | e :: r => let c := cnum (fst e) in
              Nat.leb prev c && negb (Nat.eqb prev c && (Nat.eqb c 2 || Nat.eqb c 4)) && ok c r
  end.

(* Python's reading behind any `/` *)
Fixpoint parse_tail (star : bool) (ts : list tok) : option (list elem) :=
  match ts with
  | [] => Some []
  | TId n :: r => option_map (cons ((if star then Kwo else Arg), n)) (parse_tail star r)
  | TVar n :: r => if star then None else option_map (cons (Var, n)) (parse_tail true r)
  | TStar :: r => if star then None else match r with TId _ :: _ => parse_tail true r | _ => None end    (* named arguments must follow bare * *)
  | TKw n :: r => match r with [] => Some [(Kw, n)] | _ => None end
  | TSlash :: _ => None
  end.

Fixpoint take_ids (ts : list tok) : list nat * list tok :=
  match ts with
  | TId n :: r => let (a, b) := take_ids r in (n :: a, b)
  | _ => ([], ts)
  end.

Definition parse (ts : list tok) : option (list elem) :=
  let (ids, rest) := take_ids ts in
  match rest with
  | TSlash :: rest' => match ids with
                       | [] => None                                                                   (* at least one argument must precede / *)
                       | _ => option_map (app (map (fun n => (Pos, n)) ids)) (parse_tail false rest')
                       end
  | _ => parse_tail false ts
  end.

Definition cat_eqb (x y : cat) : bool := Nat.eqb (cnum x) (cnum y).
Definition elem_eqb (x y : elem) : bool := cat_eqb (fst x) (fst y) && Nat.eqb (snd x) (snd y).
Fixpoint elems_eqb (x y : list elem) : bool := match x, y with [], [] => true | a :: r, b :: s => elem_eqb a b && elems_eqb r s | _, _ => false end.
Definition tok_eqb (x y : tok) : bool :=
  match x, y with TId a, TId b | TVar a, TVar b | TKw a, TKw b => Nat.eqb a b | TSlash, TSlash | TStar, TStar => true | _, _ => false end.
Fixpoint toks_eqb (x y : list tok) : bool := match x, y with [], [] => true | a :: r, b :: s => tok_eqb a b && toks_eqb r s | _, _ => false end.
