(* C15: the on='both' loop of walk() with recurse=False. A child of the walk root is yielded on entry; without a send() (or
   after send(False)) its children are not walked and it is yielded on leaving; send(True) at the entry yield hands the
   iteration over to a full walk of its children (`yield from fst_.walk(all, 'both', self_=False)`, which receives the
   further send()s) before the node is left; send(True) at a leaving yield walks the whole node again (a full walk).
   Items that stem from such full walks behave as in models/WalkLeave.v (bstep). Hand model, tied to the code by correspondence
   (py/props/C15.py stage_leave_corr, recurse=False runs). Definitions only. *)
From Coq Require Import List Bool Arith.
From PF Require Import models.WalkLeave.
Import ListNotations.

Inductive sitem := SN (t : tree) | SI (i : item).

Definition sstep (stk : list sitem) (ds : list dec) (out : list (nat * bool)) : list sitem * list dec * list (nat * bool) :=
  match stk with
  | [] => ([], ds, out)
  | SN t :: st =>
      let '(d, ds') := next_dec ds in
      ((if is_true d then map (fun c => SI (E c)) (children t) else []) ++ SI (L t) :: st, ds', out ++ [(label t, false)])
  | SI i :: st =>
      let '(stk', ds', out') := bstep [i] ds out in (map SI stk' ++ st, ds', out')
  end.

Fixpoint srun (fuel : nat) (stk : list sitem) (ds : list dec) (out : list (nat * bool)) : option (list (nat * bool) * list dec) :=
  match stk with
  | [] => Some (out, ds)
  | _ => match fuel with
         | 0 => None
         | S f => let '(stk', ds', out') := sstep stk ds out in srun f stk' ds' out'
         end
  end.

(* the walk of root t with recurse=False after its own entry yield (at which nothing was sent) *)
Definition shallow (fuel : nat) (t : tree) (ds : list dec) : option (list (nat * bool) * list dec) :=
  srun fuel (map SN (children t) ++ [SI (L t)]) ds [(label t, false)].
