(* Hand model of the walk() generator of fst_traverse.py as explicit stack machines (no sends, no mutation: C14),
   over rose trees whose nodes carry an id and whether they pass the `all` filter. The stack is kept with its TOP at
   the head of the list (Python pops from the end and pushes children reversed). Definitions only. *)
From Coq Require Import List Bool Arith.
Import ListNotations.

Inductive rtree := RNode (id : nat) (ok : bool) (kids : list (option rtree)).

Definition rid (t : rtree) := let 'RNode i _ _ := t in i.
Definition rkids (t : rtree) := let 'RNode _ _ k := t in k.

Definition ord {A} (back : bool) (l : list A) : list A := if back then rev l else l.

(* ---- specifications (structural) ---------------------------------------------------------------------------------- *)
Fixpoint pre (t : rtree) : list nat :=
  let 'RNode i ok kids := t in
  (if ok then [i] else []) ++ flat_map (fun k => match k with Some k => pre k | None => [] end) kids.

Fixpoint post (t : rtree) : list nat :=
  let 'RNode i ok kids := t in
  flat_map (fun k => match k with Some k => post k | None => [] end) kids ++ (if ok then [i] else []).

Fixpoint both (t : rtree) : list (nat * bool) :=
  let 'RNode i ok kids := t in
  (if ok then [(i, false)] else []) ++ flat_map (fun k => match k with Some k => both k | None => [] end) kids
  ++ (if ok then [(i, true)] else []).

(* the tree with every child list reversed: walking it forwards is walking the original backwards *)
Fixpoint mirror (t : rtree) : rtree :=
  let 'RNode i ok kids := t in
  RNode i ok (rev (map (fun k => match k with Some k => Some (mirror k) | None => None end) kids)).
Definition omirror (k : option rtree) : option rtree := match k with Some k => Some (mirror k) | None => None end.

Fixpoint size (t : rtree) : nat :=
  let 'RNode _ _ kids := t in S (fold_right (fun k n => match k with Some k => size k | None => 1 end + n) 0 kids).
Definition osize (k : option rtree) : nat := match k with Some k => size k | None => 1 end.
Definition wsize (s : list (option rtree)) : nat := fold_right (fun k n => osize k + n) 0 s.

(* ---- on='enter' --------------------------------------------------------------------------------------------------- *)
Fixpoint run_enter (fuel : nat) (back recurse : bool) (stack : list (option rtree)) : list nat :=
  match fuel with
  | 0 => []
  | S f =>
      match stack with
      | [] => []
      | None :: s => run_enter f back recurse s
      | Some (RNode i ok kids) :: s =>
          let s' := if recurse then ord back kids ++ s else s in
          if ok then i :: run_enter f back recurse s' else run_enter f back recurse s'
      end
  end.

(* walk(self_=True, on='enter'): the root is yielded first (if it passes the filter), then its children are stacked *)
Definition walk_enter (back recurse : bool) (t : rtree) : list nat :=
  let 'RNode i ok kids := t in
  (if ok then [i] else []) ++ run_enter (wsize kids) back recurse (ord back kids).

(* ---- on='leave' / on='both' : stack entries are nodes to enter or nodes to leave -------------------------------- *)
Inductive sitem := SEnter (k : option rtree) | SLeave (t : rtree).

Definition isize (x : sitem) : nat := match x with SEnter k => 2 * osize k | SLeave _ => 1 end.
Definition lsize (s : list sitem) : nat := fold_right (fun x n => isize x + n) 0 s.

Fixpoint run_leave (fuel : nat) (back : bool) (stack : list sitem) : list nat :=
  match fuel with
  | 0 => []
  | S f =>
      match stack with
      | [] => []
      | SLeave (RNode i ok _) :: s => if ok then i :: run_leave f back s else run_leave f back s
      | SEnter None :: s => run_leave f back s
      | SEnter (Some (RNode i ok kids)) :: s =>
          if negb ok then run_leave f back (map SEnter (ord back kids) ++ s)
          else match kids with
               | [] => i :: run_leave f back s
               | _ => run_leave f back (map SEnter (ord back kids) ++ SLeave (RNode i ok kids) :: s)
               end
      end
  end.

Definition walk_leave (back : bool) (t : rtree) : list nat :=
  let 'RNode i ok kids := t in
  run_leave (lsize (map SEnter kids)) back (map SEnter (ord back kids)) ++ (if ok then [i] else []).

Fixpoint run_both (fuel : nat) (back : bool) (stack : list sitem) : list (nat * bool) :=
  match fuel with
  | 0 => []
  | S f =>
      match stack with
      | [] => []
      | SLeave (RNode i ok _) :: s => if ok then (i, true) :: run_both f back s else run_both f back s
      | SEnter None :: s => run_both f back s
      | SEnter (Some (RNode i ok kids)) :: s =>
          if ok then (i, false) :: run_both f back (map SEnter (ord back kids) ++ SLeave (RNode i ok kids) :: s)
          else run_both f back (map SEnter (ord back kids) ++ s)
      end
  end.

Definition walk_both (back : bool) (t : rtree) : list (nat * bool) :=
  let 'RNode i ok kids := t in
  (if ok then [(i, false)] else []) ++ run_both (lsize (map SEnter kids)) back (map SEnter (ord back kids))
  ++ (if ok then [(i, true)] else []).

(* executable equality for the correspondence *)
Fixpoint ln_eqb (a b : list nat) : bool :=
  match a, b with [], [] => true | x :: a', y :: b' => Nat.eqb x y && ln_eqb a' b' | _, _ => false end.
Fixpoint lnb_eqb (a b : list (nat * bool)) : bool :=
  match a, b with [], [] => true | (x, p) :: a', (y, q) :: b' => Nat.eqb x y && Bool.eqb p q && lnb_eqb a' b' | _, _ => false end.
