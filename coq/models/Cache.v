(* C02 abstract cache model: every node carries a position and a memoised answer of a query that is a function of the
   node's own position (loc-like caches). An offset pass visits a set of nodes: visited nodes get their new position and
   have their cache flushed (f._cache.clear() in _offset); unvisited nodes are left alone. Definitions only. *)
From Coq Require Import List Bool Arith ZArith.
From PF Require Import kernel.OffsetBase.
Import ListNotations.

Section C.
  Variable answer : npos -> Z.                      (* the query, as a function of the node's own span *)
  Record cnode := { c_pos : npos; c_cache : option Z }.

  Definition coherent (n : cnode) : Prop := forall v, c_cache n = Some v -> v = answer (c_pos n).

  (* asking the query fills the cache *)
  Definition ask (n : cnode) : cnode * Z :=
    match c_cache n with
    | Some v => (n, v)
    | None => ({| c_pos := c_pos n; c_cache := Some (answer (c_pos n)) |}, answer (c_pos n))
    end.

  (* one node under an offset pass with position map `mv`: visited => moved and flushed *)
  Definition pass_node (mv : npos -> npos) (visited : bool) (n : cnode) : cnode :=
    if visited then {| c_pos := mv (c_pos n); c_cache := None |} else n.

  Inductive cop := Ask (i : nat) | Pass (mv : npos -> npos) (visited : list bool).

  Fixpoint update_nth (l : list cnode) (i : nat) (f : cnode -> cnode) : list cnode :=
    match l, i with
    | [], _ => []
    | x :: r, 0 => f x :: r
    | x :: r, S j => x :: update_nth r j f
    end.

  Fixpoint zipw (mv : npos -> npos) (vs : list bool) (l : list cnode) : list cnode :=
    match l, vs with
    | x :: r, v :: vr => pass_node mv v x :: zipw mv vr r
    | l, _ => l
    end.

  Definition cstep (l : list cnode) (o : cop) : list cnode :=
    match o with
    | Ask i => update_nth l i (fun n => fst (ask n))
    | Pass mv vs => zipw mv vs l
    end.

  (* a pass is SOUND when every node it does not visit is a fixed point of the position map
     (for _offset this is exactly what K2 proves: skipped nodes are inert) *)
  Fixpoint pass_sound (mv : npos -> npos) (vs : list bool) (l : list cnode) : Prop :=
    match l, vs with
    | x :: r, v :: vr => (v = false -> mv (c_pos x) = c_pos x) /\ pass_sound mv vr r
    | [], _ => True
    | _ :: _, [] => False
    end.

  (* positions only: the same history without any Ask *)
  Definition positions (l : list cnode) : list npos := map c_pos l.
End C.
