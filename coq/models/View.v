(* Hand model of FSTView's window arithmetic (view.py: _base_indices, _fixup_item_indices, __setitem__, __delitem__,
   insert/append/extend/prepend/prextend/replace/remove, and a length change made elsewhere).
   The field is an abstract list; `_put_slice` is the abstract put_slice_spec (kernel/Container.v).
   Index normalisation is the TRANSLATED gen/Fixups.v.  Definitions only. *)
From Coq Require Import ZArith List Bool Lia.
From PF Require Import kernel.PyBase kernel.Container gen.Fixups.
Import ListNotations.
Local Open Scope nat_scope.

Section V.
  Context {A : Type}.

  Record vst := { fld : list A; vstart : nat; vstop : option nat }.

  (* _base_indices: heal and return (start, stop, len_field) *)
  Definition base_indices (s : vst) : vst * (nat * nat * nat) :=
    let len := length (fld s) in
    let '(stop, vstop') := match vstop s with
                           | None => (len, None)
                           | Some st => if Nat.ltb len st then (len, Some len) else (st, Some st)
                           end in
    let '(start, vstart') := if Nat.ltb stop (vstart s) then (stop, stop) else (vstart s, vstart s) in
    ({| fld := fld s; vstart := vstart'; vstop := vstop' |}, (start, stop, len)).

  Definition bump (s : vst) (f : list A) (newstop : nat -> nat) : vst :=
    {| fld := f; vstart := vstart s; vstop := option_map newstop (vstop s) |}.

  Definition vlen (s : vst) : nat := let '(_, (start, stop, _)) := base_indices s in stop - start.

  Definition vitems (s : vst) : list A :=
    let '(_, (start, stop, _)) := base_indices s in firstn (stop - start) (skipn start (fld s)).

  (* v[a:b] = new    (a: idx.start or 0; b: 'end' when idx.stop is None) *)
  Definition setitem_slice (s : vst) (a : Z) (b : idx) (new : list A) : option vst :=
    let '(s1, (start, stop, len)) := base_indices s in
    match fixup_slice_indices (Z.of_nat (stop - start)) (Ix a) b 0 with
    | None => None
    | Some (i0, i1) =>
        let f := put_slice_spec (fld s) (start + Z.to_nat i0) (start + Z.to_nat i1) new in
        Some (bump s1 f (fun st => st + length f - len))
    end.

  (* v[i] = x *)
  Definition setitem_one (s : vst) (i : Z) (x : A) : option vst :=
    let '(s1, (start, stop, len)) := base_indices s in
    match fixup_one_index (Z.of_nat (stop - start)) (Ix i) 0 with
    | None => None
    | Some k =>
        let f := put_slice_spec (fld s) (start + Z.to_nat k) (S (start + Z.to_nat k)) [x] in
        Some (bump s1 f (fun st => st + length f - len))
    end.

  (* del v[a:b] *)
  Definition delitem_slice (s : vst) (a : Z) (b : idx) : option vst :=
    let '(s1, (start, stop, len)) := base_indices s in
    match fixup_slice_indices (Z.of_nat (stop - start)) (Ix a) b 0 with
    | None => None
    | Some (i0, i1) =>
        let f := put_slice_spec (fld s) (start + Z.to_nat i0) (start + Z.to_nat i1) [] in
        Some (bump s1 f (fun _ => Nat.max start (stop - (Z.to_nat i1 - Z.to_nat i0))))
    end.

  (* del v[i] *)
  Definition delitem_one (s : vst) (i : Z) : option vst :=
    let '(s1, (start, stop, len)) := base_indices s in
    match fixup_one_index (Z.of_nat (stop - start)) (Ix i) 0 with
    | None => None
    | Some k =>
        let f := put_slice_spec (fld s) (start + Z.to_nat k) (S (start + Z.to_nat k)) [] in
        Some (bump s1 f (fun _ => Nat.max start (stop - 1)))
    end.

  (* v.insert(x, idx) / v.insert(xs, idx, one=False) *)
  Definition vinsert (s : vst) (i : idx) (new : list A) : vst :=
    let '(s1, (start, stop, len)) := base_indices s in
    let lenv := Z.of_nat (stop - start) in
    let k := match i with
             | End => stop
             | Ix z => if (z >? lenv)%Z then stop
                       else start + Z.to_nat (if (z >=? 0)%Z then z else Z.max 0 (z + lenv))
             end in
    let f := put_slice_spec (fld s) k k new in
    bump s1 f (fun st => st + length f - len).

  Definition vappend (s : vst) (x : A) : vst :=
    let '(s1, (_, stop, _)) := base_indices s in
    bump s1 (put_slice_spec (fld s) stop stop [x]) (fun _ => stop + 1).

  Definition vextend (s : vst) (new : list A) : vst :=
    let '(s1, (_, stop, len)) := base_indices s in
    let f := put_slice_spec (fld s) stop stop new in
    bump s1 f (fun _ => stop + (length f - len)).

  Definition vprepend (s : vst) (x : A) : vst :=
    let '(s1, (start, _, _)) := base_indices s in
    bump s1 (put_slice_spec (fld s) start start [x]) (fun st => st + 1).

  Definition vprextend (s : vst) (new : list A) : vst :=
    let '(s1, (start, _, len)) := base_indices s in
    let f := put_slice_spec (fld s) start start new in
    bump s1 f (fun st => st + length f - len).

  Definition vreplace (s : vst) (new : list A) : vst :=
    let '(s1, (start, stop, len)) := base_indices s in
    let f := put_slice_spec (fld s) start stop new in
    bump s1 f (fun st => st + length f - len).

  (* the field changes length behind the view's back (an edit through another handle) *)
  Definition external (s : vst) (f : list A) : vst := {| fld := f; vstart := vstart s; vstop := vstop s |}.

  (* v[a:b] -> sub-view *)
  Definition getitem_slice (s : vst) (a : Z) (b : idx) : option vst :=
    let '(s1, (start, stop, len)) := base_indices s in
    match fixup_slice_indices (Z.of_nat (stop - start)) (Ix a) b 0 with
    | None => None
    | Some (i0, i1) => Some {| fld := fld s; vstart := start + Z.to_nat i0; vstop := Some (start + Z.to_nat i1) |}
    end.

  Definition getitem_one (s : vst) (i : Z) : option A :=
    let '(s1, (start, stop, len)) := base_indices s in
    match fixup_one_index (Z.of_nat (stop - start)) (Ix i) 0 with
    | None => None
    | Some k => nth_error (fld s) (start + Z.to_nat k)
    end.
End V.
Arguments vst : clear implicits.
