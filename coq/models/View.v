(* Hand model of FSTView's window arithmetic (view.py: _base_indices, _fixup_item_indices, __setitem__, __delitem__,
   insert/append/extend/prepend/prextend/replace/remove, and a length change made elsewhere).
   The field is an abstract list; `_put_slice` is the abstract put_slice_spec (kernel/Container.v).
   Index normalisation is the TRANSLATED gen/Fixups.v.  Definitions only. *)
From Coq Require Import ZArith List Bool Lia.
From PF Require Import kernel.PyBase kernel.Container gen.Fixups.
Import ListNotations.
Local Open Scope nat_scope.

Section V.
  Context {A : Type}.

  Record vst := { fld : list A; vstart : nat; vstop : option nat }.

  (* _base_indices: heal and return (start, stop, len_field) *)
  Definition base_indices (s : vst) : vst * (nat * nat * nat) :=
    let len := length (fld s) in
    let '(stop, vstop') := match vstop s with
                           | None => (len, None)
                           | Some st => if Nat.ltb len st then (len, Some len) else (st, Some st)
                           end in
    let '(start, vstart') := if Nat.ltb stop (vstart s) then (stop, stop) else (vstart s, vstart s) in
    ({| fld := fld s; vstart := vstart'; vstop := vstop' |}, (start, stop, len)).

  Definition bump (s : vst) (f : list A) (newstop : nat -> nat) : vst :=
    {| fld := f; vstart := vstart s; vstop := option_map newstop (vstop s) |}.

  Definition vlen (s : vst) : nat := let '(_, (start, stop, _)) := base_indices s in stop - start.

  Definition vitems (s : vst) : list A :=
    let '(_, (start, stop, _)) := base_indices s in firstn (stop - start) (skipn start (fld s)).

  (* v[a:b] = new    (a: idx.start or 0; b: 'end' when idx.stop is None) *)
  Definition setitem_slice (s : vst) (a : Z) (b : idx) (new : list A) : option vst :=
    let '(s1, (start, stop, len)) := base_indices s in
    match fixup_slice_indices (Z.of_nat (stop - start)) (Ix a) b 0 with
    | None => None
    | Some (i0, i1) =>
        let f := put_slice_spec (fld s) (start + Z.to_nat i0) (start + Z.to_nat i1) new in
        Some (bump s1 f (fun st => st + length f - len))
    end.

  (* v[i] = x *)
  Definition setitem_one (s : vst) (i : Z) (x : A) : option vst :=
    let '(s1, (start, stop, len)) := base_indices s in
    match fixup_one_index (Z.of_nat (stop - start)) (Ix i) 0 with
    | None => None
    | Some k =>
        let f := put_slice_spec (fld s) (start + Z.to_nat k) (S (start + Z.to_nat k)) [x] in
        Some (bump s1 f (fun st => st + length f - len))
    end.

  (* del v[a:b] *)
  Definition delitem_slice (s : vst) (a : Z) (b : idx) : option vst :=
    let '(s1, (start, stop, len)) := base_indices s in
    match fixup_slice_indices (Z.of_nat (stop - start)) (Ix a) b 0 with
    | None => None
    | Some (i0, i1) =>
        let f := put_slice_spec (fld s) (start + Z.to_nat i0) (start + Z.to_nat i1) [] in
        Some (bump s1 f (fun _ => Nat.max start (stop - (Z.to_nat i1 - Z.to_nat i0))))
    end.

  (* del v[i] *)
  Definition delitem_one (s : vst) (i : Z) : option vst :=
    let '(s1, (start, stop, len)) := base_indices s in
    match fixup_one_index (Z.of_nat (stop - start)) (Ix i) 0 with
    | None => None
    | Some k =>
        let f := put_slice_spec (fld s) (start + Z.to_nat k) (S (start + Z.to_nat k)) [] in
        Some (bump s1 f (fun _ => Nat.max start (stop - 1)))
    end.

  (* v.insert(x, idx) / v.insert(xs, idx, one=False) *)
  Definition vinsert (s : vst) (i : idx) (new : list A) : vst :=
    let '(s1, (start, stop, len)) := base_indices s in
    let lenv := Z.of_nat (stop - start) in
    let k := match i with
             | End => stop
             | Ix z => if (z >? lenv)%Z then stop
                       else start + Z.to_nat (if (z >=? 0)%Z then z else Z.max 0 (z + lenv))
             end in
    let f := put_slice_spec (fld s) k k new in
    bump s1 f (fun st => st + length f - len).

  Definition vappend (s : vst) (x : A) : vst :=
    let '(s1, (_, stop, _)) := base_indices s in
    bump s1 (put_slice_spec (fld s) stop stop [x]) (fun _ => stop + 1).

  Definition vextend (s : vst) (new : list A) : vst :=
    let '(s1, (_, stop, len)) := base_indices s in
    let f := put_slice_spec (fld s) stop stop new in
    bump s1 f (fun _ => stop + (length f - len)).

  Definition vprepend (s : vst) (x : A) : vst :=
    let '(s1, (start, _, _)) := base_indices s in
    bump s1 (put_slice_spec (fld s) start start [x]) (fun st => st + 1).

  Definition vprextend (s : vst) (new : list A) : vst :=
    let '(s1, (start, _, len)) := base_indices s in
    let f := put_slice_spec (fld s) start start new in
    bump s1 f (fun st => st + length f - len).

  Definition vreplace (s : vst) (new : list A) : vst :=
    let '(s1, (start, stop, len)) := base_indices s in
    let f := put_slice_spec (fld s) start stop new in
    bump s1 f (fun st => st + length f - len).

  (* the field changes length behind the view's back (an edit through another handle) *)
  Definition external (s : vst) (f : list A) : vst := {| fld := f; vstart := vstart s; vstop := vstop s |}.

  (* v[a:b] -> sub-view *)
  Definition getitem_slice (s : vst) (a : Z) (b : idx) : option vst :=
    let '(s1, (start, stop, len)) := base_indices s in
    match fixup_slice_indices (Z.of_nat (stop - start)) (Ix a) b 0 with
    | None => None
    | Some (i0, i1) => Some {| fld := fld s; vstart := start + Z.to_nat i0; vstop := Some (start + Z.to_nat i1) |}
    end.

  Definition getitem_one (s : vst) (i : Z) : option A :=
    let '(s1, (start, stop, len)) := base_indices s in
    match fixup_one_index (Z.of_nat (stop - start)) (Ix i) 0 with
    | None => None
    | Some k => nth_error (fld s) (start + Z.to_nat k)
    end.
End V.
Arguments vst : clear implicits.

(* ---- executable op language for the correspondence check (elements are integers standing for distinct nodes) *)
Inductive vop :=
| OSetSlice (a : Z) (b : idx) (new : list Z) | OSetOne (i : Z) (x : Z)
| ODelSlice (a : Z) (b : idx) | ODelOne (i : Z)
| OInsert (i : idx) (new : list Z) | OAppend (x : Z) | OExtend (xs : list Z)
| OPrepend (x : Z) | OPrextend (xs : list Z) | OReplace (xs : list Z)
| OExternal (f : list Z).

Definition vstep (s : vst Z) (o : vop) : option (vst Z) :=
  match o with
  | OSetSlice a b new => setitem_slice s a b new
  | OSetOne i x => setitem_one s i x
  | ODelSlice a b => delitem_slice s a b
  | ODelOne i => delitem_one s i
  | OInsert i new => Some (vinsert s i new)
  | OAppend x => Some (vappend s x)
  | OExtend xs => Some (vextend s xs)
  | OPrepend x => Some (vprepend s x)
  | OPrextend xs => Some (vprextend s xs)
  | OReplace xs => Some (vreplace s xs)
  | OExternal f => Some (external s f)
  end.

(* observation after each op: (raised IndexError?, whole field, view items). Reading the items goes through _base_indices,
   which heals the window PERSISTENTLY (a window clipped by a shrunken field stays clipped when the field grows again) *)
Fixpoint vrun (s : vst Z) (ops : list vop) : list (bool * list Z * list Z) :=
  match ops with
  | [] => []
  | o :: r => match vstep s o with
              | Some s' => (false, fld s', vitems s') :: vrun (fst (base_indices s')) r
              | None => (true, fld s, vitems s) :: vrun (fst (base_indices s)) r
              end
  end.

Fixpoint lz_eqb (a b : list Z) : bool :=
  match a, b with [], [] => true | x :: a', y :: b' => Z.eqb x y && lz_eqb a' b' | _, _ => false end.
Fixpoint obs_eqb (a b : list (bool * list Z * list Z)) : bool :=
  match a, b with
  | [], [] => true
  | (e1, f1, i1) :: a', (e2, f2, i2) :: b' => Bool.eqb e1 e2 && lz_eqb f1 f2 && lz_eqb i1 i2 && obs_eqb a' b'
  | _, _ => false
  end.
Definition oz_eqb (a b : option Z) : bool :=
  match a, b with None, None => true | Some x, Some y => Z.eqb x y | _, _ => false end.
Definition ozz_eqb (a b : option (Z * Z)) : bool :=
  match a, b with None, None => true | Some (x, y), Some (u, v) => Z.eqb x u && Z.eqb y v | _, _ => false end.
