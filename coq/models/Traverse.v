(* C14 tables model: the DSL into which the generated sibling-stepping functions (traverse_next.py / traverse_prev.py)
   and the syntax-order lambdas (astutil._SYNTAX_ORDERED_CHILDREN) are TRANSLATED, its semantics over an abstract node
   (how many children each field holds), and the compatibility check between a stepping program and a child order. *)
From Coq Require Import List String Bool Arith.
Import ListNotations.

Inductive kind := Req | Opt | Star.                  (* ASDL: `expr x`, `expr? x`, `expr* x` *)
Inductive citem := CI (f : string) (k : kind).       (* one entry of a class's syntax-ordered child list *)

Inductive instr :=
| IdxStep (f : string)     (* next: if (idx := idx+1) < len(ast.f): return ast.f[idx] ; prev: if (idx := idx-1) >= 0 ... *)
| EndOf (f : string)       (* if a := ast.f: return a[0]   (prev: a[-1]) *)
| TryOpt (f : string)      (* if a := ast.f: return a *)
| RetReq (f : string)      (* return ast.f *)
| RetNone.                 (* return None *)

Inductive dir := Fwd | Bwd.

(* abstract node: number of children held by each field (Req: 1, Opt: 0 or 1, Star: any) *)
Definition occ := string -> nat.

Definition wf_occ (items : list citem) (o : occ) : Prop :=
  forall f k, In (CI f k) items -> match k with Req => o f = 1 | Opt => o f <= 1 | Star => True end.

(* positions (field, index) of all children in syntax order *)
Definition children_of (items : list citem) (o : occ) : list (string * nat) :=
  flat_map (fun it => let 'CI f _ := it in map (fun i => (f, i)) (seq 0 (o f))) items.
Definition children_dir (d : dir) (items : list citem) (o : occ) : list (string * nat) :=
  match d with Fwd => children_of items o | Bwd => rev (children_of items o) end.

Definition pos_eqb (a b : string * nat) : bool := String.eqb (fst a) (fst b) && Nat.eqb (snd a) (snd b).

(* the element following the first occurrence of x *)
Fixpoint succ_in (l : list (string * nat)) (x : string * nat) : option (string * nat) :=
  match l with
  | [] => None
  | a :: r => if pos_eqb a x then hd_error r else succ_in r x
  end.

(* execute a stepping program *)
Fixpoint exec (d : dir) (p : list instr) (o : occ) (idx : nat) : option (string * nat) :=
  match p with
  | [] => None
  | IdxStep f :: r =>
      match d with
      | Fwd => if Nat.ltb (S idx) (o f) then Some (f, S idx) else exec d r o idx
      | Bwd => if Nat.leb 1 idx then Some (f, idx - 1) else exec d r o idx
      end
  | EndOf f :: r => if Nat.ltb 0 (o f) then Some (f, match d with Fwd => 0 | Bwd => o f - 1 end) else exec d r o idx
  | TryOpt f :: r => if Nat.ltb 0 (o f) then Some (f, 0) else exec d r o idx
  | RetReq f :: _ => Some (f, 0)
  | RetNone :: _ => None
  end.

(* compatibility of a program with the items that FOLLOW (in direction d) the current field *)
Fixpoint compat_rest (p : list instr) (rest : list citem) : bool :=
  match rest, p with
  | [], [RetNone] => true
  | CI g Star :: rest', EndOf g' :: p' => String.eqb g g' && compat_rest p' rest'
  | CI g Opt :: rest', TryOpt g' :: p' => String.eqb g g' && compat_rest p' rest'
  | CI g Req :: rest', RetReq g' :: _ => String.eqb g g'
  | CI g Req :: rest', TryOpt g' :: p' => String.eqb g g' && compat_rest p' rest'   (* conservatively treated as optional *)
  | _, _ => false
  end.

Definition kind_eqb (a b : kind) : bool := match a, b with Req, Req | Opt, Opt | Star, Star => true | _, _ => false end.

(* split the (direction-ordered) items at field f: Some (kind of f, items after f) *)
Fixpoint after_field (f : string) (items : list citem) : option (kind * list citem) :=
  match items with
  | [] => None
  | CI g k :: r => if String.eqb f g then Some (k, r) else after_field f r
  end.

Definition items_dir (d : dir) (items : list citem) : list citem := match d with Fwd => items | Bwd => rev items end.

(* program for (class, Some field) / (class, None = START/END) against the class's child order *)
Definition compat (d : dir) (items : list citem) (f : option string) (p : list instr) : bool :=
  match f with
  | None => compat_rest p (items_dir d items)
  | Some f =>
      match after_field f (items_dir d items) with
      | None => false
      | Some (Star, rest) => match p with IdxStep f' :: p' => String.eqb f f' && compat_rest p' rest | _ => false end
      | Some (_, rest) => compat_rest p rest
      end
  end.

Fixpoint nodup_fields (items : list citem) : bool :=
  match items with
  | [] => true
  | CI f _ :: r => negb (existsb (fun it => let 'CI g _ := it in String.eqb f g) r) && nodup_fields r
  end.
