(* K8: walk(on='enter') of fst_traverse.py while the tree is being modified (C15). The walk keeps a stack of AST objects;
   popping one, it looks at `ast.f` (None when the node was detached by a replace/remove somewhere else: skipped), yields
   the FST handle, and AFTER the yield - during which the caller may have replaced or removed any nodes - reads the
   handle's CURRENT ast (`fst_.a`: the new node after a replace, None after a remove) and pushes the children of that.
   The heap records for every AST object id: its children, its creation-time parent, the FST handle it belongs to,
   whether it is attached (alive), and for every handle its current AST. The caller is an adversary that supplies the
   heap after each yield together with the send() decision; it is only constrained to `legal` mutations (existing
   objects keep parent and handle, new objects get fresh ids, the result is well formed). Hand model, tied to the code by
   correspondence (py/props/C15.py drives the real generator and the model with the same scripts). Definitions only. *)
From Coq Require Import List Bool Arith.
Import ListNotations.

Record heap := {
  next : nat;                        (* ids below next exist *)
  kids : nat -> list nat;            (* syntax-ordered children (None entries dropped) *)
  parent : nat -> option nat;        (* creation-time parent *)
  handle : nat -> nat;               (* the FST object this AST object belongs to *)
  alive : nat -> bool;               (* ast.f is not None *)
  okf : nat -> bool;                 (* the node passes the `all` filter of the walk (ctx / operator nodes do not by default) *)
  cur : nat -> option nat            (* handle -> its current AST (fst.a) *)
}.

Definition WF (h : heap) : Prop :=
  (forall c x, In x (kids h c) -> parent h x = Some c /\ x < next h) /\
  (forall c, NoDup (map (handle h) (kids h c))) /\
  (forall g c, cur h g = Some c -> handle h c = g /\ c < next h) /\
  (forall x y, x < next h -> y < next h -> handle h x = handle h y -> parent h x = parent h y).

(* what a mutation may do to what already exists *)
Definition legal (h h' : heap) : Prop :=
  next h <= next h' /\ (forall x, x < next h -> parent h' x = parent h x /\ handle h' x = handle h x).

Record wstate := { stack : list nat; seen : list nat; expanded : list nat; out : list nat }.

(* one iteration of the loop: adv = (heap after the yield, recurse decision) *)
Definition iter (h : heap) (adv : heap * bool) (s : wstate) : heap * wstate * bool (* consumed adv? *) :=
  match stack s with
  | [] => (h, s, false)
  | a :: st =>
      if alive h a && negb (okf h a) then
        (* attached but filtered out: not yielded, the caller is not consulted, its children are still walked *)
        (h, {| stack := kids h a ++ st; seen := a :: seen s; expanded := a :: expanded s; out := out s |}, false)
      else if alive h a then
        let '(h', d) := adv in
        let g := handle h a in
        let s1 := {| stack := st; seen := a :: seen s; expanded := expanded s; out := g :: out s |} in
        match (if d then cur h' g else None) with
        | Some c => (h', {| stack := kids h' c ++ st; seen := a :: seen s; expanded := c :: expanded s; out := g :: out s |}, true)
        | None => (h', s1, true)
        end
      else (h, {| stack := st; seen := a :: seen s; expanded := expanded s; out := out s |}, false)
  end.

Fixpoint run (fuel : nat) (h : heap) (advs : list (heap * bool)) (s : wstate) : heap * wstate :=
  match fuel with
  | 0 => (h, s)
  | S f =>
      match stack s with
      | [] => (h, s)
      | _ =>
          let adv := match advs with a :: _ => a | [] => (h, true) end in
          let '(h', s', used) := iter h adv s in
          run f h' (if used then tl advs else advs) s'
      end
  end.

Fixpoint legal_chain (h : heap) (advs : list (heap * bool)) : Prop :=
  match advs with
  | [] => True
  | (h', _) :: r => WF h' /\ legal h h' /\ legal_chain h' r
  end.

(* start: the walk root's children are on the stack, the root counts as expanded *)
Definition start (h : heap) (root : nat) : wstate :=
  {| stack := kids h root; seen := []; expanded := [root]; out := [] |}.

(* ---- executable checks of the hypotheses on concrete heaps (used by the correspondence) ---- *)
Definition nodupb (l : list nat) : bool :=
  (fix go (l : list nat) : bool := match l with [] => true | x :: r => negb (existsb (Nat.eqb x) r) && go r end) l.

Definition oeqb (a b : option nat) : bool :=
  match a, b with Some x, Some y => Nat.eqb x y | None, None => true | _, _ => false end.

Definition wf_check (h : heap) : bool :=
  let ids := seq 0 (next h) in
  forallb (fun c => forallb (fun x => oeqb (parent h x) (Some c) && Nat.ltb x (next h)) (kids h c) && nodupb (map (handle h) (kids h c))) ids &&
  forallb (fun g => match cur h g with Some c => Nat.eqb (handle h c) g && Nat.ltb c (next h) | None => true end) (map (handle h) ids) &&
  forallb (fun x => forallb (fun y => negb (Nat.eqb (handle h x) (handle h y)) || oeqb (parent h x) (parent h y)) ids) ids.

Definition legal_check (h h' : heap) : bool :=
  Nat.leb (next h) (next h') &&
  forallb (fun x => oeqb (parent h' x) (parent h x) && Nat.eqb (handle h' x) (handle h x)) (seq 0 (next h)).

Fixpoint chain_check (h : heap) (advs : list (heap * bool)) : bool :=
  match advs with
  | [] => true
  | (h', _) :: r => wf_check h' && legal_check h h' && chain_check h' r
  end.

(* table-driven heap *)
Definition tbl {A} (d : A) (l : list (nat * A)) (x : nat) : A :=
  match find (fun p => Nat.eqb (fst p) x) l with Some p => snd p | None => d end.
Definition mkheap (n : nat) (k : list (nat * list nat)) (p : list (nat * option nat)) (hd : list (nat * nat)) (al : list nat) (cu : list (nat * option nat)) (flt : list nat) : heap :=
  {| next := n; kids := tbl [] k; parent := tbl None p; handle := tbl 0 hd; alive := fun x => existsb (Nat.eqb x) al; cur := tbl None cu;
     okf := fun x => negb (existsb (Nat.eqb x) flt) |}.
