(* C14: the on='leave' and on='both' loops of walk() WITHOUT recursion (recurse=False), with the `all` filter: only the direct
   children of the walk root are looked at; one that passes the filter is yielded (entered and left at once when on='both'), one
   that does not pass is skipped and - unlike with recurse=True - nothing below it is visited.  Extends models/Walk.v (same trees,
   same stack items); for on='leave' the code turns the first level into "leaving" items before the loop.  Definitions only. *)
From Coq Require Import List Bool Arith.
From PF Require Import models.Walk.
Import ListNotations.

Fixpoint run_both_r (fuel : nat) (back recurse : bool) (stack : list sitem) : list (nat * bool) :=
  match fuel with
  | 0 => []
  | S f =>
      match stack with
      | [] => []
      | SLeave (RNode i ok _) :: s => if ok then (i, true) :: run_both_r f back recurse s else run_both_r f back recurse s
      | SEnter None :: s => run_both_r f back recurse s
      | SEnter (Some (RNode i ok kids)) :: s =>
          if ok then (i, false) :: run_both_r f back recurse ((if recurse then map SEnter (ord back kids) else []) ++ SLeave (RNode i ok kids) :: s)
          else run_both_r f back recurse ((if recurse then map SEnter (ord back kids) else []) ++ s)
      end
  end.

Definition walk_both_r (back recurse : bool) (t : rtree) : list (nat * bool) :=
  let 'RNode i ok kids := t in
  (if ok then [(i, false)] else []) ++ run_both_r (lsize (map SEnter kids)) back recurse (map SEnter (ord back kids))
  ++ (if ok then [(i, true)] else []).

Definition leave_items (kids : list (option rtree)) : list sitem :=
  flat_map (fun k => match k with Some k => [SLeave k] | None => [] end) kids.

Definition walk_leave_r (back recurse : bool) (t : rtree) : list nat :=
  let 'RNode i ok kids := t in
  (if recurse then run_leave (lsize (map SEnter kids)) back (map SEnter (ord back kids))
   else run_leave (length kids) back (leave_items (ord back kids)))
  ++ (if ok then [i] else []).

(* specifications of one level *)
Definition level (kids : list (option rtree)) : list nat :=
  flat_map (fun k => match k with Some (RNode i ok _) => if ok then [i] else [] | None => [] end) kids.
Definition level_both (kids : list (option rtree)) : list (nat * bool) :=
  flat_map (fun k => match k with Some (RNode i ok _) => if ok then [(i, false); (i, true)] else [] | None => [] end) kids.
