(* C18: the driver loop of match.py subn() over the match locations: `count` (limit on substituted locations, 0 = no
   limit), `loop` (False: one substitution per location; N > 0: at most N successive substitutions while the replaced node
   still matches; True or 0: until it no longer matches) and `callback` (asked before every substitution, truthy = skip
   and leave this location). A location is abstracted by the number of successive substitutions it can take before it
   stops matching (>= 1: it matched to begin with). Transcription of the loop, integers as in the code (loop True is
   stored as 0 and counts downwards through the negatives, count 0 likewise). Hand model, tied to the code by
   correspondence (py/props/C18.py stage_loop). Definitions only. *)
From Coq Require Import List Bool Arith ZArith.
Import ListNotations.
Local Open Scope Z_scope.

(* `loop` argument as stored after `if loop is True: loop = 0`: None = False (no looping) *)
Definition loopv := option Z.

(* the callback's answers, in call order; an exhausted list answers False (also: no callback at all) *)
Definition next_cb (cbs : list bool) : bool * list bool := match cbs with b :: r => (b, r) | [] => (false, []) end.

(* rounds at one location. fuel = substitutions the location can still take; returns substitutions done and the rest of the answers *)
Fixpoint rounds (fuel : nat) (done : nat) (l : loopv) (cbs : list bool) : nat * list bool :=
  let '(skip, cbs') := next_cb cbs in
  if skip then (done, cbs')
  else
    match fuel with
    | O => (done, cbs')                             (* not reached: a location is entered with fuel >= 1 and re-entered only if it re-matched *)
    | S f =>
        let done' := S done in
        match l with
        | None => (done', cbs')
        | Some z =>
            let z' := z - 1 in
            if z' =? 0 then (done', cbs')
            else match f with O => (done', cbs') | S _ => rounds f done' (Some z') cbs' end
        end
    end.

Record st := { count : Z; total : nat; cbs_left : list bool; per_loc : list nat }.

(* the for loop over the locations; `l0` is restored for every location *)
Fixpoint locs_run (locs : list nat) (l0 : loopv) (s : st) : st :=
  match locs with
  | [] => s
  | avail :: rest =>
      let '(d, cbs') := rounds avail 0 l0 (cbs_left s) in
      let s1 := {| count := count s; total := (total s + d)%nat; cbs_left := cbs'; per_loc := per_loc s ++ [d] |} in
      match d with
      | O => locs_run rest l0 s1
      | S _ =>
          let c := count s - 1 in
          let s2 := {| count := c; total := total s1; cbs_left := cbs'; per_loc := per_loc s1 |} in
          if c =? 0 then s2 else locs_run rest l0 s2
      end
  end.

Definition init (count0 : Z) (cbs : list bool) : st := {| count := count0; total := 0; cbs_left := cbs; per_loc := [] |}.

(* what subn() returns after `self`: (locations substituted, substitutions performed) *)
Definition reported (count0 : Z) (s : st) : Z * nat :=
  ((if count s <? 0 then - count s else count0 - count s), total s).

Definition subn_counts (locs : list nat) (l0 : loopv) (count0 : Z) (cbs : list bool) : Z * nat :=
  reported count0 (locs_run locs l0 (init count0 cbs)).

Definition nonzero (l : list nat) : nat := length (filter (fun d => negb (Nat.eqb d 0)) l).
Definition sum (l : list nat) : nat := fold_right Nat.add 0%nat l.

(* the entry of subn(): `if count < 0: count = 0` - a negative count is no limit, like 0 *)
Definition subn_entry (locs : list nat) (l0 : loopv) (count : Z) (cbs : list bool) : Z * nat :=
  subn_counts locs l0 (if count <? 0 then 0 else count) cbs.
