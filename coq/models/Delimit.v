(* K2c: putting a pair of one-character delimiters around a node T - `_delimit_node` (Tuple / MatchSequence: the delimiters
   become part of T) and `_parenthesize_grouping` (grouping parentheses: they stay outside T) - as the position map each node of
   the tree goes through.  HOW the two `_put_src` calls and the wrapping `self._offset` are made (tail / head / exclude /
   offset_excluded / self_) is TRANSLATED from the code (gen/DelimitCalls.v); what a call does to one node is `offset_spec`
   (models/Offset.v; the translated per-node rule equals it - offset_node_spec - and the walk maps it - walk_is_map) applied
   according to the node's ROLE: `exclude=self` stops the walk at T, `offset_excluded` says whether T itself is moved, the
   wrapping `self._offset` reaches only T's subtree.  Definitions only.
   NOT modelled: the `whole`-root variant which first removes a trailing line continuation or puts the closing delimiter on a
   new line after a comment, and the Starred special case of _parenthesize_grouping. *)
From Coq Require Import ZArith List Bool.
From PF Require Import kernel.OffsetBase gen.DelimitCalls models.Offset.
Import ListNotations.
Local Open Scope Z_scope.

Inductive role := ROther (* not below T: ancestors, siblings, everything else *) | RSelf | RInner (* below T *).

(* root._offset(lno, colo, 0, dcol, tail, head, exclude=T, offset_excluded=) *)
Definition put_at (pc : putcall) (lno colo dcol : Z) (r : role) (q : npos) : npos :=
  let sp := offset_spec lno colo 0 dcol (pc_tail pc) (pc_head pc) in
  match r with
  | ROther => sp q
  | RSelf => if pc_excl_self pc then (if pc_offset_excluded pc then sp q else q) else sp q
  | RInner => if pc_excl_self pc then q else sp q
  end.

(* T._offset(lno, colo, 0, dcol, tail, head, self_=) *)
Definition inner_at (ic : innercall) (lno colo dcol : Z) (r : role) (q : npos) : npos :=
  let sp := offset_spec lno colo 0 dcol (ic_tail ic) (ic_head ic) in
  match r with
  | ROther => q
  | RSelf => if ic_self ic then sp q else q
  | RInner => sp q
  end.

Definition set_end (q : npos) (el ec : Z) : npos := let '(l, c, _, _) := q in (l, c, el, ec).
Definition set_start (q : npos) (l c : Z) : npos := let '(_, _, el, ec) := q in (l, c, el, ec).

(* T = (ls, cs, le, ce).  The closing delimiter is put at T's end first, then the opening one at T's start; `own` = the
   delimiters belong to T, whose end and start are then assigned outright (ast.end_col_offset = ..., ast.col_offset = ...) *)
Definition wrap_pos (cl op : putcall) (ic : innercall) (own : bool) (ls cs le ce : Z) (r : role) (q : npos) : npos :=
  let q1 := put_at cl le ce 1 r q in
  let q1 := match r with RSelf => if own then set_end q1 le (ce + 1) else q1 | _ => q1 end in
  let q2 := inner_at ic ls cs 1 r (put_at op ls cs 1 r q1) in
  match r with RSelf => if own then set_start q2 ls cs else q2 | _ => q2 end.

Definition delimit_pos := wrap_pos delimit_close delimit_open delimit_inner true.
Definition group_pos := wrap_pos group_close group_open group_inner false.

(* where a character of the old text is afterwards: behind the opening delimiter if it is at or after T's start on that line,
   behind the closing one if at or after T's end on that line *)
Definition b2z (b : bool) : Z := if b then 1 else 0.
Definition char_col (ls cs le ce l c : Z) : Z :=
  c + b2z ((l =? ls) && (cs <=? c)) + b2z ((l =? le) && (ce <=? c)).

(* the same walk on a concrete tree shape, for the role reading of `exclude`: P(arent) [ T [ I(nner) ]; S(ibling) ] *)
Definition shape (p t i s : npos) : stree :=
  SNode 0 (Some p) None [Some (SNode 1 (Some t) None [Some (SNode 2 (Some i) None [])]); Some (SNode 3 (Some s) None [])].

(* removing ONE pair of grouping parentheses which hug T: `(` at (ls, cs), T from (ls, cs + 1) to (le, e), `)` at (le, e).
   No call excludes T (the flags are TRANSLATED: ungroup_close / ungroup_open), so every role goes through the same map. *)
Definition ungroup_pos (ls cs le e : Z) (r : role) (q : npos) : npos :=
  put_at ungroup_open ls (cs + 1) (-1) r (put_at ungroup_close le (e + 1) (-1) r q).

(* removing the delimiters of a sequence T whose elements hug them: `(` at (ls, cs), first element from (ls, cs + 1), last element
   (or its trailing comma) to (le, e), `)` at (le, e), T = (ls, cs, le, e + 1).  Flags TRANSLATED from _undelimit_node. *)
Definition undelimit_pos (ls cs le e : Z) (r : role) (q : npos) : npos :=
  put_at undelimit_open ls (cs + 1) (-1) r (put_at undelimit_close le (e + 1) (-1) r q).
