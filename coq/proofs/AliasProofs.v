(* C19: the alias name built back to front is the chain's identifiers in source order joined by dots; everything else is refused. *)
From Coq Require Import List String.
From PF Require Import models.Alias.
Import ListNotations.
Local Open Scope string_scope.

Lemma sapp_assoc (a b c : string) : (a ++ b) ++ c = a ++ (b ++ c).
Proof. induction a as [|ch a IH]; cbn; [reflexivity|now rewrite IH]. Qed.

Lemma sapp_nil_r (a : string) : a ++ "" = a.
Proof. induction a as [|ch a IH]; cbn; [reflexivity|now rewrite IH]. Qed.

Lemma concat_snoc (l : list string) (x : string) : l <> [] -> String.concat "." (l ++ [x])%list = String.concat "." l ++ "." ++ x.
Proof.
  induction l as [|y l IH]; intros Hne; [contradiction|].
  destruct l as [|z l'].
  - reflexivity.
  - change ((y :: z :: l') ++ [x])%list with (y :: ((z :: l') ++ [x]))%list.
    change (String.concat "." (y :: ((z :: l') ++ [x])%list)) with (y ++ "." ++ String.concat "." ((z :: l') ++ [x])%list).
    rewrite IH by discriminate.
    change (String.concat "." (y :: z :: l')) with (y ++ "." ++ String.concat "." (z :: l')).
    now rewrite !sapp_assoc.
Qed.

Lemma parts_nonempty e l : parts e = Some l -> l <> [].
Proof.
  destruct e as [id|v attr|]; cbn; intros H.
  - inversion H; discriminate.
  - destruct (parts v) as [l0|]; [|discriminate]. inversion H. destruct l0; discriminate.
  - discriminate.
Qed.

Lemma alias_loop_spec e : forall name, alias_loop e name = option_map (fun p => p ++ name) (dotted e).
Proof.
  unfold dotted. induction e as [id|v IH attr|]; intros name; cbn [alias_loop parts].
  - reflexivity.
  - rewrite IH. destruct (parts v) as [l|] eqn:E; cbn [option_map]; [|reflexivity].
    rewrite (concat_snoc l attr (parts_nonempty _ _ E)). now rewrite !sapp_assoc.
  - reflexivity.
Qed.

Theorem to_alias_is_dotted_path e : to_alias e = dotted e.
Proof.
  unfold to_alias. rewrite alias_loop_spec. destruct (dotted e) as [p|]; cbn; [now rewrite sapp_nil_r|reflexivity].
Qed.

Theorem to_alias_refuses_exactly_non_chains e : to_alias e = None <-> parts e = None.
Proof.
  rewrite to_alias_is_dotted_path. unfold dotted. destruct (parts e); cbn; split; intros H; congruence.
Qed.

Example alias_nonvacuous :
  to_alias (DAttr (DAttr (DAttr (DName "pkg") "sub") "mod") "name") = Some "pkg.sub.mod.name" /\
  parts (DAttr (DAttr (DName "a") "b") "c") = Some ["a"; "b"; "c"] /\
  to_alias (DAttr DOther "x") = None.
Proof. repeat split; reflexivity. Qed.
