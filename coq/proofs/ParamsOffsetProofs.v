(* The TRANSLATED _params_offset (gen/ParamsOffset.v) computes exactly the position map of the text splice:
   offset point = old end of the region in BYTES on the end line, dln = line delta, dcol = byte delta on that line. *)
From Coq Require Import ZArith NArith List Bool Lia Arith ZifyBool.
From PF Require Import kernel.PyBase kernel.Text gen.ParamsOffset proofs.TextProofs.
Import ListNotations.
Local Open Scope Z_scope.

Lemma py_line_nat (L : pytext) (i : nat) : (i < length L)%nat -> py_line L (Z.of_nat i) = lineAt L i.
Proof.
  intros H. unfold py_line, lineAt.
  destruct (Z.of_nat i <? 0) eqn:E1; [lia|].
  destruct ((Z.of_nat i <? 0) || (Z.of_nat i >=? Z.of_nat (length L))) eqn:E2; [lia|].
  now rewrite Nat2Z.id.
Qed.

Lemma nth_last {A} (l : list A) d : l <> [] -> nth (length l - 1) l d = last l d.
Proof.
  induction l as [|a l IH]; [congruence|]. intros _.
  destruct l as [|b l]; [reflexivity|].
  change (last (a :: b :: l) d) with (last (b :: l) d). rewrite <- IH by discriminate.
  cbn [length]. replace (S (S (length l)) - 1)%nat with (S (S (length l) - 1)) by lia. reflexivity.
Qed.

Lemma py_line_last (L : pytext) : L <> [] -> py_line L (-1) = last L [].
Proof.
  intros H. unfold py_line. cbn [Z.ltb Z.compare].
  assert (Hl : (0 < length L)%nat) by (destruct L; [congruence|cbn; lia]).
  destruct ((-1 + Z.of_nat (length L) <? 0) || (-1 + Z.of_nat (length L) >=? Z.of_nat (length L))) eqn:E; [lia|].
  replace (Z.to_nat (-1 + Z.of_nat (length L))) with (length L - 1)%nat by lia.
  now apply nth_last.
Qed.

Lemma py_prefix_nat (l : pyline) (k : nat) : py_prefix l (Z.of_nat k) = firstn k l.
Proof. unfold py_prefix. destruct (Z.of_nat k <? 0) eqn:E; [lia|]. now rewrite Nat2Z.id. Qed.

Lemma blen_nat_app a b : blen_nat (a ++ b) = (blen_nat a + blen_nat b)%nat.
Proof. induction a as [|c a IH]; [reflexivity|]. cbn [app blen_nat]. lia. Qed.

Theorem params_offset_correct (L put : pytext) (ln col eln ecol : nat) :
  valid_loc L ln col eln ecol -> put <> [] ->
  params_offset L put (Z.of_nat ln) (Z.of_nat col) (Z.of_nat eln) (Z.of_nat ecol)
  = Some (Z.of_nat eln,
          - Z.of_nat (c2b (lineAt L eln) ecol),
          Z.of_nat (length put - 1) - Z.of_nat (eln - ln),
          Z.of_nat (blen_nat (new_prefix L put ln col)) - Z.of_nat (c2b (lineAt L eln) ecol)).
Proof.
  intros (Hle & Hlen & Hc & Hec & Hsame) Hp. unfold params_offset, c2b, blen.
  rewrite !py_line_nat by lia. rewrite !py_prefix_nat. rewrite py_line_last by assumption.
  assert (Hl : (0 < length put)%nat) by (destruct put; [congruence|cbn; lia]).
  destruct (Z.of_nat (length put) - 1 =? 0) eqn:E.
  - (* single new line *)
    assert (H1 : length put = 1%nat) by lia.
    destruct put as [|p [|q r]]; cbn [length] in H1; try lia.
    cbn [new_prefix last length]. rewrite blen_nat_app. repeat match goal with |- (_, _) = (_, _) => apply f_equal2 | |- Some _ = Some _ => apply f_equal end; lia.
  - assert (H1 : (2 <= length put)%nat) by lia.
    destruct put as [|p [|q r]]; cbn [length] in H1; try lia.
    cbn [new_prefix]. repeat match goal with |- (_, _) = (_, _) => apply f_equal2 | |- Some _ = Some _ => apply f_equal end; lia.
Qed.
