(* Proofs about models/Delimit.v: where every node of the tree is after a pair of delimiters was put around T. *)
From Coq Require Import ZArith List Bool Lia ZifyBool.
From PF Require Import kernel.OffsetBase gen.DelimitCalls models.Offset models.Delimit proofs.OffsetProofs.
Import ListNotations.
Local Open Scope Z_scope.

Ltac pos_side := unfold pos_le, pos_lt in *; lia.
Ltac spec_crush :=
  unfold pos_le, pos_lt, offset_spec, move_point, start_moves_at, end_moves_at, is_fwd; cbn [tri_eqb]; intros;
  repeat match goal with |- context [if ?c then _ else _] => let E := fresh "E" in destruct c eqn:E end;
  try (exfalso; lia); repeat match goal with |- (_, _) = (_, _) => apply f_equal2 end; lia.

(* ---- one call, by where the node lies relative to the point (one character put, no new line) ------------------------- *)

(* a non-empty node which starts at or after the point moves rigidly - if it starts exactly AT the point only with head=True *)
Lemma step_after tail lno colo l c el ec :
  pos_lt l c el ec = true -> pos_le lno colo l c = true ->
  offset_spec lno colo 0 1 tail TTrue (l, c, el, ec)
  = (l, c + (if l =? lno then 1 else 0), el, ec + (if el =? lno then 1 else 0)).
Proof. destruct tail; spec_crush. Qed.

Lemma step_strictly_after tail head lno colo l c el ec :
  pos_lt l c el ec = true -> pos_lt lno colo l c = true ->
  offset_spec lno colo 0 1 tail head (l, c, el, ec)
  = (l, c + (if l =? lno then 1 else 0), el, ec + (if el =? lno then 1 else 0)).
Proof. destruct tail, head; spec_crush. Qed.

(* a non-empty node which ends before the point stays - if it ends exactly AT the point only with tail=False *)
Lemma step_before head lno colo l c el ec :
  pos_lt l c el ec = true -> pos_le el ec lno colo = true ->
  offset_spec lno colo 0 1 TFalse head (l, c, el, ec) = (l, c, el, ec).
Proof. destruct head; spec_crush. Qed.

Lemma step_strictly_before tail head lno colo l c el ec :
  pos_lt l c el ec = true -> pos_lt el ec lno colo = true ->
  offset_spec lno colo 0 1 tail head (l, c, el, ec) = (l, c, el, ec).
Proof. destruct tail, head; spec_crush. Qed.

(* a node around the point keeps its start and its end follows: at a start exactly AT the point only with head=False, at
   an end exactly AT the point only with tail=True *)
Lemma step_around_close lno colo l c el ec :
  pos_lt l c lno colo = true -> pos_le lno colo el ec = true ->
  offset_spec lno colo 0 1 TTrue TTrue (l, c, el, ec) = (l, c, el, ec + (if el =? lno then 1 else 0)).
Proof. spec_crush. Qed.

Lemma step_around_open lno colo l c el ec :
  pos_le l c lno colo = true -> pos_lt lno colo el ec = true ->
  offset_spec lno colo 0 1 TFalse TFalse (l, c, el, ec) = (l, c, el, ec + (if el =? lno then 1 else 0)).
Proof. spec_crush. Qed.

(* ---- the role reading of exclude / offset_excluded is what the tree walk's map does ------------------------------------- *)
Lemma put_at_is_map_tree pc lno colo p t i s : pc_excl_self pc = true ->
  map_tree lno colo 0 1 (pc_tail pc) (pc_head pc) (Some 1%nat) (pc_offset_excluded pc) (shape p t i s)
  = shape (put_at pc lno colo 1 ROther p) (put_at pc lno colo 1 RSelf t) (put_at pc lno colo 1 RInner i) (put_at pc lno colo 1 ROther s).
Proof.
  intros E. unfold shape, put_at. rewrite E. cbn [map_tree Nat.eqb andb negb map option_map].
  destruct (pc_offset_excluded pc); reflexivity.
Qed.

(* ---- the flags the code uses (TRANSLATED): a change of any of them breaks these ------------------------------------------ *)
Lemma delimit_flags :
  delimit_close = {| pc_tail := TTrue; pc_head := TTrue; pc_excl_self := true; pc_offset_excluded := true |}
  /\ delimit_open = {| pc_tail := TFalse; pc_head := TFalse; pc_excl_self := true; pc_offset_excluded := true |}
  /\ delimit_inner = {| ic_tail := TFalse; ic_head := TTrue; ic_self := false |}.
Proof. repeat split; reflexivity. Qed.

Lemma group_flags :
  group_close = {| pc_tail := TTrue; pc_head := TTrue; pc_excl_self := true; pc_offset_excluded := false |}
  /\ group_open = {| pc_tail := TFalse; pc_head := TFalse; pc_excl_self := true; pc_offset_excluded := false |}
  /\ group_inner = {| ic_tail := TFalse; ic_head := TTrue; ic_self := true |}.
Proof. repeat split; reflexivity. Qed.

(* where text is afterwards; the END of a span is one past its last character *)
Definition end_col (ls cs le ce el ec : Z) : Z :=
  ec + b2z ((el =? ls) && (cs <? ec)) + b2z ((el =? le) && (ce <? ec)).

Ltac open_flags :=
  unfold delimit_pos, group_pos, wrap_pos;
  destruct delimit_flags as (-> & -> & ->) || destruct group_flags as (-> & -> & ->).

Ltac finish := unfold char_col, end_col, b2z;
  repeat match goal with |- context [if ?c then _ else _] => let E := fresh "E" in destruct c eqn:E end;
  try (exfalso; pos_side); repeat match goal with |- (_, _) = (_, _) => apply f_equal2 end; pos_side.

Section Wrap.
  Variables ls cs le ce : Z.
  Hypothesis HT : pos_lt ls cs le ce = true.

  (* -- nodes which are neither T nor around T nor below T: both calls see them as ROther -- *)
  Lemma others_after cl_pos l c el ec :
    cl_pos = offset_spec ls cs 0 1 TFalse TFalse (offset_spec le ce 0 1 TTrue TTrue (l, c, el, ec)) ->
    pos_lt l c el ec = true -> pos_le le ce l c = true ->
    cl_pos = (l, char_col ls cs le ce l c, el, end_col ls cs le ce el ec).
  Proof.
    intros -> Hne Haf. rewrite step_after by assumption.
    destruct (l =? le) eqn:E1, (el =? le) eqn:E2;
      (rewrite step_strictly_after by pos_side); finish.
  Qed.

  Lemma others_before cl_pos l c el ec :
    cl_pos = offset_spec ls cs 0 1 TFalse TFalse (offset_spec le ce 0 1 TTrue TTrue (l, c, el, ec)) ->
    pos_lt l c el ec = true -> pos_le el ec ls cs = true ->
    cl_pos = (l, char_col ls cs le ce l c, el, end_col ls cs le ce el ec).
  Proof.
    intros -> Hne Hbe. rewrite step_strictly_before by pos_side. rewrite step_before by assumption. finish.
  Qed.

  Lemma others_around cl_pos l c el ec :
    cl_pos = offset_spec ls cs 0 1 TFalse TFalse (offset_spec le ce 0 1 TTrue TTrue (l, c, el, ec)) ->
    pos_le l c ls cs = true -> pos_le le ce el ec = true ->
    cl_pos = (l, c, el, ec + b2z (el =? ls) + b2z (el =? le)).
  Proof.
    intros -> Hs He. rewrite step_around_close by pos_side.
    destruct (el =? le) eqn:E2; (rewrite step_around_open by pos_side); finish.
  Qed.

  Lemma inner_moves l c el ec :
    pos_lt l c el ec = true -> pos_le ls cs l c = true -> pos_le el ec le ce = true ->
    offset_spec ls cs 0 1 TFalse TTrue (l, c, el, ec) = (l, char_col ls cs le ce l c, el, end_col ls cs le ce el ec).
  Proof. intros Hne Hs He. rewrite step_after by assumption. finish. Qed.
End Wrap.

(* ---- _delimit_node ------------------------------------------------------------------------------------------------------ *)
Theorem delimit_self ls cs le ce : pos_lt ls cs le ce = true ->
  delimit_pos ls cs le ce RSelf (ls, cs, le, ce) = (ls, cs, le, ce + 1 + b2z (le =? ls)).
Proof.
  intros HT. open_flags. cbn [put_at inner_at pc_excl_self pc_offset_excluded pc_tail pc_head ic_self].
  rewrite step_around_close by pos_side. cbn [set_end]. destruct (le =? le) eqn:E; [|lia].
  rewrite step_around_open by pos_side. cbn [set_start]. finish.
Qed.

Theorem delimit_frame ls cs le ce l c el ec : pos_lt ls cs le ce = true -> pos_lt l c el ec = true ->
  pos_le el ec ls cs = true \/ pos_le le ce l c = true ->
  delimit_pos ls cs le ce ROther (l, c, el, ec) = (l, char_col ls cs le ce l c, el, end_col ls cs le ce el ec).
Proof.
  intros HT Hne [H|H]; open_flags; cbn [put_at inner_at pc_tail pc_head];
    [eapply others_before | eapply others_after]; eauto.
Qed.

Theorem delimit_inner_frame ls cs le ce l c el ec : pos_lt ls cs le ce = true -> pos_lt l c el ec = true ->
  pos_le ls cs l c = true -> pos_le el ec le ce = true ->
  delimit_pos ls cs le ce RInner (l, c, el, ec) = (l, char_col ls cs le ce l c, el, end_col ls cs le ce el ec).
Proof.
  intros HT Hne Hs He. open_flags. cbn [put_at inner_at pc_excl_self ic_tail ic_head]. now apply inner_moves.
Qed.

Theorem delimit_ancestors ls cs le ce l c el ec : pos_lt ls cs le ce = true ->
  pos_le l c ls cs = true -> pos_le le ce el ec = true ->
  delimit_pos ls cs le ce ROther (l, c, el, ec) = (l, c, el, ec + b2z (el =? ls) + b2z (el =? le)).
Proof. intros HT Hs He. open_flags. cbn [put_at inner_at pc_tail pc_head]. eapply others_around; eauto. Qed.

(* what follows T starts at or after T's new end: never inside the closing delimiter *)
Theorem delimit_next_not_overlapped ls cs le ce l c el ec : pos_lt ls cs le ce = true -> pos_lt l c el ec = true ->
  pos_le le ce l c = true ->
  let '(_, _, tel, tec) := delimit_pos ls cs le ce RSelf (ls, cs, le, ce) in
  let '(l', c', _, _) := delimit_pos ls cs le ce ROther (l, c, el, ec) in
  pos_le tel tec l' c' = true.
Proof.
  intros HT Hne Haf. rewrite delimit_self by assumption. rewrite delimit_frame by auto.
  unfold char_col, b2z.
  repeat match goal with |- context [if ?c then _ else _] => let E := fresh "E" in destruct c eqn:E end; pos_side.
Qed.

(* with head=False on the closing put (any other flags as they are) a node that starts where T ended is left inside it *)
Theorem close_head_false_overlaps :
  let cl := {| pc_tail := TTrue; pc_head := TFalse; pc_excl_self := true; pc_offset_excluded := true |} in
  let '(_, _, tel, tec) := wrap_pos cl delimit_open delimit_inner true 1 3 1 6 RSelf (1, 3, 1, 6) in
  let '(l', c', _, _) := wrap_pos cl delimit_open delimit_inner true 1 3 1 6 ROther (1, 6, 1, 8) in
  pos_lt l' c' tel tec = true.
Proof. vm_compute. reflexivity. Qed.

(* ---- _parenthesize_grouping --------------------------------------------------------------------------------------------- *)
Theorem group_self ls cs le ce : pos_lt ls cs le ce = true ->
  group_pos ls cs le ce RSelf (ls, cs, le, ce) = (ls, cs + 1, le, ce + b2z (le =? ls)).
Proof.
  intros HT. open_flags. cbn [put_at inner_at pc_excl_self pc_offset_excluded ic_self ic_tail ic_head].
  rewrite step_after by pos_side. finish.
Qed.

Theorem group_frame ls cs le ce l c el ec : pos_lt ls cs le ce = true -> pos_lt l c el ec = true ->
  pos_le el ec ls cs = true \/ pos_le le ce l c = true ->
  group_pos ls cs le ce ROther (l, c, el, ec) = (l, char_col ls cs le ce l c, el, end_col ls cs le ce el ec).
Proof.
  intros HT Hne [H|H]; open_flags; cbn [put_at inner_at pc_tail pc_head];
    [eapply others_before | eapply others_after]; eauto.
Qed.

Theorem group_inner_frame ls cs le ce l c el ec : pos_lt ls cs le ce = true -> pos_lt l c el ec = true ->
  pos_le ls cs l c = true -> pos_le el ec le ce = true ->
  group_pos ls cs le ce RInner (l, c, el, ec) = (l, char_col ls cs le ce l c, el, end_col ls cs le ce el ec).
Proof.
  intros HT Hne Hs He. open_flags. cbn [put_at inner_at pc_excl_self ic_tail ic_head]. now apply inner_moves.
Qed.

Theorem group_ancestors ls cs le ce l c el ec : pos_lt ls cs le ce = true ->
  pos_le l c ls cs = true -> pos_le le ce el ec = true ->
  group_pos ls cs le ce ROther (l, c, el, ec) = (l, c, el, ec + b2z (el =? ls) + b2z (el =? le)).
Proof. intros HT Hs He. open_flags. cbn [put_at inner_at pc_tail pc_head]. eapply others_around; eauto. Qed.

(* T keeps its text (it is moved like the characters it spans) and lies strictly inside the parentheses *)
Theorem group_self_is_text ls cs le ce : pos_lt ls cs le ce = true ->
  group_pos ls cs le ce RSelf (ls, cs, le, ce) = (ls, char_col ls cs le ce ls cs, le, end_col ls cs le ce le ce).
Proof. intros HT. rewrite group_self by assumption. finish. Qed.

(* non-vacuity: x = f'{a,b:x}' - the tuple at columns 7..10 of line 1, the format specification starts at 10 *)
Example delimit_fstring_field :
  delimit_pos 1 7 1 10 RSelf (1, 7, 1, 10) = (1, 7, 1, 12) /\ delimit_pos 1 7 1 10 ROther (1, 10, 1, 12) = (1, 12, 1, 14)
  /\ delimit_pos 1 7 1 10 RInner (1, 9, 1, 10) = (1, 10, 1, 11) /\ delimit_pos 1 7 1 10 ROther (1, 4, 1, 14) = (1, 4, 1, 16).
Proof. vm_compute. repeat split. Qed.

(* ---- _unparenthesize_grouping undoes _parenthesize_grouping on every node ------------------------------------------------------ *)

(* one deleted character: a non-empty node which starts at or after the point moves back rigidly (at the point: head=True) *)
Lemma bstep_after tail lno colo l c el ec :
  pos_lt l c el ec = true -> pos_le lno colo l c = true ->
  offset_spec lno colo 0 (-1) tail TTrue (l, c, el, ec)
  = (l, c - (if l =? lno then 1 else 0), el, ec - (if el =? lno then 1 else 0)).
Proof. destruct tail; spec_crush. Qed.

Lemma bstep_strictly_before tail head lno colo l c el ec :
  pos_le l c el ec = true -> pos_lt el ec lno colo = true ->
  offset_spec lno colo 0 (-1) tail head (l, c, el, ec) = (l, c, el, ec).
Proof. destruct tail, head; spec_crush. Qed.

Lemma bstep_around_tail lno colo l c el ec :
  pos_lt l c lno colo = true -> pos_le lno colo el ec = true ->
  offset_spec lno colo 0 (-1) TTrue TTrue (l, c, el, ec) = (l, c, el, ec - (if el =? lno then 1 else 0)).
Proof. spec_crush. Qed.

Lemma bstep_around_strict tail head lno colo l c el ec :
  pos_lt l c lno colo = true -> pos_lt lno colo el ec = true ->
  offset_spec lno colo 0 (-1) tail head (l, c, el, ec) = (l, c, el, ec - (if el =? lno then 1 else 0)).
Proof. destruct tail, head; spec_crush. Qed.

Lemma ungroup_flags :
  ungroup_close = {| pc_tail := TTrue; pc_head := TTrue; pc_excl_self := false; pc_offset_excluded := true |}
  /\ ungroup_open = {| pc_tail := TFalse; pc_head := TTrue; pc_excl_self := false; pc_offset_excluded := true |}.
Proof. split; reflexivity. Qed.

Ltac case_ifs :=
  repeat match goal with |- context [if ?c then _ else _] => let E := fresh "E" in destruct c eqn:E; try (exfalso; pos_side) end.
Lemma put_at_all pc lno colo d r q : pc_excl_self pc = false -> put_at pc lno colo d r q = offset_spec lno colo 0 d (pc_tail pc) (pc_head pc) q.
Proof. intros E. unfold put_at. rewrite E. destruct r; reflexivity. Qed.

Section RoundTrip.
  Variables ls cs le ce : Z.
  Hypothesis HT : pos_lt ls cs le ce = true.
  Let e := ce + b2z (le =? ls).

  Lemma undo_pos r l c el ec :
    ungroup_pos ls cs le e r (l, c, el, ec)
    = offset_spec ls (cs + 1) 0 (-1) TFalse TTrue (offset_spec le (e + 1) 0 (-1) TTrue TTrue (l, c, el, ec)).
  Proof. unfold ungroup_pos. destruct ungroup_flags as (-> & ->). rewrite !put_at_all by reflexivity. reflexivity. Qed.

  Theorem ungroup_group_self : ungroup_pos ls cs le e RSelf (group_pos ls cs le ce RSelf (ls, cs, le, ce)) = (ls, cs, le, ce).
  Proof.
    rewrite group_self by assumption. rewrite undo_pos. subst e. unfold b2z. case_ifs;
      (rewrite bstep_strictly_before by pos_side); (rewrite bstep_after by pos_side); finish.
  Qed.

  Theorem ungroup_group_inner l c el ec : pos_lt l c el ec = true -> pos_le ls cs l c = true -> pos_le el ec le ce = true ->
    ungroup_pos ls cs le e RInner (group_pos ls cs le ce RInner (l, c, el, ec)) = (l, c, el, ec).
  Proof.
    intros Hne Hs He. rewrite group_inner_frame by assumption. rewrite undo_pos. subst e. unfold char_col, end_col, b2z. case_ifs;
      (rewrite bstep_strictly_before by pos_side); (rewrite bstep_after by pos_side); finish.
  Qed.

  Theorem ungroup_group_after l c el ec : pos_lt l c el ec = true -> pos_le le ce l c = true ->
    ungroup_pos ls cs le e ROther (group_pos ls cs le ce ROther (l, c, el, ec)) = (l, c, el, ec).
  Proof.
    intros Hne Haf. rewrite group_frame by auto. rewrite undo_pos. subst e. unfold char_col, end_col, b2z. case_ifs;
      (rewrite bstep_after by pos_side); (rewrite bstep_after by (case_ifs; pos_side)); finish.
  Qed.

  Theorem ungroup_group_before l c el ec : pos_lt l c el ec = true -> pos_le el ec ls cs = true ->
    ungroup_pos ls cs le e ROther (group_pos ls cs le ce ROther (l, c, el, ec)) = (l, c, el, ec).
  Proof.
    intros Hne Hbe. rewrite group_frame by auto. rewrite undo_pos. subst e. unfold char_col, end_col, b2z. case_ifs;
      (rewrite bstep_strictly_before by pos_side); (rewrite bstep_strictly_before by pos_side); finish.
  Qed.

  Theorem ungroup_group_ancestors l c el ec : pos_le l c ls cs = true -> pos_le le ce el ec = true ->
    ungroup_pos ls cs le e ROther (group_pos ls cs le ce ROther (l, c, el, ec)) = (l, c, el, ec).
  Proof.
    intros Hs He. rewrite group_ancestors by assumption. rewrite undo_pos. subst e. unfold b2z. case_ifs;
      (rewrite bstep_around_tail by pos_side); case_ifs; (rewrite bstep_around_strict by pos_side); finish.
  Qed.
End RoundTrip.

(* ---- _undelimit_node undoes _delimit_node on every node ----------------------------------------------------------------------- *)
Lemma undelimit_flags :
  undelimit_close = {| pc_tail := TTrue; pc_head := TTrue; pc_excl_self := false; pc_offset_excluded := true |}
  /\ undelimit_open = {| pc_tail := TFalse; pc_head := TTrue; pc_excl_self := false; pc_offset_excluded := true |}.
Proof. split; reflexivity. Qed.

Section RoundTripOwn.
  Variables ls cs le ce : Z.
  Hypothesis HT : pos_lt ls cs le ce = true.
  Let e := ce + b2z (le =? ls).

  Lemma undo_own_pos r l c el ec :
    undelimit_pos ls cs le e r (l, c, el, ec)
    = offset_spec ls (cs + 1) 0 (-1) TFalse TTrue (offset_spec le (e + 1) 0 (-1) TTrue TTrue (l, c, el, ec)).
  Proof. unfold undelimit_pos. destruct undelimit_flags as (-> & ->). rewrite !put_at_all by reflexivity. reflexivity. Qed.

  Theorem undelimit_delimit_self : undelimit_pos ls cs le e RSelf (delimit_pos ls cs le ce RSelf (ls, cs, le, ce)) = (ls, cs, le, ce).
  Proof.
    rewrite delimit_self by assumption. rewrite undo_own_pos. subst e. unfold b2z. case_ifs;
      (rewrite bstep_around_tail by pos_side); case_ifs; (rewrite bstep_around_strict by pos_side); finish.
  Qed.

  Theorem undelimit_delimit_inner l c el ec : pos_lt l c el ec = true -> pos_le ls cs l c = true -> pos_le el ec le ce = true ->
    undelimit_pos ls cs le e RInner (delimit_pos ls cs le ce RInner (l, c, el, ec)) = (l, c, el, ec).
  Proof.
    intros Hne Hs He. rewrite delimit_inner_frame by assumption. rewrite undo_own_pos. subst e. unfold char_col, end_col, b2z. case_ifs;
      (rewrite bstep_strictly_before by pos_side); (rewrite bstep_after by pos_side); finish.
  Qed.

  Theorem undelimit_delimit_after l c el ec : pos_lt l c el ec = true -> pos_le le ce l c = true ->
    undelimit_pos ls cs le e ROther (delimit_pos ls cs le ce ROther (l, c, el, ec)) = (l, c, el, ec).
  Proof.
    intros Hne Haf. rewrite delimit_frame by auto. rewrite undo_own_pos. subst e. unfold char_col, end_col, b2z. case_ifs;
      (rewrite bstep_after by pos_side); (rewrite bstep_after by (case_ifs; pos_side)); finish.
  Qed.

  Theorem undelimit_delimit_before l c el ec : pos_lt l c el ec = true -> pos_le el ec ls cs = true ->
    undelimit_pos ls cs le e ROther (delimit_pos ls cs le ce ROther (l, c, el, ec)) = (l, c, el, ec).
  Proof.
    intros Hne Hbe. rewrite delimit_frame by auto. rewrite undo_own_pos. subst e. unfold char_col, end_col, b2z. case_ifs;
      (rewrite bstep_strictly_before by pos_side); (rewrite bstep_strictly_before by pos_side); finish.
  Qed.

  Theorem undelimit_delimit_ancestors l c el ec : pos_le l c ls cs = true -> pos_le le ce el ec = true ->
    undelimit_pos ls cs le e ROther (delimit_pos ls cs le ce ROther (l, c, el, ec)) = (l, c, el, ec).
  Proof.
    intros Hs He. rewrite delimit_ancestors by assumption. rewrite undo_own_pos. subst e. unfold b2z. case_ifs;
      (rewrite bstep_around_tail by pos_side); case_ifs; (rewrite bstep_around_strict by pos_side); finish.
  Qed.
End RoundTripOwn.
