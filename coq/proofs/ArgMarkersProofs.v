(* C03: the markers render() places make Python read every parameter in the category it has in the list. *)
From Coq Require Import List Bool Arith Lia.
From PF Require Import models.ArgMarkers.
Import ListNotations.

Lemma ok_cons p e r : ok p (e :: r) = true -> p <= cnum (fst e) /\ (p = cnum (fst e) -> cnum (fst e) <> 2 /\ cnum (fst e) <> 4) /\ ok (cnum (fst e)) r = true.
Proof.
  cbn [ok]. intros H. apply andb_true_iff in H. destruct H as [H H3]. apply andb_true_iff in H. destruct H as [H1 H2].
  apply Nat.leb_le in H1. split; [exact H1|]. split; [|exact H3]. intros E. rewrite E, Nat.eqb_refl in H2. cbn in H2.
  destruct (Nat.eqb_spec (cnum (fst e)) 2), (Nat.eqb_spec (cnum (fst e)) 4); cbn in H2; try discriminate. split; assumption.
Qed.

(* behind the positional-only block: prev is 1 (ordinary / nothing), 2 (the vararg) or 3 (keyword-only) *)
Lemma tail_ok : forall l p, 1 <= p <= 3 -> ok p l = true -> parse_tail (Nat.leb 2 p) (render p l) = Some l.
Proof.
  induction l as [|[c n] r IH]; intros p Hp Hok.
  - cbn [render]. destruct (Nat.eqb_spec p 0); [lia|]. reflexivity.
  - destruct (ok_cons _ _ _ Hok) as (Hle & Hne & Hr). cbn [fst snd] in *. cbn [render fst snd].
    destruct (Nat.eqb_spec p 0) as [|_]; [lia|]. cbn [andb app].
    destruct c; cbn [cnum] in *.
    + lia.
    + (* Arg *) assert (p = 1) by lia. subst p.
      pose proof (IH 1 ltac:(lia) Hr) as E. cbn [Nat.leb] in E.
      cbn [Nat.eqb andb app name_tok fst snd Nat.leb parse_tail]. rewrite E. reflexivity.
    + (* Var *) assert (p = 1) by (destruct (Nat.eq_dec p 2) as [E|E]; [destruct (Hne E); lia|lia]). subst p.
      pose proof (IH 2 ltac:(lia) Hr) as E. cbn [Nat.leb] in E.
      cbn [Nat.eqb andb app name_tok fst snd Nat.leb parse_tail]. rewrite E. reflexivity.
    + (* Kwo *) pose proof (IH 3 ltac:(lia) Hr) as E. cbn [Nat.leb] in E.
      cbn [Nat.eqb name_tok fst snd].
      assert (C : p = 1 \/ p = 2 \/ p = 3) by lia. destruct C as [->|[->| ->]]; cbn [Nat.eqb orb negb andb app Nat.leb parse_tail]; rewrite E; reflexivity.
    + (* Kw: last *) cbn [Nat.eqb andb app name_tok fst snd].
      destruct r as [|[c2 n2] r2].
      * cbn [render Nat.eqb]. destruct (Nat.leb 2 p); reflexivity.
      * destruct (ok_cons _ _ _ Hr) as (Hle2 & Hne2 & _). cbn [fst cnum] in *. destruct c2; cbn [cnum] in *; lia.
Qed.

Lemma take_ids_block ns X : (match X with TId _ :: _ => False | _ => True end) ->
  take_ids (map TId ns ++ X) = (ns, X).
Proof.
  intros HX. induction ns as [|n ns IH]; cbn [map app take_ids].
  - destruct X as [|[]]; try reflexivity. destruct HX.
  - rewrite IH. reflexivity.
Qed.

(* the positional-only block in front *)
Lemma split_pos : forall l, ok 0 l = true -> exists ns rest, l = map (fun n => (Pos, n)) ns ++ rest /\ ok (if ns then 0 else 0) rest = true /\
  match rest with (Pos, _) :: _ => False | _ => True end.
Proof.
  induction l as [|[c n] r IH]; intros H.
  - exists [], []. repeat split.
  - destruct c.
    + destruct (ok_cons _ _ _ H) as (_ & _ & Hr). cbn [fst cnum] in Hr. destruct (IH Hr) as (ns & rest & -> & Hrest & Hh).
      exists (n :: ns), rest. repeat split; try assumption. destruct ns; assumption.
    + exists [], ((Arg, n) :: r). repeat split; assumption.
    + exists [], ((Var, n) :: r). repeat split; assumption.
    + exists [], ((Kwo, n) :: r). repeat split; assumption.
    + exists [], ((Kw, n) :: r). repeat split; assumption.
Qed.

Lemma render_pos_block : forall ns rest, render 0 (map (fun n => (Pos, n)) ns ++ rest) = map TId ns ++ render 0 rest.
Proof.
  induction ns as [|n ns IH]; intros rest; [reflexivity|]. cbn [map app render fst snd cnum Nat.eqb andb negb name_tok]. rewrite IH. reflexivity.
Qed.

Lemma render_after_pos rest : (match rest with (Pos, _) :: _ => False | _ => True end) -> render 0 rest = TSlash :: render 1 rest.
Proof.
  destruct rest as [|[c n] r]; intros H; [reflexivity|]. destruct c; [destruct H| | | |]; reflexivity.
Qed.

Lemma ok_weaken l : (match l with (Pos, _) :: _ => False | _ => True end) -> ok 0 l = true -> ok 1 l = true.
Proof.
  destruct l as [|[c n] r]; intros Hh H; [reflexivity|]. cbn [ok fst] in *. destruct c; [destruct Hh| | | |]; cbn [cnum Nat.leb Nat.eqb andb orb negb] in *; exact H.
Qed.

Lemma no_pos : forall l p, 1 <= p -> ok p l = true -> forall e, In e l -> fst e <> Pos.
Proof.
  induction l as [|x r IH]; intros p Hp Hok e He; [destruct He|].
  destruct (ok_cons _ _ _ Hok) as (Hle & _ & Hr). destruct He as [<-|He].
  - intros E. rewrite E in Hle. cbn in Hle. lia.
  - apply (IH (cnum (fst x))); try assumption. lia.
Qed.

Lemma no_slash : forall l p, 1 <= p -> (forall e, In e l -> fst e <> Pos) -> ~ In TSlash (render p l).
Proof.
  induction l as [|[c n] r IH]; intros p Hp Hn.
  - cbn [render]. destruct (Nat.eqb_spec p 0); [lia|]. intros [].
  - assert (Hr : forall e, In e r -> fst e <> Pos) by (intros e He; apply Hn; now right).
    assert (Hc : c <> Pos) by (apply (Hn (c, n)); now left).
    cbn [render fst snd]. destruct (Nat.eqb_spec p 0); [lia|]. cbn [andb app].
    assert (Hq : 1 <= cnum c) by (destruct c; cbn; try lia; contradiction).
    specialize (IH (cnum c) Hq Hr).
    destruct (Nat.eqb (cnum c) 3 && negb (Nat.eqb p 2 || Nat.eqb p 3)); cbn [app]; intros H;
      repeat (destruct H as [H|H]; [destruct c; discriminate|]); contradiction.
Qed.

Lemma take_ids_in : forall ts ids t X, take_ids ts = (ids, t :: X) -> In t ts.
Proof.
  induction ts as [|u ts IH]; intros ids t X E; cbn [take_ids] in E; [inversion E|].
  destruct u; try (inversion E; subst; now left).
  destruct (take_ids ts) as [a0 b0] eqn:T. inversion E; subst. right. apply (IH a0 t X). reflexivity.
Qed.

Theorem markers_read_back : forall l, ok 0 l = true -> parse (render 1 l) = Some l.
Proof.
  intros l Hok. destruct (split_pos l Hok) as (ns & rest & -> & _ & Hh).
  assert (Hrest0 : ok 0 rest = true).
  { clear Hh. revert Hok. induction ns as [|n ns IH]; intros H; [exact H|]. apply IH. cbn [map app] in H. destruct (ok_cons _ _ _ H) as (_ & _ & Hr). exact Hr. }
  pose proof (ok_weaken rest Hh Hrest0) as Hrest1.
  destruct ns as [|n ns].
  - (* no positional-only parameters: no slash *)
    cbn [map app]. unfold parse. destruct (take_ids (render 1 rest)) as [ids X] eqn:T.
    assert (Hns : match X with TSlash :: _ => False | _ => True end).
    { destruct X as [|t X']; [exact I|]. destruct t; try exact I.
      apply (no_slash rest 1 (le_n 1) (no_pos rest 1 (le_n 1) Hrest1)). exact (take_ids_in _ _ _ _ T). }
    destruct X as [|t X']; [|destruct t; try destruct Hns]; apply (tail_ok rest 1); try assumption; lia.
  - (* render 1 (pos block ++ rest): the first element is Pos with prev = 1: no slash in front, then as render 0 *)
    assert (E : render 1 (map (fun n0 => (Pos, n0)) (n :: ns) ++ rest) = map TId (n :: ns) ++ TSlash :: render 1 rest).
    { cbn [map app render fst snd cnum Nat.eqb andb negb name_tok]. f_equal. rewrite render_pos_block. f_equal. apply render_after_pos. exact Hh. }
    rewrite E. unfold parse. rewrite take_ids_block by exact I.
    pose proof (tail_ok rest 1 ltac:(lia) Hrest1) as T. cbn [Nat.leb] in T. rewrite T. reflexivity.
Qed.

Example markers_nonvacuous :
  (* a, /, b, *, c, **k  and  a, *v, c *)
  render 1 [(Pos, 1); (Arg, 2); (Kwo, 3); (Kw, 4)] = [TId 1; TSlash; TId 2; TStar; TId 3; TKw 4] /\
  render 1 [(Arg, 1); (Var, 5); (Kwo, 3)] = [TId 1; TVar 5; TId 3] /\
  ok 0 [(Pos, 1); (Arg, 2); (Kwo, 3); (Kw, 4)] = true /\ ok 0 [(Kwo, 3); (Arg, 2)] = false /\ ok 0 [(Var, 1); (Var, 2)] = false /\
  parse [TId 1; TStar] = None /\ parse [TSlash; TId 1] = None.
Proof. vm_compute. repeat split; reflexivity. Qed.
