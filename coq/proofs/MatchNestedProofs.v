(* C17, nested quantifiers: whatever the matcher accepts is in the regular language of the (non-atomic) nested pattern;
   the converse fails (atomic repetitions), with a witness; it holds again when repetitions are deterministic. *)
From Coq Require Import List Bool Arith Lia.
From PF Require Import models.Match models.MatchNested proofs.MatchProofs.
Import ListNotations.

(* ---- unfolding lemmas: the nested fixes are the top-level functions ---------------------------------------------------- *)
Lemma step_NQ mn mx g sub k tgt :
  step (NQ mn mx g sub) k tgt = quant (arep sub) k mn (cap_of mx (length tgt)) g tgt.
Proof. reflexivity. Qed.

Lemma ilang_NQ mn mx g sub w :
  ilang (NQ mn mx g sub) w = exists c, in_bounds mn mx c /\ nreps (slang sub) c w.
Proof. reflexivity. Qed.

Lemma ilang_NQ_ex mn mx g sub w :
  ilang (NQ mn mx g sub) w <-> exists c, in_bounds mn mx c /\ nreps (slang sub) c w.
Proof. rewrite ilang_NQ. reflexivity. Qed.

Lemma wf_item_NQ mn mx g sub :
  wf_item (NQ mn mx g sub) = (match mx with Some m => Nat.leb mn m | None => Nat.ltb 0 (min_lens sub) end && wf_items sub).
Proof. reflexivity. Qed.

Section Ind.
  Variable P : nitem -> Prop.
  Hypothesis HE : forall e, P (NElem e).
  Hypothesis HQ : forall mn mx g sub, Forall P sub -> P (NQ mn mx g sub).
  Fixpoint nitem_ind' (it : nitem) : P it :=
    match it with
    | NElem e => HE e
    | NQ mn mx g sub =>
        HQ mn mx g sub ((fix go (l : list nitem) : Forall P l :=
                           match l with [] => Forall_nil _ | i :: r => Forall_cons _ (nitem_ind' i) (go r) end) sub)
    end.
End Ind.

(* ---- nreps ------------------------------------------------------------------------------------------------------------ *)
Lemma nreps_snoc (L : list nat -> Prop) : forall m a0 a1, nreps L m a0 -> L a1 -> nreps L (S m) (a0 ++ a1).
Proof.
  induction m as [|m IH]; intros a0 a1 H0 H1.
  - cbn in H0. subst a0. cbn. exists a1, []. rewrite app_nil_r. auto.
  - cbn in H0. destruct H0 as (a & b & -> & Ha & Hb).
    change (nreps L (S (S m)) ((a ++ b) ++ a1)) with (exists x y, (a ++ b) ++ a1 = x ++ y /\ L x /\ nreps L (S m) y).
    exists a, (b ++ a1). rewrite app_assoc. auto.
Qed.

Lemma nreps_mono (L L' : list nat -> Prop) : (forall w, L w -> L' w) -> forall c w, nreps L c w -> nreps L' c w.
Proof.
  intros HL. induction c as [|c IH]; intros w H; cbn in *; [exact H|].
  destruct H as (a & b & -> & Ha & Hb). exists a, b. auto.
Qed.

(* ---- the quantifier loops, for any repetition function that is sound for a language L ------------------------------------- *)
Definition same_rest (r r' : res) : Prop := snd r = snd r'.
Ltac fin := split; [first [assumption | cbn; auto] | split; [cbn [length] in *; lia | split; [eassumption | reflexivity]]].

Section QS.
  Variable rep : list nat -> option (list nat).
  Variable k : list nat -> option res.
  Variable L : list nat -> Prop.
  Hypothesis Hrep : forall t rest, rep t = Some rest -> exists a, t = a ++ rest /\ L a.

  (* starts = the target at the start of every matched repetition, latest first; cur = what is left now *)
  Fixpoint chain (starts : list (list nat)) (cur tgt : list nat) : Prop :=
    match starts with
    | [] => cur = tgt
    | s :: st => rep s = Some cur /\ chain st s tgt
    end.

  Lemma chain_nreps : forall starts cur tgt, chain starts cur tgt -> exists a, tgt = a ++ cur /\ nreps L (length starts) a.
  Proof.
    induction starts as [|s st IH]; intros cur tgt H; cbn in H.
    - subst. exists []. split; reflexivity.
    - destruct H as [Hr Hc]. destruct (Hrep _ _ Hr) as (a1 & -> & Ha1).
      destruct (IH _ _ Hc) as (a0 & -> & Ha0).
      exists (a0 ++ a1). split; [now rewrite app_assoc|]. cbn [length]. now apply nreps_snoc.
  Qed.

  Lemma reps_upto_chain : forall n starts cur tgt starts' cur',
      chain starts cur tgt -> reps_upto rep n starts cur = (starts', cur') ->
      chain starts' cur' tgt /\ length starts <= length starts' <= length starts + n.
  Proof.
    induction n as [|n IH]; intros starts cur tgt starts' cur' Hc H; cbn in H.
    - inversion H; subst. split; [assumption|lia].
    - destruct (rep cur) as [rest|] eqn:Hr.
      + apply IH with (tgt := tgt) in H; [|cbn; auto]. cbn [length] in H. destruct H as [H1 H2]. split; [assumption|lia].
      + inversion H; subst. split; [assumption|lia].
  Qed.

  Lemma down_sound mn : forall starts cur tgt r,
      chain starts cur tgt -> mn <= length starts -> down k mn starts cur = Some r ->
      exists starts' cur' r', chain starts' cur' tgt /\ mn <= length starts' <= length starts /\ k cur' = Some r' /\ same_rest r r'.
  Proof.
    induction starts as [|s st IH]; intros cur tgt r Hc Hmn H; cbn [down] in H.
    - destruct (k cur) as [r0|] eqn:Hk; [|discriminate]. inversion H; subst.
      exists [], cur, r0. fin.
    - destruct (k cur) as [r0|] eqn:Hk.
      + inversion H; subst. exists (s :: st), cur, r0. fin.
      + destruct (Nat.leb (length (s :: st)) mn) eqn:Hle; [discriminate|].
        apply Nat.leb_gt in Hle. cbn [length] in *. destruct Hc as [_ Hc].
        destruct (IH _ _ _ Hc ltac:(lia) H) as (st' & cur' & r' & H1 & H2 & H3 & H4).
        exists st', cur', r'. split; [assumption|]. split; [lia|]. split; assumption.
  Qed.

  Lemma up_sound : forall more starts cur tgt r,
      chain starts cur tgt -> up rep k more starts cur = Some r ->
      exists starts' cur' r', chain starts' cur' tgt /\ length starts <= length starts' <= length starts + more /\ k cur' = Some r' /\ same_rest r r'.
  Proof.
    induction more as [|m IH]; intros starts cur tgt r Hc H; cbn [up] in H.
    - destruct (k cur) as [r0|] eqn:Hk; [|discriminate]. inversion H; subst.
      exists starts, cur, r0. fin.
    - destruct (k cur) as [r0|] eqn:Hk.
      + inversion H; subst. exists starts, cur, r0. fin.
      + destruct (rep cur) as [rest|] eqn:Hr; [|discriminate].
        destruct (IH (cur :: starts) rest tgt r ltac:(cbn; auto) H) as (st' & cur' & r' & H1 & H2 & H3 & H4).
        cbn [length] in H2. exists st', cur', r'. split; [assumption|]. split; [lia|]. split; assumption.
  Qed.

  Lemma quant_sound mn cap g tgt r :
    quant rep k mn cap g tgt = Some r ->
    exists c a post r', tgt = a ++ post /\ nreps L c a /\ mn <= c <= Nat.max mn cap /\ k post = Some r' /\ same_rest r r'.
  Proof.
    unfold quant. intros H. destruct g.
    - destruct (reps_upto rep cap [] tgt) as [starts cur] eqn:Hu.
      destruct (reps_upto_chain _ [] tgt tgt _ _ eq_refl Hu) as [Hc Hlen]. cbn [length] in Hlen.
      destruct (Nat.ltb (length starts) mn) eqn:Hlt; [discriminate|]. apply Nat.ltb_ge in Hlt.
      destruct (down_sound _ _ _ _ _ Hc Hlt H) as (st' & cur' & r' & H1 & H2 & H3 & H4).
      destruct (chain_nreps _ _ _ H1) as (a & -> & Ha).
      exists (length st'), a, cur', r'. split; [reflexivity|]. split; [assumption|]. split; [lia|]. split; assumption.
    - destruct (reps_upto rep mn [] tgt) as [starts cur] eqn:Hu.
      destruct (reps_upto_chain _ [] tgt tgt _ _ eq_refl Hu) as [Hc Hlen]. cbn [length] in Hlen.
      destruct (Nat.ltb (length starts) mn) eqn:Hlt; [discriminate|]. apply Nat.ltb_ge in Hlt.
      destruct (up_sound _ _ _ _ _ Hc H) as (st' & cur' & r' & H1 & H2 & H3 & H4).
      destruct (chain_nreps _ _ _ H1) as (a & -> & Ha).
      exists (length st'), a, cur', r'. split; [reflexivity|]. split; [assumption|]. split; [lia|]. split; assumption.
  Qed.
End QS.

(* ---- soundness of step / seq ---------------------------------------------------------------------------------------------- *)
Definition sound_k (f : (list nat -> option res) -> list nat -> option res) (L : list nat -> Prop) : Prop :=
  forall k tgt r, f k tgt = Some r -> exists a post r', tgt = a ++ post /\ L a /\ k post = Some r' /\ same_rest r r'.

Lemma seq_sound : forall l, Forall (fun it => wf_item it = true -> sound_k (step it) (ilang it)) l ->
                            wf_items l = true -> sound_k (seq l) (slang l).
Proof.
  induction l as [|i l IH]; intros HF Hwf k tgt r H.
  - cbn in H. exists [], tgt, r. cbn. repeat split; auto.
  - cbn [wf_items] in Hwf. apply andb_prop in Hwf. destruct Hwf as [Hwi Hwl].
    inversion HF as [|? ? Hi Hl]; subst. cbn [seq] in H.
    destruct (Hi Hwi _ _ _ H) as (a & post & r1 & -> & Ha & Hk1 & Hs1).
    destruct (IH Hl Hwl _ _ _ Hk1) as (a2 & post2 & r2 & -> & Ha2 & Hk2 & Hs2).
    exists (a ++ a2), post2, r2. repeat split; auto.
    + now rewrite app_assoc.
    + cbn [slang]. exists a, a2. auto.
    + unfold same_rest in *. congruence.
Qed.

Lemma arep_sound sub : sound_k (seq sub) (slang sub) -> forall t rest, arep sub t = Some rest -> exists a, t = a ++ rest /\ slang sub a.
Proof.
  intros Hs t rest H. unfold arep in H.
  destruct (seq sub (fun t' => Some ([], t')) t) as [r|] eqn:Hq; [|discriminate]. cbn in H. inversion H; subst.
  destruct (Hs _ _ _ Hq) as (a & post & r' & -> & Ha & Hk & Hr). inversion Hk; subst. unfold same_rest in Hr. cbn in Hr.
  exists a. rewrite Hr. auto.
Qed.

Lemma step_sound : forall it, wf_item it = true -> sound_k (step it) (ilang it).
Proof.
  induction it as [e|mn mx g sub IH] using nitem_ind'; intros Hwf k tgt r H.
  - cbn in H. destruct tgt as [|t ts]; [discriminate|]. destruct (ematch e t) eqn:He; [|discriminate].
    exists [t], ts, r. cbn. repeat split; eauto.
  - rewrite wf_item_NQ in Hwf. apply andb_prop in Hwf. destruct Hwf as [Hb Hws].
    rewrite step_NQ in H.
    pose proof (arep_sound sub (seq_sound sub IH Hws)) as Hrep.
    destruct (quant_sound _ _ _ Hrep _ _ _ _ _ H) as (c & a & post & r' & -> & Hn & Hc & Hk & Hr).
    exists a, post, r'. repeat split; auto.
    rewrite ilang_NQ. exists c. split; [|assumption].
    unfold in_bounds, cap_of in *. destruct mx as [m|].
    + apply Nat.leb_le in Hb. lia.
    + lia.
Qed.

Theorem nmatch_sound items tgt r :
  wf_items items = true -> nmatch items false tgt = Some r -> slang items tgt.
Proof.
  intros Hwf H. unfold nmatch in H.
  assert (HF : Forall (fun it => wf_item it = true -> sound_k (step it) (ilang it)) items).
  { apply Forall_forall. intros it _. apply step_sound. }
  destruct (seq_sound items HF Hwf _ _ _ H) as (a & post & r' & -> & Ha & Hk & _).
  unfold final in Hk. cbn [orb] in Hk. destruct post; [|discriminate]. now rewrite app_nil_r.
Qed.

(* partial mode (one repetition inside an enclosing quantifier): a prefix is in the language *)
Theorem nmatch_partial_sound items tgt r :
  wf_items items = true -> nmatch items true tgt = Some r -> exists a, tgt = a ++ snd r /\ slang items a.
Proof.
  intros Hwf H. unfold nmatch in H.
  assert (HF : Forall (fun it => wf_item it = true -> sound_k (step it) (ilang it)) items).
  { apply Forall_forall. intros it _. apply step_sound. }
  destruct (seq_sound items HF Hwf _ _ _ H) as (a & post & r' & -> & Ha & Hk & Hr).
  unfold final in Hk. cbn [orb] in Hk. inversion Hk; subst. unfold same_rest in Hr. cbn in Hr. rewrite Hr. eauto.
Qed.

(* ---- the converse fails: repetitions are atomic ----------------------------------------------------------------------------
   (?:b.?b)?b on "bbb": the regular expression matches (the optional group takes "bb", with .? empty), the matcher's first
   repetition takes "bbb" (.? greedy) and is not re-matched when the trailing b then fails; giving the whole repetition back
   leaves "bbb" for the single trailing b. *)
Definition atomic_witness : list nitem :=
  [NQ 0 (Some 1) true [NElem (ELit 1); NQ 0 (Some 1) true [NElem EAny]; NElem (ELit 1)]; NElem (ELit 1)].

Theorem nmatch_complete_refuted :
  wf_items atomic_witness = true /\ slang atomic_witness [1; 1; 1] /\ nmatch atomic_witness false [1; 1; 1] = None.
Proof.
  split; [reflexivity|]. split; [|vm_compute; reflexivity].
  unfold atomic_witness. cbn [slang].
  exists [1; 1], [1]. split; [reflexivity|]. split.
  - rewrite ilang_NQ. exists 1. split; [unfold in_bounds; lia|].
    cbn [nreps]. exists [1; 1], []. split; [reflexivity|]. split; [|reflexivity].
    cbn [slang]. exists [1], [1]. split; [reflexivity|]. split; [cbn; eauto|].
    exists [], [1]. split; [reflexivity|]. split.
    + rewrite ilang_NQ. exists 0. split; [unfold in_bounds; lia|reflexivity].
    + exists [1], []. split; [reflexivity|]. split; [cbn; eauto|reflexivity].
  - exists [1], []. split; [reflexivity|]. split; [cbn; eauto|reflexivity].
Qed.

(* ---- completeness when one repetition is deterministic ------------------------------------------------------------------------
   If the repetition function finds THE decomposition (every word of L is recognised in front of any rest), the loops try
   every admissible repetition count, so the quantifier accepts whenever the regular expression does. *)
Section QC.
  Variable rep : list nat -> option (list nat).
  Variable k : list nat -> option res.
  Variable L : list nat -> Prop.
  Hypothesis Hdet : forall a rest, L a -> rep (a ++ rest) = Some rest.

  Lemma reps_upto_ext : forall n starts cur starts' cur',
      reps_upto rep n starts cur = (starts', cur') -> exists pre, cur' :: starts' = pre ++ cur :: starts.
  Proof.
    induction n as [|n IH]; intros starts cur starts' cur' H; cbn in H.
    - inversion H; subst. exists []. reflexivity.
    - destruct (rep cur) as [rest|].
      + destruct (IH _ _ _ _ H) as (pre & E). exists (pre ++ [rest]). rewrite E, <- app_assoc. reflexivity.
      + inversion H; subst. exists []. reflexivity.
  Qed.

  (* after at least c repetitions were attempted, the state "c repetitions done, post left" is on the stack *)
  Lemma reps_upto_reaches post : forall c n a starts starts' cur',
      nreps L c a -> c <= n -> reps_upto rep n starts (a ++ post) = (starts', cur') ->
      exists pre suf, cur' :: starts' = pre ++ post :: suf /\ length suf = length starts + c.
  Proof.
    induction c as [|c IH]; intros n a starts starts' cur' Ha Hn H.
    - cbn in Ha. subst a. cbn [app] in H. destruct (reps_upto_ext _ _ _ _ _ H) as (pre & E).
      exists pre, starts. split; [exact E|lia].
    - cbn in Ha. destruct Ha as (a1 & b & -> & Ha1 & Hb). destruct n as [|n]; [lia|].
      cbn [reps_upto] in H. rewrite <- app_assoc, (Hdet a1 (b ++ post) Ha1) in H.
      destruct (IH n b _ _ _ Hb ltac:(lia) H) as (pre & suf & E & Hl).
      exists pre, suf. split; [exact E|]. cbn [length] in Hl. lia.
  Qed.

  Lemma down_complete mn : forall starts cur pre s suf,
      cur :: starts = pre ++ s :: suf -> mn <= length suf -> k s <> None -> down k mn starts cur <> None.
  Proof.
    induction starts as [|s0 st IH]; intros cur pre s suf E Hl Hk; cbn [down].
    - destruct pre as [|p pre]; cbn in E.
      + inversion E; subst. destruct (k s); [discriminate|congruence].
      + inversion E as [[E1 E2]]. destruct pre; discriminate.
    - destruct (k cur) as [r0|] eqn:Hkc; [discriminate|].
      destruct pre as [|p pre]; cbn in E.
      + inversion E; subst. congruence.
      + inversion E as [[E1 E2]]. subst p.
        assert (Hlen : length (s0 :: st) = length (pre ++ s :: suf)) by now rewrite E2.
        rewrite app_length in Hlen. cbn [length] in Hlen.
        destruct (Nat.leb (length (s0 :: st)) mn) eqn:Hle; [apply Nat.leb_le in Hle; cbn [length] in Hle; lia|].
        apply (IH s0 pre s suf); assumption.
  Qed.

  Lemma reps_upto_exact : forall n a rest starts,
      nreps L n a -> exists starts', reps_upto rep n starts (a ++ rest) = (starts', rest) /\ length starts' = length starts + n.
  Proof.
    induction n as [|n IH]; intros a rest starts Ha.
    - cbn in Ha. subst a. exists starts. split; [reflexivity|lia].
    - cbn in Ha. destruct Ha as (a1 & b & -> & Ha1 & Hb). cbn [reps_upto].
      rewrite <- app_assoc, (Hdet a1 (b ++ rest) Ha1).
      destruct (IH b rest ((a1 ++ b ++ rest) :: starts) Hb) as (st' & E & Hl).
      exists st'. split; [exact E|]. cbn [length] in Hl. lia.
  Qed.

  Lemma up_complete post : forall d more a starts,
      nreps L d a -> d <= more -> k post <> None -> up rep k more starts (a ++ post) <> None.
  Proof.
    induction d as [|d IH]; intros more a starts Ha Hm Hk.
    - cbn in Ha. subst a. cbn [app]. destruct more; cbn [up]; destruct (k post); congruence.
    - cbn in Ha. destruct Ha as (a1 & b & -> & Ha1 & Hb). destruct more as [|more]; [lia|].
      cbn [up]. destruct (k ((a1 ++ b) ++ post)); [discriminate|].
      rewrite <- app_assoc, (Hdet a1 (b ++ post) Ha1). apply IH; [assumption|lia|assumption].
  Qed.

  Lemma nreps_split : forall m c a, m <= c -> nreps L c a -> exists a1 a2, a = a1 ++ a2 /\ nreps L m a1 /\ nreps L (c - m) a2.
  Proof.
    induction m as [|m IH]; intros c a Hm Ha.
    - exists [], a. rewrite Nat.sub_0_r. repeat split; auto.
    - destruct c as [|c]; [lia|]. cbn in Ha. destruct Ha as (x & b & -> & Hx & Hb).
      destruct (IH c b ltac:(lia) Hb) as (b1 & b2 & -> & H1 & H2).
      exists (x ++ b1), b2. rewrite app_assoc. split; [reflexivity|]. split; [|exact H2].
      cbn. exists x, b1. auto.
  Qed.

  Lemma quant_complete mn cap g a post c :
    nreps L c a -> mn <= c <= cap -> k post <> None -> quant rep k mn cap g (a ++ post) <> None.
  Proof.
    intros Ha Hc Hk. unfold quant. destruct g.
    - destruct (reps_upto rep cap [] (a ++ post)) as [starts cur] eqn:Hu.
      destruct (reps_upto_reaches post c cap a [] starts cur Ha ltac:(lia) Hu) as (pre & suf & E & Hl). cbn [length] in Hl.
      assert (Hlen : length (cur :: starts) = length (pre ++ post :: suf)) by now rewrite E.
      rewrite app_length in Hlen. cbn [length] in Hlen.
      destruct (Nat.ltb (length starts) mn) eqn:Hlt; [apply Nat.ltb_lt in Hlt; lia|].
      apply (down_complete mn starts cur pre post suf E); [lia|exact Hk].
    - destruct (nreps_split mn c a ltac:(lia) Ha) as (a1 & a2 & -> & H1 & H2).
      rewrite <- app_assoc.
      destruct (reps_upto_exact mn a1 (a2 ++ post) [] H1) as (st' & E & Hl). rewrite E. cbn [length] in Hl.
      destruct (Nat.ltb (length st') mn) eqn:Hlt; [apply Nat.ltb_lt in Hlt; lia|].
      apply (up_complete post (c - mn)); [exact H2|lia|exact Hk].
  Qed.
End QC.

(* ---- flat patterns: the nested matcher is the flat model, and accepts exactly the regular language ------------------------------- *)
Definition complete_k (f : (list nat -> option res) -> list nat -> option res) (L : list nat -> Prop) : Prop :=
  forall k a post, L a -> k post <> None -> f k (a ++ post) <> None.

Lemma seq_flat es : forall k t, seq (map NElem es) k t = match rep es t with Some rest => k rest | None => None end.
Proof.
  induction es as [|e es IH]; intros k t; cbn [map seq rep]; [reflexivity|].
  cbn [step]. destruct t as [|x xs]; [reflexivity|]. destruct (ematch e x); [apply IH|reflexivity].
Qed.

Lemma arep_flat es t : arep (map NElem es) t = rep es t.
Proof. unfold arep. rewrite seq_flat. destruct (rep es t); reflexivity. Qed.

Lemma slang_flat es : forall a, slang (map NElem es) a <-> rep es a = Some [].
Proof.
  induction es as [|e es IH]; intros a; cbn [map slang rep].
  - split; [intros ->; reflexivity|]. destruct a; [reflexivity|discriminate].
  - split.
    + intros (x & b & -> & (t & -> & Ht) & Hb). cbn. rewrite Ht. now apply IH.
    + destruct a as [|t ts]; [discriminate|]. destruct (ematch e t) eqn:Ht; [|discriminate]. intros H.
      exists [t], ts. split; [reflexivity|]. split; [cbn; eauto|now apply IH].
Qed.

Lemma rep_app es : forall a rest, rep es a = Some [] -> rep es (a ++ rest) = Some rest.
Proof.
  induction es as [|e es IH]; intros a rest H; cbn in *.
  - destruct a; [reflexivity|discriminate].
  - destruct a as [|t ts]; [discriminate|]. cbn. destruct (ematch e t); [now apply IH|discriminate].
Qed.

Lemma rep_len es : forall a, rep es a = Some [] -> length a = length es.
Proof.
  induction es as [|e es IH]; intros a H; cbn in *.
  - destruct a; [reflexivity|discriminate].
  - destruct a as [|t ts]; [discriminate|]. destruct (ematch e t); [cbn; f_equal; now apply IH|discriminate].
Qed.

Lemma nreps_exact es : forall c w, nreps (slang (map NElem es)) c w <-> reps_exact c es w.
Proof.
  induction c as [|c IH]; intros w; cbn; [reflexivity|].
  split; intros (a & b & -> & Ha & Hb); exists a, b; (split; [reflexivity|]); (split; [now apply slang_flat|now apply IH]).
Qed.

Lemma nreps_len es : es <> [] -> forall c w, nreps (slang (map NElem es)) c w -> c <= length w.
Proof.
  intros Hne. induction c as [|c IH]; intros w H; [lia|].
  cbn in H. destruct H as (a & b & -> & Ha & Hb). apply slang_flat, rep_len in Ha. apply IH in Hb.
  rewrite app_length. destruct es; [congruence|]. cbn in Ha. lia.
Qed.

Lemma slang_embed : forall items tgt, slang (map embed_item items) tgt <-> lang items tgt.
Proof.
  induction items as [|it r IH]; intros tgt; cbn [map slang lang]; [reflexivity|].
  destruct it as [e|mn mx g sub]; cbn [embed_item].
  - split.
    + intros (a & b & -> & (t & -> & Ht) & Hb). exists t, b. split; [reflexivity|]. split; [exact Ht|now apply IH].
    + intros (t & ts & -> & Ht & Hl). exists [t], ts. split; [reflexivity|]. split; [cbn; eauto|now apply IH].
  - split.
    + intros (a & b & -> & Hq & Hr). rewrite ilang_NQ in Hq. destruct Hq as (c & Hb & Hn).
      exists c, a, b. split; [exact Hb|]. split; [reflexivity|]. split; [now apply nreps_exact|now apply IH].
    + intros (c & pre & post & Hb & -> & Hn & Hl). exists pre, post. split; [reflexivity|]. split; [|now apply IH].
      rewrite ilang_NQ. exists c. split; [exact Hb|now apply nreps_exact].
Qed.

Lemma seq_flat_complete : forall items, well_formed items -> complete_k (seq (map embed_item items)) (slang (map embed_item items)).
Proof.
  induction items as [|it r IH]; intros Hwf k a post Ha Hk.
  - cbn in Ha. subst a. exact Hk.
  - assert (Hwr : well_formed r) by (intros mn0 mx0 g0 sub0 Hin; apply (Hwf mn0 mx0 g0 sub0); now right).
    cbn [map slang] in Ha. destruct Ha as (x & b & -> & Hx & Hb). cbn [map seq]. rewrite <- app_assoc.
    pose proof (IH Hwr k b post Hb Hk) as Hrest.
    destruct it as [e|mn mx g sub]; cbn [embed_item] in *.
    + destruct Hx as (t & -> & Ht). cbn. rewrite Ht. exact Hrest.
    + destruct (Hwf mn mx g sub (or_introl eq_refl)) as [Hs Hmm].
      rewrite step_NQ. rewrite ilang_NQ in Hx. destruct Hx as (c & [Hb1 Hb2] & Hn).
      apply (quant_complete (arep (map NElem sub)) (seq (map embed_item r) k) (slang (map NElem sub))) with (c := c).
      * intros a0 rest0 Ha0. rewrite arep_flat. apply rep_app. now apply slang_flat.
      * exact Hn.
      * split; [exact Hb1|]. unfold cap_of. destruct mx as [m|]; [exact Hb2|].
        apply (nreps_len sub Hs) in Hn. rewrite !app_length. lia.
      * exact Hrest.
Qed.

Lemma wf_embed : forall items, well_formed items -> wf_items (map embed_item items) = true.
Proof.
  induction items as [|it r IH]; intros Hwf; [reflexivity|].
  assert (Hwr : well_formed r) by (intros mn0 mx0 g0 sub0 Hin; apply (Hwf mn0 mx0 g0 sub0); now right).
  cbn [map wf_items]. rewrite (IH Hwr), andb_true_r.
  destruct it as [e|mn mx g sub]; [reflexivity|]. cbn [embed_item]. rewrite wf_item_NQ.
  destruct (Hwf mn mx g sub (or_introl eq_refl)) as [Hs Hmm].
  assert (Hsub : wf_items (map NElem sub) = true) by (clear; induction sub; [reflexivity|assumption]).
  rewrite Hsub, andb_true_r. destruct mx as [m|]; [now apply Nat.leb_le|].
  apply Nat.ltb_lt. destruct sub; [congruence|]. cbn. lia.
Qed.

Theorem nmatch_flat_exact items : well_formed items -> forall tgt,
  nmatch (map embed_item items) false tgt <> None <-> lang items tgt.
Proof.
  intros Hwf tgt. split.
  - intros H. destruct (nmatch (map embed_item items) false tgt) as [r|] eqn:E; [|congruence].
    apply slang_embed. apply (nmatch_sound _ _ r); [now apply wf_embed|exact E].
  - intros H. apply slang_embed in H. unfold nmatch.
    rewrite <- (app_nil_r tgt). apply (seq_flat_complete items Hwf); [exact H|]. cbn. discriminate.
Qed.

(* so on flat patterns the two models accept the same targets *)
Corollary nmatch_flat_agrees items : well_formed items -> forall tgt,
  nmatch (map embed_item items) false tgt <> None <-> match_items items false tgt <> None.
Proof.
  intros Hwf tgt. rewrite (nmatch_flat_exact items Hwf tgt). symmetry. now apply match_items_accepts_lang.
Qed.
