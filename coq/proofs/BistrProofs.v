From Coq Require Import List NArith Bool Arith Lia.
From PF Require Import kernel.PyBase kernel.Text models.Bistr.
Import ListNotations.

Lemma u8w_pos c : 1 <= u8w c <= 4.
Proof. unfold u8w. repeat destruct (_ <? _)%N; lia. Qed.

Lemma c2b_0 l : c2b l 0 = 0.
Proof. reflexivity. Qed.

Lemma c2b_S c r i : c2b (c :: r) (S i) = u8w c + c2b r i.
Proof. reflexivity. Qed.

Lemma c2b_len l : c2b l (length l) = blen_nat l.
Proof. unfold c2b. now rewrite firstn_all. Qed.

(* c2b is strictly increasing: distinct characters have distinct byte columns *)
Theorem c2b_strict_mono l : forall i i', i < i' <= length l -> c2b l i < c2b l i'.
Proof.
  induction l as [|c r IH]; intros i i' H; [cbn in H; lia|].
  destruct i' as [|i']; [lia|]. destruct i as [|i].
  - rewrite c2b_0, c2b_S. pose proof (u8w_pos c). lia.
  - rewrite !c2b_S. cbn in H. specialize (IH i i' ltac:(lia)). lia.
Qed.

(* byte -> char is a left inverse of char -> byte, including the one-past-the-end index *)
Theorem b2c_c2b l : forall i, i <= length l -> b2c l (c2b l i) = i.
Proof.
  induction l as [|c r IH]; intros i H.
  - cbn in H. assert (i = 0) by lia. subst. reflexivity.
  - destruct i as [|i]; cbn [b2c].
    + rewrite c2b_0. pose proof (u8w_pos c). destruct (Nat.ltb_spec 0 (u8w c)); [reflexivity|lia].
    + rewrite c2b_S. destruct (Nat.ltb_spec (u8w c + c2b r i) (u8w c)); [lia|].
      replace (u8w c + c2b r i - u8w c) with (c2b r i) by lia. rewrite IH by (cbn in H; lia). reflexivity.
Qed.

Lemma b2c_le_len l : forall j, b2c l j <= length l.
Proof. induction l as [|c r IH]; intros j; cbn [b2c length]; [lia|]. destruct (Nat.ltb _ _); [lia|]. specialize (IH (j - u8w c)). lia. Qed.

(* a byte index maps to the character that CONTAINS it: c2b (b2c j) <= j < c2b (b2c j + 1) *)
Theorem c2b_b2c_bracket l : forall j, j < blen_nat l -> c2b l (b2c l j) <= j < c2b l (S (b2c l j)).
Proof.
  induction l as [|c r IH]; intros j H; [cbn in H; lia|]. cbn [b2c]. cbn [blen_nat] in H.
  destruct (Nat.ltb_spec j (u8w c)).
  - rewrite c2b_0. change (c2b (c :: r) 1) with (u8w c + c2b r 0). rewrite c2b_0. lia.
  - rewrite !c2b_S. specialize (IH (j - u8w c) ltac:(lia)). lia.
Qed.

Theorem b2c_total l : b2c l (blen_nat l) = length l.
Proof. rewrite <- c2b_len. apply b2c_c2b. lia. Qed.

(* the fast path: on an all-ASCII line both maps are the identity *)
Theorem ascii_identity l : is_ascii l = true -> (forall i, i <= length l -> c2b l i = i) /\ (forall j, j <= length l -> b2c l j = j).
Proof.
  intros Ha.
  assert (A : forall i, i <= length l -> c2b l i = i).
  { revert Ha. induction l as [|c r IH]; intros Ha i H; [cbn in H; assert (i = 0) by lia; subst; reflexivity|].
    cbn [is_ascii forallb] in Ha. apply andb_prop in Ha. destruct Ha as [Hc Hr].
    destruct i; [reflexivity|]. rewrite c2b_S. unfold u8w. rewrite Hc. rewrite (IH Hr) by (cbn in H; lia). reflexivity. }
  split; [exact A|]. intros j H. rewrite <- (A j H) at 1. now apply b2c_c2b.
Qed.

(* c2b really is the number of encoded bytes before the character *)
Theorem c2b_is_prefix_bytes l i : c2b l i = blen_nat (firstn i l).
Proof. reflexivity. Qed.
