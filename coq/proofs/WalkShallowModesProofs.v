From Coq Require Import List Bool Arith Lia.
From PF Require Import models.Walk models.WalkShallowModes.
Import ListNotations.

(* with recursion the extended loop is the loop of models/Walk.v *)
Lemma run_both_r_true : forall f back s, run_both_r f back true s = run_both f back s.
Proof.
  induction f as [|f IH]; intros back s; [reflexivity|]. cbn [run_both_r run_both].
  destruct s as [|[[[i ok kids]|]|[i ok kids]] s]; try reflexivity; try apply IH; destruct ok; rewrite ?IH; reflexivity.
Qed.

Theorem walk_both_r_true back t : walk_both_r back true t = walk_both back t.
Proof. destruct t as [i ok kids]. unfold walk_both_r, walk_both. now rewrite run_both_r_true. Qed.

(* without recursion: every direct child that passes the filter is entered and left at once, nothing else is visited *)
Lemma run_both_r_false_level : forall kids f back, 2 * length kids <= f ->
  run_both_r f back false (map SEnter kids) = level_both kids.
Proof.
  induction kids as [|k kids IH]; intros f back Hf; [destruct f; reflexivity|].
  cbn [length] in Hf. destruct f as [|f]; [lia|]. cbn [map run_both_r].
  destruct k as [[i ok ks]|]; cbn [level_both flat_map].
  - destruct ok; cbn [app].
    + destruct f as [|f]; [lia|]. cbn [run_both_r]. f_equal. f_equal. apply IH. lia.
    + apply IH. lia.
  - apply IH. lia.
Qed.

Lemma lsize_ge kids : 2 * length kids <= lsize (map SEnter kids).
Proof.
  induction kids as [|k kids IH]; [cbn; lia|]. cbn [map lsize fold_right isize length].
  assert (1 <= osize k) by (destruct k as [[? ? ?]|]; cbn; lia). fold (lsize (map SEnter kids)). lia.
Qed.

Theorem walk_both_shallow back t :
  walk_both_r back false t
  = let 'RNode i ok kids := t in (if ok then [(i, false)] else []) ++ level_both (ord back kids) ++ (if ok then [(i, true)] else []).
Proof.
  destruct t as [i ok kids]. unfold walk_both_r. rewrite run_both_r_false_level; [reflexivity|].
  pose proof (lsize_ge kids). unfold ord. destruct back; [rewrite rev_length|]; lia.
Qed.

Lemma run_leave_level : forall kids f back, length kids <= f -> run_leave f back (leave_items kids) = level kids.
Proof.
  induction kids as [|k kids IH]; intros f back Hf; [destruct f; reflexivity|].
  cbn [length] in Hf. destruct f as [|f]; [lia|]. destruct k as [[i ok ks]|]; cbn [leave_items flat_map app level].
  - cbn [run_leave]. fold (leave_items kids). destruct ok; cbn [app]; [f_equal|]; apply IH; lia.
  - fold (leave_items kids). destruct kids as [|k' kids']; [reflexivity|]. apply (IH (S f) back). cbn [length] in *. lia.
Qed.

Theorem walk_leave_shallow back t :
  walk_leave_r back false t = let 'RNode i ok kids := t in level (ord back kids) ++ (if ok then [i] else []).
Proof.
  destruct t as [i ok kids]. unfold walk_leave_r. rewrite run_leave_level; [reflexivity|].
  unfold ord. destruct back; [rewrite rev_length|]; lia.
Qed.

(* the three modes agree without recursion: the entry events of 'both' are the 'enter' walk, its leave events the 'leave' walk *)
Lemma level_both_entries kids : map fst (filter (fun e => negb (snd e)) (level_both kids)) = level kids.
Proof.
  induction kids as [|[[i ok ks]|] kids IH]; cbn [level_both level flat_map]; [reflexivity| |exact IH].
  destruct ok; cbn [app filter snd negb map fst]; [f_equal|]; exact IH.
Qed.

Lemma level_both_leaves kids : map fst (filter (fun e => snd e) (level_both kids)) = level kids.
Proof.
  induction kids as [|[[i ok ks]|] kids IH]; cbn [level_both level flat_map]; [reflexivity| |exact IH].
  destruct ok; cbn [app filter snd map fst]; [f_equal|]; exact IH.
Qed.

Lemma run_enter_level : forall kids f back, length kids <= f -> run_enter f back false kids = level kids.
Proof.
  induction kids as [|k kids IH]; intros f back Hf; [destruct f; reflexivity|].
  cbn [length] in Hf. destruct f as [|f]; [lia|]. cbn [run_enter]. destruct k as [[i ok ks]|]; cbn [level flat_map].
  - destruct ok; cbn [app]; [f_equal|]; apply IH; lia.
  - apply IH. lia.
Qed.
