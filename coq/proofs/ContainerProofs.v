(* Properties of the abstract list-container semantics (kernel/Container.v). *)
From Coq Require Import ZArith List Bool Lia Arith.
From PF Require Import kernel.PyBase kernel.Container.
Import ListNotations.

Section P.
  Context {A : Type}.
  Implicit Types old new win pre post : list A.

  Lemma skipn_skipn' (l : list A) a b : skipn a (skipn b l) = skipn (b + a) l.
  Proof.
    revert l; induction b as [|b IH]; intros l; [reflexivity|].
    destruct l as [|x l]; [now rewrite !skipn_nil | cbn [Nat.add skipn]; apply IH].
  Qed.

  Lemma put_slice_length old s e new : s <= e <= length old ->
    length (put_slice_spec old s e new) = length old - (e - s) + length new.
  Proof.
    intros H. unfold put_slice_spec. rewrite !app_length, firstn_length, skipn_length. lia.
  Qed.

  (* positions before the slice are untouched *)
  Lemma put_slice_nth_before old s e new i : i < s -> s <= length old ->
    nth_error (put_slice_spec old s e new) i = nth_error old i.
  Proof.
    intros Hi Hs. unfold put_slice_spec.
    rewrite nth_error_app1 by (rewrite firstn_length; lia).
    rewrite <- (firstn_skipn s old) at 2.
    rewrite nth_error_app1 by (rewrite firstn_length; lia). reflexivity.
  Qed.

  (* the slice holds exactly the new elements, in order *)
  Lemma put_slice_nth_mid old s e new i : s <= length old -> i < length new ->
    nth_error (put_slice_spec old s e new) (s + i) = nth_error new i.
  Proof.
    intros Hs Hi. unfold put_slice_spec.
    rewrite nth_error_app2 by (rewrite firstn_length; lia).
    rewrite firstn_length, Nat.min_l by lia.
    replace (s + i - s) with i by lia.
    now rewrite nth_error_app1 by lia.
  Qed.

  (* positions after the slice keep their elements and relative order, shifted by the size change *)
  Lemma put_slice_nth_after old s e new i : s <= length old ->
    nth_error (put_slice_spec old s e new) (s + length new + i) = nth_error old (e + i).
  Proof.
    intros Hs. unfold put_slice_spec.
    rewrite nth_error_app2 by (rewrite firstn_length; lia).
    rewrite firstn_length, Nat.min_l by lia.
    rewrite nth_error_app2 by lia.
    replace (s + length new + i - s - length new) with i by lia.
    clear Hs. revert e. induction old as [|x xs IH]; intros e.
    - destruct e; destruct i; reflexivity.
    - destruct e; [reflexivity|]. cbn [skipn Nat.add nth_error]. apply IH.
  Qed.

  Lemma get_put_slice old s e new : s <= length old ->
    get_slice_spec (put_slice_spec old s e new) s (s + length new) = new.
  Proof.
    intros Hs. unfold get_slice_spec, put_slice_spec.
    replace (s + length new - s) with (length new) by lia.
    rewrite skipn_app, firstn_length, Nat.min_l by lia.
    rewrite (skipn_all2 (firstn s old) (firstn_le_length s old)).
    replace (s - s) with 0 by lia. cbn [skipn app].
    rewrite firstn_app, firstn_all. replace (length new - length new) with 0 by lia.
    cbn. now rewrite app_nil_r.
  Qed.

  (* putting back what was read / cut restores the list (C08 Layer A) *)
  Lemma put_get_id old s e : s <= e ->
    put_slice_spec old s e (get_slice_spec old s e) = old.
  Proof.
    intros H. unfold put_slice_spec, get_slice_spec.
    rewrite <- (firstn_skipn s old) at 4. f_equal.
    rewrite <- (firstn_skipn (e - s) (skipn s old)) at 2. f_equal.
    rewrite skipn_skipn'. replace (s + (e - s)) with e by lia. reflexivity.
  Qed.

  Lemma cut_put_back old s e : s <= e <= length old ->
    put_slice_spec (del_slice_spec old s e) s s (get_slice_spec old s e) = old.
  Proof.
    intros H. unfold del_slice_spec, put_slice_spec, get_slice_spec. cbn [app].
    rewrite firstn_app, firstn_firstn, Nat.min_id, firstn_length, Nat.min_l by lia.
    replace (s - s) with 0 by lia. cbn [firstn]. rewrite app_nil_r.
    rewrite skipn_app, firstn_length, Nat.min_l by lia.
    rewrite (skipn_all2 (firstn s old) (firstn_le_length s old)).
    replace (s - s) with 0 by lia. cbn [skipn app].
    rewrite <- (firstn_skipn s old) at 4. f_equal.
    rewrite <- (firstn_skipn (e - s) (skipn s old)) at 2. f_equal.
    rewrite skipn_skipn'. replace (s + (e - s)) with e by lia. reflexivity.
  Qed.

  (* a put through a window [|pre|, |pre|+|win|) of the field is the same put on the window alone *)
  Lemma window_put pre win post i0 i1 new : i0 <= i1 <= length win ->
    put_slice_spec (pre ++ win ++ post) (length pre + i0) (length pre + i1) new
    = pre ++ put_slice_spec win i0 i1 new ++ post.
  Proof.
    intros H. unfold put_slice_spec.
    rewrite firstn_app_2, skipn_app.
    rewrite skipn_all2 by lia. replace (length pre + i1 - length pre) with i1 by lia. cbn [app].
    rewrite firstn_app, skipn_app.
    replace (i0 - length win) with 0 by lia. replace (i1 - length win) with 0 by lia. cbn [firstn skipn].
    rewrite app_nil_r. now rewrite <- !app_assoc.
  Qed.

  (* the convenience forms mean what Python's list methods mean *)
  Lemma insert_spec_eq old i x : insert_spec old i x = firstn i old ++ x :: skipn i old.
  Proof. reflexivity. Qed.
  Lemma append_spec_eq old x : append_spec old x = old ++ [x].
  Proof. unfold append_spec, put_slice_spec. now rewrite firstn_all, skipn_all. Qed.
  Lemma extend_spec_eq old xs : extend_spec old xs = old ++ xs.
  Proof. unfold extend_spec, put_slice_spec. now rewrite firstn_all, skipn_all, app_nil_r. Qed.
  Lemma remove_spec_eq old i : remove_spec old i = firstn i old ++ skipn (S i) old.
  Proof. reflexivity. Qed.
  Lemma replace_spec_eq old i x : replace_spec old i x = firstn i old ++ x :: skipn (S i) old.
  Proof. reflexivity. Qed.
  Lemma replace_spec_length old i x : i < length old -> length (replace_spec old i x) = length old.
  Proof. intros H. unfold replace_spec. rewrite put_slice_length by lia. cbn [length]. lia. Qed.

  (* Python's  l[a:b] = new  for in-order bounds is put_slice_spec at the clamped bounds *)
  Lemma py_setslice_ordered old a b new :
    (py_clamp (Z.of_nat (length old)) a <= py_clamp (Z.of_nat (length old)) b)%Z ->
    py_setslice old a b new =
      put_slice_spec old (Z.to_nat (py_clamp (Z.of_nat (length old)) a))
                         (Z.to_nat (py_clamp (Z.of_nat (length old)) b)) new.
  Proof. intros H. unfold py_setslice. cbv zeta. now rewrite (Z.max_r _ _ H). Qed.

  Lemma py_clamp_range len a : (0 <= len)%Z -> (0 <= py_clamp len a <= len)%Z.
  Proof. intros H. unfold py_clamp. destruct (a <? 0)%Z eqn:E; lia. Qed.
End P.
