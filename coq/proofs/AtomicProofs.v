(* If no may-raise atom follows a live mutation then, whatever raises, a run that raises leaves the live state exactly as
   it was; and a run that does not raise performs all its mutations. *)
From Coq Require Import List Bool Arith Lia.
From PF Require Import models.Atomic.
Import ListNotations.

Lemma run_ordered_mutated p : forall fails st, ordered_from true p = true -> snd (run p fails st) = false.
Proof.
  induction p as [|a p IH]; intros fails st H; [reflexivity|].
  destruct a; simpl in *; try (apply IH; exact H).
  discriminate.
Qed.

Theorem ordered_atomic p : ordered p = true ->
  forall fails st, snd (run p fails st) = true -> fst (run p fails st) = st.
Proof.
  unfold ordered. induction p as [|a p IH]; intros H fails st Hr; [reflexivity|].
  destruct a; simpl in *.
  - apply IH; assumption.
  - apply IH; assumption.
  - rewrite run_ordered_mutated in Hr by exact H. discriminate.
  - destruct fails as [|[|] f]; simpl in *; try reflexivity; apply IH; assumption.
Qed.

Definition count_mut (p : list atom) : nat := length (filter (fun a => match a with AMut => true | _ => false end) p).

Theorem completed_run_does_everything p : forall fails st,
  snd (run p fails st) = false -> fst (run p fails st) = st + count_mut p.
Proof.
  unfold count_mut. induction p as [|a p IH]; intros fails st H; [simpl; lia|].
  destruct a; cbn [run filter] in *.
  - apply IH; exact H.
  - apply IH; exact H.
  - rewrite IH by exact H. simpl. lia.
  - destruct fails as [|[|] f]; cbn [fst snd] in *; try discriminate; apply IH; exact H.
Qed.

(* the converse direction: an unordered path has a failure pattern that leaves a changed state behind *)
Theorem unordered_not_atomic p : ordered p = false -> exists fails st, snd (run p fails st) = true /\ fst (run p fails st) <> st.
Proof.
  unfold ordered.
  assert (G : forall p m, ordered_from m p = false -> forall st0 st, (m = true -> st0 < st) -> (m = false -> st0 = st) ->
              exists fails, snd (run p fails st) = true /\ st0 < fst (run p fails st)).
  { clear p. induction p as [|a p IH]; intros m H st0 st Hm Hf; [discriminate|].
    destruct a; simpl in H.
    - destruct (IH m H st0 st Hm Hf) as [f Hf']. exists f. exact Hf'.
    - destruct (IH m H st0 st Hm Hf) as [f Hf']. exists f. exact Hf'.
    - destruct (IH true H st0 (S st)) as [f Hf']; [intros _; destruct m; [specialize (Hm eq_refl)|specialize (Hf eq_refl)]; lia|discriminate|].
      exists f. exact Hf'.
    - destruct m; simpl in H.
      + exists [true]. simpl. split; [reflexivity|apply Hm; reflexivity].
      + destruct (IH false H st0 st Hm Hf) as [f Hf']. exists (false :: f). exact Hf'. }
  intros H. destruct (G p false H 0 0) as [f [Hr Hs]]; [discriminate|reflexivity|].
  exists f, 0. split; [exact Hr|lia].
Qed.
