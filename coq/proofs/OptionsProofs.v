(* C20 theorems over models/Options.v *)
From Coq Require Import List String Bool Arith Lia.
From PF Require Import gen.OptionsTable models.Options.
Import ListNotations.

Notation len := List.length.

(* ---- update / restore algebra ------------------------------------------------------------------------------------ *)
Lemma nth_split_s (l : list string) i d : i < len l -> l = firstn i l ++ nth i l d :: skipn (S i) l.
Proof.
  revert i; induction l as [|a l IH]; intros i H; [cbn in H; lia|].
  destruct i; [reflexivity|]. cbn [firstn nth skipn app]. f_equal. apply IH. cbn in H; lia.
Qed.

Lemma set_nth_s_length s i v : i < len s -> len (set_nth_s s i v) = len s.
Proof. intros H. unfold set_nth_s. rewrite app_length, firstn_length, Nat.min_l by lia. cbn [len]. rewrite skipn_length. lia. Qed.

Lemma set_nth_s_same s i v d : i < len s -> nth i (set_nth_s s i v) d = v.
Proof.
  intros H. unfold set_nth_s. rewrite app_nth2 by (rewrite firstn_length; lia).
  rewrite firstn_length, Nat.min_l, Nat.sub_diag by lia. reflexivity.
Qed.

Lemma set_nth_s_other s i j v d : i < len s -> i <> j -> nth j (set_nth_s s i v) d = nth j s d.
Proof.
  intros Hi H. unfold set_nth_s. rewrite (nth_split_s s i d Hi) at 3.
  destruct (Nat.lt_ge_cases j i) as [Hl|Hg].
  - rewrite !app_nth1 by (rewrite firstn_length; lia). reflexivity.
  - rewrite !app_nth2 by (rewrite firstn_length; lia). rewrite firstn_length, Nat.min_l by lia.
    destruct (j - i) as [|k] eqn:E; [lia|]. reflexivity.
Qed.

Definition in_range (s : store) (ups : list upd) : Prop := forall u, In u ups -> fst u < len s.

Lemma update_length s ups : in_range s ups -> len (update s ups) = len s.
Proof.
  revert s; induction ups as [|u ups IH]; intros s H; [reflexivity|]. cbn [update fold_left].
  change (len (update (set_nth_s s (fst u) (snd u)) ups) = len s).
  assert (Hu : fst u < len s) by (apply H; now left).
  rewrite IH; [now apply set_nth_s_length|].
  intros u' Hin. rewrite set_nth_s_length by assumption. apply H. now right.
Qed.

Lemma update_notin s ups j d : in_range s ups -> ~ In j (map fst ups) -> nth j (update s ups) d = nth j s d.
Proof.
  revert s; induction ups as [|u ups IH]; intros s Hr H; [reflexivity|]. cbn [update fold_left].
  change (nth j (update (set_nth_s s (fst u) (snd u)) ups) d = nth j s d).
  assert (Hu : fst u < len s) by (apply Hr; now left).
  rewrite IH.
  - apply set_nth_s_other; [assumption|]. intros E. apply H. left. exact E.
  - intros u' Hin. rewrite set_nth_s_length by assumption. apply Hr. now right.
  - intros Hc. apply H. now right.
Qed.

Lemma update_in s ups i v d : NoDup (map fst ups) -> in_range s ups -> In (i, v) ups -> nth i (update s ups) d = v.
Proof.
  revert s; induction ups as [|u ups IH]; intros s Hnd Hr Hin; [contradiction|]. cbn [update fold_left].
  change (nth i (update (set_nth_s s (fst u) (snd u)) ups) d = v).
  cbn [map] in Hnd. inversion Hnd as [|x l Hx Hnd']; subst.
  assert (Hu : fst u < len s) by (apply Hr; now left).
  destruct Hin as [->|Hin].
  - cbn [fst snd] in *. rewrite update_notin; [now apply set_nth_s_same| |assumption].
    intros u' Hin'. rewrite set_nth_s_length by assumption. apply Hr. now right.
  - apply IH; [assumption| |assumption].
    intros u' Hin'. rewrite set_nth_s_length by assumption. apply Hr. now right.
Qed.

(* ---- kvs -------------------------------------------------------------------------------------------------------- *)
Lemma index_of_lt n l i : index_of n l = Some i -> i < len l.
Proof.
  revert i; induction l as [|x r IH]; intros i H; [discriminate|]. cbn in H.
  destruct (String.eqb n x); [injection H as <-; cbn; lia|].
  destruct (index_of n r) as [j|]; [|discriminate]. injection H as <-. cbn. specialize (IH j eq_refl). lia.
Qed.

Lemma index_of_inj n m l i : index_of n l = Some i -> index_of m l = Some i -> n = m.
Proof.
  revert i; induction l as [|x r IH]; intros i H1 H2; [discriminate|]. cbn in H1, H2.
  destruct (String.eqb_spec n x), (String.eqb_spec m x); subst.
  - reflexivity.
  - injection H1 as <-. destruct (index_of m r); [discriminate|discriminate].
  - injection H2 as <-. destruct (index_of n r); [discriminate|discriminate].
  - destruct (index_of n r) as [a|], (index_of m r) as [b|]; try discriminate.
    injection H1 as <-. injection H2 as E. apply (IH a eq_refl). now rewrite E.
Qed.

Lemma all_ok_idx kvs x : all_ok kvs = true -> In x kvs -> exists i, kv_idx x = Some i.
Proof.
  unfold all_ok. rewrite forallb_forall. intros H Hin. specialize (H x Hin). unfold kv_ok in H.
  destruct (kv_idx x) as [i|]; [now exists i|discriminate].
Qed.

Lemma ok_nodup_idx kvs : all_ok kvs = true -> wf_kvs kvs -> NoDup (map idx_or0 kvs).
Proof.
  unfold wf_kvs. induction kvs as [|x r IH]; intros Hok Hnd; [constructor|].
  cbn [map] in *. inversion Hnd as [|a l Hx Hnd']; subst.
  assert (Hokr : all_ok r = true) by (unfold all_ok in *; cbn in Hok; apply andb_prop in Hok; tauto).
  constructor; [|now apply IH].
  intros Hin. apply in_map_iff in Hin. destruct Hin as (y & Ey & Hy).
  apply Hx. apply in_map_iff. exists y. split; [|assumption].
  destruct (all_ok_idx (x :: r) x Hok (or_introl eq_refl)) as [i Ei].
  destruct (all_ok_idx (x :: r) y Hok (or_intror Hy)) as [j Ej].
  unfold idx_or0 in Ey. rewrite Ei, Ej in Ey. subst j. unfold kv_idx in *. symmetry. eapply index_of_inj; eassumption.
Qed.

Lemma ok_in_range s kvs (f : kv -> string) : all_ok kvs = true -> wf_store s ->
  in_range s (map (fun x => (idx_or0 x, f x)) kvs).
Proof.
  intros Hok Hs u Hin. apply in_map_iff in Hin. destruct Hin as (x & <- & Hx). cbn [fst].
  destruct (all_ok_idx kvs x Hok Hx) as [i Ei]. unfold idx_or0. rewrite Ei.
  unfold kv_idx in Ei. apply index_of_lt in Ei. unfold wf_store in Hs. rewrite Hs.
  change (i < n_global). revert Ei. vm_compute. lia.
Qed.

Lemma map_fst_new kvs : map fst (new_of kvs) = map idx_or0 kvs.
Proof. unfold new_of. rewrite map_map. reflexivity. Qed.
Lemma map_fst_old s kvs : map fst (old_of s kvs) = map idx_or0 kvs.
Proof. unfold old_of. rewrite map_map. reflexivity. Qed.

(* setting and then restoring the saved old values gives back the store - also after anything done in between to
   OTHER positions *)
Lemma restore_after s s2 kvs : all_ok kvs = true -> wf_kvs kvs -> wf_store s -> len s2 = len s ->
  forall j d, nth j (update s2 (old_of s kvs)) d = if in_dec Nat.eq_dec j (map idx_or0 kvs) then nth j s d else nth j s2 d.
Proof.
  intros Hok Hnd Hs Hl j d.
  destruct (in_dec Nat.eq_dec j (map idx_or0 kvs)) as [Hin|Hn].
  - apply in_map_iff in Hin. destruct Hin as (x & <- & Hx).
    assert (Hr : in_range s2 (old_of s kvs)).
    { intros u Hu. rewrite Hl. revert u Hu. apply (ok_in_range s kvs (fun x => nth (idx_or0 x) s ""%string)); assumption. }
    rewrite (update_in s2 (old_of s kvs) (idx_or0 x) (nth (idx_or0 x) s ""%string) d).
    + apply nth_indep. destruct (all_ok_idx kvs x Hok Hx) as [i Ei]. unfold idx_or0. rewrite Ei.
      unfold kv_idx in Ei. apply index_of_lt in Ei. unfold wf_store in Hs. rewrite Hs. revert Ei. vm_compute. lia.
    + rewrite map_fst_old. now apply ok_nodup_idx.
    + exact Hr.
    + unfold old_of. apply in_map_iff. now exists x.
  - apply update_notin; [|now rewrite map_fst_old].
    intros u Hu. rewrite Hl. revert u Hu. apply (ok_in_range s kvs (fun x => nth (idx_or0 x) s ""%string)); assumption.
Qed.

(* ---- T1: reads are pure ------------------------------------------------------------------------------------------ *)
Theorem get_pure t n c : fst (step t (OGet n c)) = t.
Proof. reflexivity. Qed.

(* a per-call option wins over the thread default and is never written anywhere *)
Theorem get_prefers_call t n c v : assoc n c = Some v -> snd (step t (OGet n c)) = RVal (Some v).
Proof. intros H. cbn. now rewrite H. Qed.

(* ---- T2: invalid requests change nothing ------------------------------------------------------------------------- *)
Theorem reject_pure t kvs : all_ok kvs = false ->
  step t (OSet kvs) = (t, RErr) /\ step t (OEnter kvs) = (t, RErr).
Proof. intros H. cbn. now rewrite H. Qed.

(* ---- stack discipline ---------------------------------------------------------------------------------------------- *)
Lemma run_app t a b : run t (a ++ b) = run (run t a) b.
Proof. unfold run. apply fold_left_app. Qed.

Lemma run_cons t o l : run t (o :: l) = run (fst (step t o)) l.
Proof. reflexivity. Qed.

Lemma destruct_t (t : tstate) : t = {| st := st t; stack := stack t |}.
Proof. now destruct t. Qed.

Lemma balanced_stack l : balanced l -> forall t, stack (run t l) = stack t /\ (wf_store (st t) -> wf_store (st (run t l))).
Proof.
  induction 1 as [|n c l Hl IH|kvs l Hl IH|kvs l Hrej Hl IH|kvs body l Hok Hb IHb Hl IHl]; intros t.
  - split; [reflexivity|tauto].
  - apply IH.
  - rewrite run_cons. cbn [step].
    destruct (all_ok kvs) eqn:E; cbn [fst]; [|apply IH].
    destruct (IH {| st := update (st t) (new_of kvs); stack := stack t |}) as [I1 I2]. split; [exact I1|].
    intros Hs. apply I2. cbn [st]. unfold wf_store in *. rewrite update_length; [assumption|].
    now apply (ok_in_range (st t) kvs k_val).
  - rewrite run_cons. cbn [step]. rewrite Hrej. apply IH.
  - rewrite run_cons. cbn [step]. rewrite Hok. cbn [fst].
    set (t1 := {| st := update (st t) (new_of kvs); stack := old_of (st t) kvs :: stack t |}).
    destruct (IHb t1) as [B1 B2]. rewrite run_app, run_cons. cbn [step]. rewrite B1. cbn [t1 stack fst].
    set (t3 := {| st := update (st (run t1 body)) (old_of (st t) kvs); stack := stack t |}).
    destruct (IHl t3) as [L1 L2]. split; [exact L1|].
    intros Hs. apply L2. cbn [t3 st].
    assert (W1 : wf_store (st t1)).
    { cbn [t1 st]. unfold wf_store in *. rewrite update_length; [assumption|]. now apply (ok_in_range (st t) kvs k_val). }
    specialize (B2 W1). unfold wf_store in *. rewrite update_length; [assumption|].
    intros u Hu. rewrite B2, <- Hs. revert u Hu. apply (ok_in_range (st t) kvs (fun x => nth (idx_or0 x) (st t) ""%string)); assumption.
Qed.

(* ---- T3: a block restores exactly the options it names ---------------------------------------------------------- *)
Theorem block_restore t kvs body : all_ok kvs = true -> wf_kvs kvs -> wf_store (st t) -> balanced body ->
  let t1 := fst (step t (OEnter kvs)) in
  let t2 := run t1 body in
  let t3 := fst (step t2 OExit) in
  stack t3 = stack t /\
  forall j d, nth j (st t3) d = if in_dec Nat.eq_dec j (map idx_or0 kvs) then nth j (st t) d else nth j (st t2) d.
Proof.
  intros Hok Hnd Hs Hb. cbn zeta. cbn [step]. rewrite Hok. cbn [fst].
  set (t1 := {| st := update (st t) (new_of kvs); stack := old_of (st t) kvs :: stack t |}).
  destruct (balanced_stack body Hb t1) as [B1 B2]. rewrite B1. cbn [t1 stack fst st]. split; [reflexivity|].
  intros j d. apply restore_after; try assumption.
  assert (W1 : wf_store (st t1)).
  { cbn [t1 st]. unfold wf_store in *. rewrite update_length; [assumption|]. now apply (ok_in_range (st t) kvs k_val). }
  specialize (B2 W1). unfold wf_store in *. now rewrite B2, Hs.
Qed.

Lemma store_ext (a b : store) : len a = len b -> (forall j, nth j a ""%string = nth j b ""%string) -> a = b.
Proof. intros Hl H. apply (nth_ext a b ""%string ""%string Hl). intros n _. apply H. Qed.

(* ---- T3b: with no bare set_options inside, the whole thread state is back to what it was --------------------- *)
Theorem quiet_identity l : quiet l -> forall t, wf_store (st t) -> (forall kvs, In (OEnter kvs) l -> wf_kvs kvs) -> run t l = t.
Proof.
  induction 1 as [|n c l Hl IH|kvs l Hrej Hl IH|kvs l Hrej Hl IH|kvs body l Hok Hb IHb Hl IHl]; intros t Hs Hwf.
  - reflexivity.
  - rewrite run_cons. cbn [step fst]. apply IH; [assumption|]. intros k Hk. apply Hwf. now right.
  - rewrite run_cons. cbn [step]. rewrite Hrej. cbn [fst]. apply IH; [assumption|]. intros k Hk. apply Hwf. now right.
  - rewrite run_cons. cbn [step]. rewrite Hrej. cbn [fst]. apply IH; [assumption|]. intros k Hk. apply Hwf. now right.
  - rewrite run_cons. cbn [step]. rewrite Hok. cbn [fst].
    set (t1 := {| st := update (st t) (new_of kvs); stack := old_of (st t) kvs :: stack t |}).
    rewrite run_app.
    assert (Hnd : wf_kvs kvs) by (apply Hwf; now left).
    assert (W1 : wf_store (st t1)).
    { cbn [t1 st]. unfold wf_store in *. rewrite update_length; [assumption|]. now apply (ok_in_range (st t) kvs k_val). }
    rewrite IHb; [|assumption|].
    2:{ intros k Hk. apply Hwf. right. apply in_or_app. now left. }
    rewrite run_cons. cbn [step t1 stack fst st].
    assert (E : update (update (st t) (new_of kvs)) (old_of (st t) kvs) = st t).
    { apply store_ext.
      - rewrite update_length.
        + rewrite update_length; [reflexivity|]. now apply (ok_in_range (st t) kvs k_val).
        + intros u Hu. rewrite update_length by now apply (ok_in_range (st t) kvs k_val).
          revert u Hu. apply (ok_in_range (st t) kvs (fun x => nth (idx_or0 x) (st t) ""%string)); assumption.
      - intros j. rewrite restore_after; try assumption.
        + destruct (in_dec Nat.eq_dec j (map idx_or0 kvs)) as [Hi|Hn]; [reflexivity|].
          apply update_notin; [now apply (ok_in_range (st t) kvs k_val)|now rewrite map_fst_new].
        + rewrite update_length; [reflexivity|]. now apply (ok_in_range (st t) kvs k_val). }
    rewrite E. rewrite <- destruct_t. apply IHl; [assumption|].
    intros k Hk. apply Hwf. right. apply in_or_app. right. now right.
Qed.

(* ---- T4: threads ------------------------------------------------------------------------------------------------- *)
Lemma wget_wset_same w tid t : wget (wset w tid t) tid = t.
Proof.
  induction w as [|[i t0] r IH]; cbn; [now rewrite Nat.eqb_refl|].
  destruct (Nat.eqb i tid) eqn:E; cbn; rewrite E; [reflexivity|exact IH].
Qed.

Lemma wget_wset_other w tid tid' t : tid <> tid' -> wget (wset w tid t) tid' = wget w tid'.
Proof.
  intros Hne. induction w as [|[i t0] r IH]; cbn.
  - destruct (Nat.eqb tid tid') eqn:E; [apply Nat.eqb_eq in E; contradiction|reflexivity].
  - destruct (Nat.eqb i tid) eqn:E; cbn.
    + apply Nat.eqb_eq in E. subst i. destruct (Nat.eqb tid tid') eqn:E2; [apply Nat.eqb_eq in E2; contradiction|reflexivity].
    + destruct (Nat.eqb i tid'); [reflexivity|exact IH].
Qed.

(* an operation of one thread never changes what any other thread sees *)
Theorem thread_isolation w tid o tid' : tid <> tid' -> wget (wstep w (tid, o)) tid' = wget w tid'.
Proof. intros H. unfold wstep. cbn [fst snd]. now apply wget_wset_other. Qed.

(* for EVERY interleaving, each thread ends exactly where it would end running its own operations alone *)
Theorem interleaving_projection l : forall w tid, wget (wrun w l) tid = run (wget w tid) (proj tid l).
Proof.
  induction l as [|[i o] l IH]; intros w tid; [reflexivity|].
  unfold wrun. cbn [fold_left]. fold (wrun (wstep w (i, o)) l). rewrite IH.
  unfold proj. cbn [filter fst]. destruct (Nat.eqb i tid) eqn:E.
  - apply Nat.eqb_eq in E. subst i. cbn [map snd]. unfold run at 2. cbn [fold_left].
    unfold wstep. cbn [fst snd]. now rewrite wget_wset_same.
  - apply Nat.eqb_neq in E. now rewrite thread_isolation.
Qed.

(* ---- T5/T6: facts about the regenerated table (re-checked on every run) -------------------------------------- *)
Theorem fresh_thread_defaults : st (wget [] 0) = global_option_defaults /\ stack (wget [] 0) = [].
Proof. split; reflexivity. Qed.

Theorem table_shape : len global_option_names = n_global /\ len global_option_defaults = n_global /\ NoDup global_option_names
                      /\ (forall n, In n dyn_option_names -> index_of n global_option_names = None).
Proof.
  split; [reflexivity|]. split; [reflexivity|]. split.
  - repeat constructor; cbn; intuition congruence.
  - intros n Hin. cbn in Hin. repeat destruct Hin as [<-|Hin]; try reflexivity; contradiction.
Qed.

Fixpoint pos_of (a : string) (l : list string) : nat :=
  match l with [] => 0 | x :: r => if String.eqb a x then 0 else S (pos_of a r) end.

(* validate-all-then-update in set_options; restore inside `finally` in options() *)
Theorem effect_order :
  pos_of "Validate" set_options_effects < pos_of "ReadOldOrRaise" set_options_effects /\
  pos_of "ReadOldOrRaise" set_options_effects < pos_of "Update" set_options_effects /\
  len (filter (String.eqb "Update") set_options_effects) = 1 /\
  options_cm_effects = ["SetOptions"; "Try["; "Yield"; "]Finally["; "Update"; "]"]%string.
Proof. vm_compute. repeat split; lia. Qed.
