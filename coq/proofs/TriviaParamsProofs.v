(* C04: decision rules of the trivia option reader. *)
From Coq Require Import List Bool Arith.
From PF Require Import models.TriviaParams.
Import ListNotations.

(* a suffix alone is shorthand for DEFAULT-KIND + suffix: 'block' on the leading side, 'line' on the trailing side *)
Theorem shorthand_is_default_kind dflt neg x : side dflt neg (PStr None x) = side dflt neg (PStr (Some dflt) x).
Proof. destruct x; reflexivity. Qed.

Theorem bool_is_default_or_none dflt neg b :
  side dflt neg (PBool b) = side dflt neg (PStr (Some (if b then dflt else KNone)) XNone).
Proof. destruct b; reflexivity. Qed.

(* what selects comments never depends on the space suffix, and the other way round *)
Theorem kind_independent_of_suffix dflt neg k x y : fst (fst (side dflt neg (PStr k x))) = fst (fst (side dflt neg (PStr k y))).
Proof. destruct x, y; reflexivity. Qed.

(* the two sides are read independently *)
Theorem sides_independent neg l t t' l' :
  fst (params neg (OPair l t)) = fst (params neg (OPair l t')) /\ snd (params neg (OPair l t)) = snd (params neg (OPair l' t)).
Proof. split; reflexivity. Qed.

(* nothing but an explicit kind or an int on the trailing side makes it select more than the line comment: in particular
   every shorthand and True select exactly 'line', False and () select nothing *)
Theorem trailing_default_selects_line_only neg o :
  (exists p, o = OOne p) \/ (exists l x, o = OPair l (PStr None x)) \/ (exists l, o = OPair l (PBool true)) \/ (exists x, o = OSingle (PStr None x)) ->
  fst (fst (snd (params neg o))) = CKind KLine.
Proof.
  intros [(p & ->)|[(l & x & ->)|[(l & ->)|(x & ->)]]]; try reflexivity; destruct x; reflexivity.
Qed.

(* a negative space suffix deletes nothing unless asked for (neg): count 0, flagged *)
Theorem minus_without_neg dflt k n : side dflt false (PStr k (XMinus n)) = (CKind (match k with Some k => k | None => dflt end), SpN 0, true).
Proof. reflexivity. Qed.

Example params_nonvacuous :
  params false (OPair (PBool false) (PStr None (XPlus (Some 1)))) = ((CKind KNone, SpFalse, false), (CKind KLine, SpN 1, false)) /\
  params true (OOne (PStr (Some KAll) (XMinus None))) = ((CKind KAll, SpTrue, true), (CKind KLine, SpFalse, false)).
Proof. split; reflexivity. Qed.
