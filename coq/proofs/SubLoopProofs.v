(* C18: the counts subn() reports are the substitutions it performed, for every count / loop / callback setting. *)
From Coq Require Import List Bool Arith ZArith Lia.
From PF Require Import models.SubLoop.
Import ListNotations.
Local Open Scope Z_scope.

Lemma nonzero_app l d : nonzero (l ++ [d]) = (nonzero l + (if Nat.eqb d 0 then 0 else 1))%nat.
Proof.
  unfold nonzero. rewrite filter_app, app_length. cbn [filter]. destruct (Nat.eqb d 0); cbn; lia.
Qed.

Lemma sum_app l d : sum (l ++ [d]) = (sum l + d)%nat.
Proof. unfold sum. induction l as [|x l IH]; cbn in *; lia. Qed.

Lemma nonzero_le_sum l : (nonzero l <= sum l)%nat.
Proof.
  unfold nonzero, sum. induction l as [|x l IH]; cbn; [lia|].
  destruct (Nat.eqb_spec x 0); cbn; lia.
Qed.

(* ---- one location ---- *)
Definition allowance (l : loopv) (d : nat) : Prop :=
  match l with
  | None => (d <= 1)%nat
  | Some z => z > 0 -> (Z.of_nat d <= z)
  end.

Lemma rounds_bounds : forall fuel done l cbs d c,
    rounds fuel done l cbs = (d, c) ->
    (done <= d <= done + fuel)%nat /\
    match l with None => (d <= S done)%nat | Some z => z > 0 -> Z.of_nat d <= Z.of_nat done + z end.
Proof.
  induction fuel as [|f IH]; intros done l cbs d c H; cbn [rounds] in H.
  - destruct (next_cb cbs) as [skip cbs']. destruct skip; inversion H; subst; (split; [lia|]); destruct l; intros; lia.
  - destruct (next_cb cbs) as [skip cbs']. destruct skip.
    + inversion H; subst. split; [lia|]. destruct l; intros; lia.
    + destruct l as [z|].
      * destruct (Z.eqb_spec (z - 1) 0) as [E|E].
        -- inversion H; subst. split; [lia|]. intros. lia.
        -- destruct f as [|f'].
           ++ inversion H; subst. split; [lia|]. intros. lia.
           ++ apply IH in H. destruct H as [H1 H2]. split; [lia|]. intros Hz.
              destruct (Z_gt_dec (z - 1) 0) as [G|G]; [specialize (H2 G); lia|lia].
      * inversion H; subst. split; lia.
Qed.

Lemma rounds_allowance avail l cbs d c : rounds avail 0 l cbs = (d, c) -> (d <= avail)%nat /\ allowance l d.
Proof.
  intros H. apply rounds_bounds in H. destruct H as [H1 H2]. split; [lia|].
  unfold allowance. destruct l; [intros G; specialize (H2 G); lia|lia].
Qed.

(* without a callback a location that matched is substituted at least once *)
Lemma rounds_no_callback avail l d c : (1 <= avail)%nat -> rounds avail 0 l [] = (d, c) -> (1 <= d)%nat.
Proof.
  intros Ha H. destruct avail as [|f]; [lia|]. cbn in H.
  destruct l as [z|].
  - destruct (z - 1 =? 0).
    + inversion H; lia.
    + destruct f; [inversion H; lia|]. apply rounds_bounds in H. lia.
  - inversion H; lia.
Qed.

(* ---- all locations ---- *)
Section Run.
  Variable l0 : loopv.
  Variable count0 : Z.
  Hypothesis Hc0 : 0 <= count0.

  Definition inv (s : st) : Prop :=
    total s = sum (per_loc s) /\ count s = count0 - Z.of_nat (nonzero (per_loc s)).

  Lemma locs_run_inv : forall locs s,
      inv s -> (0 < count0 -> 0 < count s) ->
      let s' := locs_run locs l0 s in inv s' /\ (0 < count0 -> 0 <= count s').
  Proof.
    induction locs as [|avail rest IH]; intros s [Ht Hc] Hpos; cbn [locs_run].
    - split; [split; assumption|]. intros G. specialize (Hpos G). lia.
    - destruct (rounds avail 0 l0 (cbs_left s)) as [d cbs'] eqn:Hr.
      destruct d as [|d'].
      + apply IH.
        * unfold inv. cbn [count total per_loc cbs_left]. rewrite sum_app, nonzero_app. cbn [Nat.eqb]. split; lia.
        * cbn [count]. exact Hpos.
      + cbn [count total per_loc cbs_left].
        assert (Hinv2 : inv {| count := count s - 1; total := (total s + S d')%nat; cbs_left := cbs'; per_loc := per_loc s ++ [S d'] |}).
        { unfold inv. cbn [count total per_loc cbs_left]. rewrite sum_app, nonzero_app. cbn [Nat.eqb]. split; lia. }
        destruct (Z.eqb_spec (count s - 1) 0) as [E|E].
        * split; [exact Hinv2|]. cbn [count]. intros _. lia.
        * apply IH; [exact Hinv2|]. cbn [count]. intros G. specialize (Hpos G). lia.
  Qed.

  Theorem counts_are_substitutions locs cbs :
    let s := locs_run locs l0 (init count0 cbs) in
    subn_counts locs l0 count0 cbs = (Z.of_nat (nonzero (per_loc s)), sum (per_loc s)).
  Proof.
    cbn zeta. unfold subn_counts, reported.
    destruct (locs_run_inv locs (init count0 cbs)) as [[Ht Hc] Hpos].
    - unfold inv, init. cbn [count total per_loc cbs_left]. unfold sum, nonzero. cbn. split; lia.
    - unfold init. cbn [count]. lia.
    - rewrite Ht. f_equal.
      destruct (Z.ltb_spec (count (locs_run locs l0 (init count0 cbs))) 0) as [L|L]; [lia|].
      destruct (Z_lt_dec 0 count0) as [G|G]; [specialize (Hpos G); lia|].
      assert (count0 = 0) by lia. lia.
  Qed.
End Run.

(* every location: at most what it can take, at most the loop allowance - the SAME allowance l0 at every location *)
Lemma locs_run_per_loc l0 : forall locs s,
    exists ds, per_loc (locs_run locs l0 s) = per_loc s ++ ds /\ (length ds <= length locs)%nat /\
               Forall2 (fun d avail => (d <= avail)%nat /\ allowance l0 d) ds (firstn (length ds) locs).
Proof.
  induction locs as [|avail rest IH]; intros s; cbn [locs_run].
  - exists []. rewrite app_nil_r. repeat split; auto. constructor.
  - destruct (rounds avail 0 l0 (cbs_left s)) as [d cbs'] eqn:Hr.
    pose proof (rounds_allowance _ _ _ _ _ Hr) as Hb.
    assert (Hcons : forall s1, per_loc s1 = per_loc s ++ [d] ->
              exists ds, per_loc (locs_run rest l0 s1) = per_loc s ++ ds /\ (length ds <= length (avail :: rest))%nat /\
                         Forall2 (fun d avail => (d <= avail)%nat /\ allowance l0 d) ds (firstn (length ds) (avail :: rest))).
    { intros s1 E. destruct (IH s1) as (ds & E1 & L1 & F1). exists (d :: ds). rewrite E1, E, <- app_assoc. cbn. repeat split; [lia|].
      constructor; assumption. }
    destruct d as [|d'].
    + apply Hcons. reflexivity.
    + cbn [count total per_loc cbs_left]. destruct (count s - 1 =? 0).
      * exists [S d']. cbn. repeat split; [lia|]. constructor; [assumption|constructor].
      * apply Hcons. reflexivity.
Qed.

Theorem per_location_bounds locs l0 count0 cbs :
  let s := locs_run locs l0 (init count0 cbs) in
  (length (per_loc s) <= length locs)%nat /\
  Forall2 (fun d avail => (d <= avail)%nat /\ allowance l0 d) (per_loc s) (firstn (length (per_loc s)) locs).
Proof.
  cbn zeta. destruct (locs_run_per_loc l0 locs (init count0 cbs)) as (ds & E & L & F).
  cbn [init per_loc app] in E. rewrite E. split; assumption.
Qed.

Theorem unique_le_total locs l0 count0 cbs : 0 <= count0 ->
  fst (subn_counts locs l0 count0 cbs) <= Z.of_nat (snd (subn_counts locs l0 count0 cbs)).
Proof.
  intros H. rewrite (counts_are_substitutions l0 count0 H locs cbs). cbn [fst snd].
  apply inj_le, nonzero_le_sum.
Qed.

Theorem count_limit_respected locs l0 count0 cbs : 0 < count0 -> fst (subn_counts locs l0 count0 cbs) <= count0.
Proof.
  intros H. unfold subn_counts, reported. cbn [fst].
  destruct (locs_run_inv l0 count0 locs (init count0 cbs)) as [[Ht Hc] Hpos].
  - unfold inv, init. cbn [count total per_loc cbs_left]. unfold sum, nonzero. cbn. split; lia.
  - unfold init. cbn [count]. lia.
  - specialize (Hpos H). destruct (Z.ltb_spec (count (locs_run locs l0 (init count0 cbs))) 0); lia.
Qed.

Example loop_nonvacuous :
  subn_counts [2; 5]%nat (Some 3) 0 [] = (2, 5%nat) /\                         (* ([a,b,c], [p,q,r,s,t,u]) loop=3 *)
  subn_counts [3]%nat (Some 0) 0 [false; true] = (1, 1%nat) /\                  (* loop=True, the callback declines the second round: counted *)
  subn_counts [3; 3]%nat (Some 3) 0 [false; true] = (2, 4%nat) /\               (* the allowance is whole again at the second location *)
  subn_counts [2; 5]%nat (Some 3) 1 [] = (1, 2%nat) /\
  subn_counts [1; 1]%nat None 0 [true] = (1, 1%nat).
Proof. repeat split; reflexivity. Qed.

(* ---- with the clamp at the entry: any integer count ---- *)
Theorem negative_count_is_no_limit locs l0 count cbs : count < 0 -> subn_entry locs l0 count cbs = subn_entry locs l0 0 cbs.
Proof. intros H. unfold subn_entry. destruct (Z.ltb_spec count 0); [reflexivity|lia]. Qed.

Theorem entry_counts_are_substitutions locs l0 count cbs :
  let c0 := if count <? 0 then 0 else count in
  let s := locs_run locs l0 (init c0 cbs) in
  subn_entry locs l0 count cbs = (Z.of_nat (nonzero (per_loc s)), sum (per_loc s)).
Proof.
  cbn zeta. unfold subn_entry. apply counts_are_substitutions. destruct (Z.ltb_spec count 0); lia.
Qed.

Theorem entry_unique_le_total locs l0 count cbs :
  fst (subn_entry locs l0 count cbs) <= Z.of_nat (snd (subn_entry locs l0 count cbs)).
Proof. unfold subn_entry. apply unique_le_total. destruct (Z.ltb_spec count 0); lia. Qed.

Example entry_nonvacuous :
  subn_entry [2; 5]%nat (Some 3) (-1) [] = (2, 5%nat) /\ subn_entry [2; 5]%nat (Some 3) (-7) [] = subn_entry [2; 5]%nat (Some 3) 0 [] /\ subn_entry [1; 1; 1]%nat None (-2) [] = (3, 3%nat).
Proof. repeat split; reflexivity. Qed.
