(* C12 / C20 theorems over models/Registry.v *)
From Coq Require Import List Bool Arith Lia.
From PF Require Import models.Registry.
Import ListNotations.

(* observational equality of registries *)
Definition req (a b : reg) : Prop := forall r, rget a r = rget b r.

Lemma rget_rset_same g r e : rget (rset g r e) r = Some e.
Proof. cbn. now rewrite Nat.eqb_refl. Qed.
Lemma rget_rset_other g r r' e : r <> r' -> rget (rset g r e) r' = rget g r'.
Proof. intros H. cbn. destruct (Nat.eqb r r') eqn:E; [apply Nat.eqb_eq in E; contradiction|reflexivity]. Qed.
Lemma rget_rdel_same g r : rget (rdel g r) r = None.
Proof. induction g as [|[k e] t IH]; [reflexivity|]. cbn. destruct (Nat.eqb k r) eqn:E; [exact IH|]. cbn. now rewrite E. Qed.
Lemma rget_rdel_other g r r' : r <> r' -> rget (rdel g r) r' = rget g r'.
Proof.
  intros H. induction g as [|[k e] t IH]; [reflexivity|]. cbn. destruct (Nat.eqb k r) eqn:E.
  - apply Nat.eqb_eq in E. subst k. destruct (Nat.eqb r r') eqn:E2; [apply Nat.eqb_eq in E2; contradiction|exact IH].
  - cbn. destruct (Nat.eqb k r'); [reflexivity|exact IH].
Qed.

Lemma enter_req a b r n f : req a b ->
  match enter a r n f, enter b r n f with
  | Some a', Some b' => req a' b'
  | None, None => True
  | _, _ => False
  end.
Proof.
  intros H. unfold enter. rewrite <- (H r). destruct (rget a r) as [[n0 d]|].
  - destruct (negb (Nat.eqb n n0) && negb f); [exact I|].
    intros r'. cbn. destruct (Nat.eqb r r'); [reflexivity|apply H].
  - intros r'. cbn. destruct (Nat.eqb r r'); [reflexivity|apply H].
Qed.

Lemma leave_req a b r : req a b ->
  match leave a r, leave b r with
  | Some a', Some b' => req a' b'
  | None, None => True
  | _, _ => False
  end.
Proof.
  intros H. unfold leave. rewrite <- (H r). destruct (rget a r) as [[n0 d]|]; [|exact I].
  destruct (Nat.ltb 1 d).
  - intros r'. cbn. destruct (Nat.eqb r r'); [reflexivity|apply H].
  - intros r'. destruct (Nat.eq_dec r r') as [<-|Hn]; [now rewrite !rget_rdel_same|].
    rewrite !rget_rdel_other by assumption. apply H.
Qed.

Definition wf (g : reg) : Prop := forall r n d, rget g r = Some (n, d) -> d >= 1.

Lemma wf_req a b : req a b -> wf a -> wf b.
Proof. intros H W r n d E. apply (W r n d). now rewrite (H r). Qed.

Lemma enter_wf g r n f g1 : wf g -> enter g r n f = Some g1 -> wf g1.
Proof.
  unfold enter. intros W He. destruct (rget g r) as [[n0 d]|] eqn:Eg.
  - destruct (negb (Nat.eqb n n0) && negb f); [discriminate|]. injection He as <-.
    intros r' n' d' E. cbn in E. destruct (Nat.eqb r r'); [injection E as <- <-; lia|apply (W r' n' d' E)].
  - injection He as <-. intros r' n' d' E. cbn in E. destruct (Nat.eqb r r'); [injection E as <- <-; lia|apply (W r' n' d' E)].
Qed.

Lemma leave_wf g r g1 : wf g -> leave g r = Some g1 -> wf g1.
Proof.
  unfold leave. intros W He. destruct (rget g r) as [[n0 d]|] eqn:Eg; [|discriminate].
  destruct (Nat.ltb 1 d) eqn:El; injection He as <-.
  - apply Nat.ltb_lt in El. intros r' n' d' E. cbn in E. destruct (Nat.eqb r r'); [injection E as <- <-; lia|apply (W r' n' d' E)].
  - intros r' n' d' E. destruct (Nat.eq_dec r r') as [<-|Hn]; [rewrite rget_rdel_same in E; discriminate|].
    rewrite rget_rdel_other in E by assumption. apply (W r' n' d' E).
Qed.

(* entering and then leaving a root gives back the registry (observationally), whatever happened in between as long as
   that left the registry as it was after entering *)
Lemma enter_leave g r n f g1 g2 : wf g -> enter g r n f = Some g1 -> req g2 g1 ->
  exists g3, leave g2 r = Some g3 /\ req g3 g.
Proof.
  unfold enter. intros W He Hq. destruct (rget g r) as [[n0 d]|] eqn:Eg.
  - destruct (negb (Nat.eqb n n0) && negb f); [discriminate|]. injection He as <-.
    pose proof (W r n0 d Eg) as Hd.
    unfold leave. rewrite (Hq r), rget_rset_same.
    destruct (Nat.ltb_spec 1 (S d)) as [El|El]; [|lia].
    eexists; split; [reflexivity|]. intros r'. destruct (Nat.eq_dec r r') as [<-|Hn].
    + rewrite rget_rset_same, Eg. repeat f_equal. lia.
    + rewrite rget_rset_other by assumption. rewrite (Hq r'), rget_rset_other by assumption. reflexivity.
  - injection He as <-. unfold leave. rewrite (Hq r), rget_rset_same. cbn [Nat.ltb Nat.leb].
    eexists; split; [reflexivity|]. intros r'. destruct (Nat.eq_dec r r') as [<-|Hn].
    + now rewrite rget_rdel_same, Eg.
    + rewrite rget_rdel_other by assumption. rewrite (Hq r'), rget_rset_other by assumption. reflexivity.
Qed.

(* ---- the bracket theorem: any nest of modification blocks, with refusals and exceptions anywhere, gives the registry back *)
Fixpoint item_ind' (P : item -> Prop)
  (H : forall r n f body boom, Forall P body -> P (Blk r n f body boom)) (i : item) : P i :=
  match i with
  | Blk r n f body boom =>
      H r n f body boom
        ((fix go (l : list item) : Forall P l :=
            match l with [] => Forall_nil P | x :: t => Forall_cons x (item_ind' P H x) (go t) end) body)
  end.

Lemma run_item_unfold g r n f body boom :
  run_item g (Blk r n f body boom) =
  match enter g r n f with
  | None => (g, true)
  | Some g1 => let '(g2, raised) := run_items g1 body in
               match leave g2 r with Some g3 => (g3, raised || boom) | None => (g2, true) end
  end.
Proof. reflexivity. Qed.

Theorem item_restores i : forall g, wf g -> req (fst (run_item g i)) g.
Proof.
  induction i as [r n f body boom IH] using item_ind'. intros g W.
  rewrite run_item_unfold. destruct (enter g r n f) as [g1|] eqn:Ee; [|intros r'; reflexivity].
  assert (W1 : wf g1) by (eapply enter_wf; eassumption).
  assert (B : forall g0, wf g0 -> req (fst (run_items g0 body)) g0).
  { clear Ee W1. induction body as [|x t IHt]; intros g0 W0; [intros r'; reflexivity|].
    inversion IH as [|x' t' Hx Ht]; subst. cbn [run_items].
    specialize (Hx g0 W0). destruct (run_item g0 x) as [g' ra] eqn:Ex. cbn [fst] in Hx.
    destruct ra; [exact Hx|].
    assert (W' : wf g') by (apply (wf_req g0 g'); [intros r'; symmetry; apply Hx|assumption]).
    specialize (IHt Ht g' W'). intros r'. rewrite (IHt r'). apply Hx. }
  specialize (B g1 W1). destruct (run_items g1 body) as [g2 raised] eqn:Er. cbn [fst] in B.
  destruct (enter_leave g r n f g1 g2 W Ee B) as (g3 & El & Hq). rewrite El. exact Hq.
Qed.

Theorem reg_bracket l : forall g, wf g -> req (fst (run_items g l)) g.
Proof.
  induction l as [|x t IH]; intros g W; [intros r; reflexivity|]. cbn [run_items].
  pose proof (item_restores x g W) as Hx. destruct (run_item g x) as [g' ra]. cbn [fst] in Hx.
  destruct ra; [exact Hx|].
  assert (W' : wf g') by (apply (wf_req g g'); [intros r'; symmetry; apply Hx|assumption]).
  intros r'. rewrite (IH g' W' r'). apply Hx.
Qed.

(* from an idle registry everything ends idle: no lock survives, whatever failed *)
Corollary reg_ends_empty l r : rget (fst (run_items [] l)) r = None.
Proof. assert (W : wf []) by (intros ? ? ? E; discriminate). exact (reg_bracket l [] W r). Qed.

(* a refused enter leaves the registry untouched *)
Theorem reg_reject_pure g r n f : enter g r n f = None -> rstep g (REnter r n f) = (g, false).
Proof. intros H. cbn. now rewrite H. Qed.

(* after any nest of (possibly failing) edits on an idle tree, the next edit of ANY node of that tree is admitted *)
Theorem reg_next_edit l r n f : exists g', enter (fst (run_items [] l)) r n f = Some g'.
Proof. unfold enter. rewrite reg_ends_empty. eexists; reflexivity. Qed.

(* ---- operations on different roots commute (threads editing different trees do not see each other) ----------- *)
Lemma rstep_other g o r' : rop_root o <> r' -> rget (fst (rstep g o)) r' = rget g r'.
Proof.
  intros H. destruct o as [r n f|r]; cbn [rstep rop_root] in *.
  - unfold enter. destruct (rget g r) as [[n0 d]|].
    + destruct (negb (Nat.eqb n n0) && negb f); [reflexivity|]. cbn [fst]. now apply rget_rset_other.
    + cbn [fst]. now apply rget_rset_other.
  - unfold leave. destruct (rget g r) as [[n0 d]|]; [|reflexivity].
    destruct (Nat.ltb 1 d); cbn [fst]; [now apply rget_rset_other|now apply rget_rdel_other].
Qed.

Lemma rstep_req a b o : req a b -> req (fst (rstep a o)) (fst (rstep b o)) /\ snd (rstep a o) = snd (rstep b o).
Proof.
  intros H. destruct o as [r n f|r]; cbn [rstep].
  - pose proof (enter_req a b r n f H) as E. destruct (enter a r n f), (enter b r n f); try contradiction; split; cbn; auto.
  - pose proof (leave_req a b r H) as E. destruct (leave a r), (leave b r); try contradiction; split; cbn; auto.
Qed.

Theorem reg_disjoint_commute g o1 o2 : rop_root o1 <> rop_root o2 ->
  req (fst (rstep (fst (rstep g o1)) o2)) (fst (rstep (fst (rstep g o2)) o1)) /\
  snd (rstep (fst (rstep g o1)) o2) = snd (rstep g o2) /\ snd (rstep (fst (rstep g o2)) o1) = snd (rstep g o1).
Proof.
  intros Hne.
  (* outcome of an op depends only on the binding of its own root *)
  assert (Out : forall a b o, rget a (rop_root o) = rget b (rop_root o) -> snd (rstep a o) = snd (rstep b o) /\
                 rget (fst (rstep a o)) (rop_root o) = rget (fst (rstep b o)) (rop_root o)).
  { intros a b o E. destruct o as [r n f|r]; cbn [rstep rop_root] in *.
    - unfold enter. rewrite E. destruct (rget b r) as [[n0 d]|] eqn:Eb.
      + destruct (negb (Nat.eqb n n0) && negb f); cbn; [split; [reflexivity|congruence]|]. now rewrite !Nat.eqb_refl.
      + cbn. now rewrite !Nat.eqb_refl.
    - unfold leave. rewrite E. destruct (rget b r) as [[n0 d]|] eqn:Eb; [|cbn; split; [reflexivity|congruence]].
      destruct (Nat.ltb 1 d); cbn; [now rewrite !Nat.eqb_refl|]. now rewrite !rget_rdel_same. }
  assert (E2 : rget (fst (rstep g o1)) (rop_root o2) = rget g (rop_root o2)) by now apply rstep_other.
  assert (E1 : rget (fst (rstep g o2)) (rop_root o1) = rget g (rop_root o1)) by (apply rstep_other; congruence).
  destruct (Out _ _ o2 E2) as [S2 G2]. destruct (Out _ _ o1 E1) as [S1 G1].
  split; [|split; assumption].
  intros r. destruct (Nat.eq_dec (rop_root o2) r) as [<-|H2].
  - rewrite G2. symmetry. rewrite rstep_other by congruence. reflexivity.
  - rewrite rstep_other by assumption. destruct (Nat.eq_dec (rop_root o1) r) as [<-|H1].
    + now rewrite G1.
    + rewrite !rstep_other by assumption. reflexivity.
Qed.
