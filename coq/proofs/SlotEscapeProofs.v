(* C18: a capture written into a slot inside a string constant reads back as the capture's source, whatever the quotes of
   the template string (single or triple, either quote character), and whatever stands around the slot in that string. *)
From Coq Require Import List Bool Arith Lia.
From PF Require Import models.StrRepr proofs.StrReprProofs models.SlotEscape.
Import ListNotations.

Definition su (c : sym) : unit :=
  match c with
  | DQ => U2 DQ | SQ => U2 SQ | BS => U2 BS | NL => U2 Ln | TAB => U2 Lt | NUL => U2 Ez | NP k => U2 (E k)
  | c => U1 c
  end.

Lemma su_bytes c : ubytes (su c) = slot_escape_char c.
Proof. destruct c; reflexivity. Qed.

Lemma su_wf c : uwf (su c).
Proof. destruct c; simpl; auto; discriminate. Qed.

Lemma su_dec c : plain c = true -> udec (su c) = [c].
Proof. destruct c; simpl; intros H; try reflexivity; discriminate. Qed.

Lemma slot_escape_units s : slot_escape s = flatten (map su s).
Proof.
  unfold slot_escape, flatten. induction s as [|c s IH]; simpl; [reflexivity|]. rewrite su_bytes, IH. reflexivity.
Qed.

Lemma udec_map_su s : forallb plain s = true -> flat_map udec (map su s) = s.
Proof.
  induction s as [|c s IH]; simpl; [reflexivity|]. intros H. apply andb_true_iff in H. destruct H as [Hc Hs].
  rewrite (su_dec c Hc), IH by assumption. reflexivity.
Qed.

(* no unit of the escaped text is a bare quote: the triple-quoted scanner cannot stop inside it *)
Lemma ntu_su q s T : is_quote q = true -> ntu q (map su s) T = true.
Proof.
  intros Hq. induction s as [|c s IH]; simpl; [reflexivity|].
  destruct c; simpl; try exact IH; destruct q; try discriminate; simpl; exact IH.
Qed.

(* inside a triple-quoted template string, with any text X in front of the slot (itself well formed and without a closing
   triple) and any text T behind it *)
Theorem slot_reads_back_in_triple_quoted q s T : is_quote q = true -> forallb plain s = true ->
  scan q (slot_escape s ++ T) = option_map (app s) (scan q T).
Proof.
  intros Hq Hp. rewrite slot_escape_units, scan_units.
  - now rewrite udec_map_su.
  - apply Forall_forall. intros u Hu. apply in_map_iff in Hu. destruct Hu as (c & <- & _). apply su_wf.
  - now apply ntu_su.
Qed.

(* the single-quoted scanner over units *)
Definition u1_ok (q : sym) (u : unit) : bool := match u with U1 c => negb (sym_eqb c q) && negb (sym_eqb c NL) && negb (sym_eqb c BS) | U2 _ => true end.

Lemma scan1_units q us T : forallb (u1_ok q) us = true ->
  scan1 q (flatten us ++ T) = option_map (app (flat_map udec us)) (scan1 q T).
Proof.
  induction us as [|u us IH]; intros H.
  - simpl. destruct (scan1 q T); reflexivity.
  - simpl in H. apply andb_true_iff in H. destruct H as [Hu Hus]. destruct u as [c|c].
    + simpl in Hu. apply andb_true_iff in Hu. destruct Hu as [Hu Hb]. apply andb_true_iff in Hu. destruct Hu as [Hq Hn].
      apply negb_true_iff in Hq, Hn, Hb.
      change (flatten (U1 c :: us) ++ T) with (c :: (flatten us ++ T)).
      assert (Hs : scan1 q (c :: flatten us ++ T) = option_map (cons c) (scan1 q (flatten us ++ T))).
      { destruct c; cbn [scan1]; try (rewrite Hq; reflexivity); simpl in Hn, Hb; discriminate. }
      rewrite Hs, IH by assumption. simpl. destruct (scan1 q T); reflexivity.
    + change (flatten (U2 c :: us) ++ T) with (BS :: c :: (flatten us ++ T)).
      cbn [scan1]. rewrite IH by assumption. simpl. destruct (scan1 q T); simpl; [rewrite app_assoc|]; reflexivity.
Qed.

Lemma su_ok q s : is_quote q = true -> forallb (u1_ok q) (map su s) = true.
Proof.
  intros Hq. induction s as [|c s IH]; simpl; [reflexivity|]. rewrite IH, andb_true_r.
  destruct c; simpl; try reflexivity; destruct q; try discriminate; reflexivity.
Qed.

Theorem slot_reads_back_in_single_quoted q s T : is_quote q = true -> forallb plain s = true ->
  scan1 q (slot_escape s ++ T) = option_map (app s) (scan1 q T).
Proof.
  intros Hq Hp. rewrite slot_escape_units, scan1_units by now apply su_ok. now rewrite udec_map_su.
Qed.

(* the whole literal: a template string that consists of the slot alone *)
Corollary slot_alone_decodes q s : is_quote q = true -> forallb plain s = true ->
  decode (triple q ++ slot_escape s ++ triple q) = Some s /\ decode1 (q :: slot_escape s ++ [q]) = Some s.
Proof.
  intros Hq Hp. split.
  - unfold decode, triple. cbn [app]. rewrite Hq, !sym_eqb_refl. cbn [andb].
    rewrite slot_reads_back_in_triple_quoted by assumption.
    change (q :: q :: q :: []) with (triple q). rewrite (scan_close q Hq). cbn. now rewrite app_nil_r.
  - unfold decode1. rewrite Hq. rewrite slot_reads_back_in_single_quoted by assumption.
    assert (E : scan1 q [q] = Some []) by (destruct q; try discriminate; reflexivity).
    rewrite E. cbn. now rewrite app_nil_r.
Qed.

Example slot_escape_nonvacuous :
  (* a capture with quotes of both kinds, a backslash followed by the LETTER t = P 116, a raw tab and a raw newline *)
  let s := [DQ; P 97; BS; P 116; P 98; DQ; TAB; SQ; P 99; SQ; NL] in
  slot_escape s = [BS; DQ; P 97; BS; BS; P 116; P 98; BS; DQ; BS; Lt; BS; SQ; P 99; BS; SQ; BS; Ln] /\
  decode1 (SQ :: slot_escape s ++ [SQ]) = Some s /\ decode (triple DQ ++ slot_escape s ++ triple DQ) = Some s.
Proof. repeat split; reflexivity. Qed.
