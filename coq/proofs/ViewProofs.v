(* The view window theorem: every view operation is the corresponding Python list operation applied to the window,
   and leaves the field outside the window untouched (models/View.v over the translated gen/Fixups.v). *)
From Coq Require Import ZArith List Bool Lia Arith.
From PF Require Import kernel.PyBase kernel.Container gen.Fixups models.View proofs.FixupsProofs proofs.ContainerProofs.
Import ListNotations.
Local Open Scope nat_scope.

Section P.
  Context {A : Type}.
  Implicit Types s : vst A.

  Definition hstart s := let '(_, (a, _, _)) := base_indices s in a.
  Definition hstop s := let '(_, (_, b, _)) := base_indices s in b.
  Definition healed s := fst (base_indices s).
  Definition vpre s := firstn (hstart s) (fld s).
  Definition vpost s := skipn (hstop s) (fld s).

  Lemma base_bounds s : hstart s <= hstop s <= length (fld s).
  Proof.
    unfold hstart, hstop, base_indices.
    destruct (vstop s) as [st|]; [destruct (Nat.ltb_spec (length (fld s)) st)|];
      match goal with |- context [Nat.ltb ?a ?b] => destruct (Nat.ltb_spec a b) end; cbn; lia.
  Qed.

  Lemma base_unfold s : base_indices s = (healed s, (hstart s, hstop s, length (fld s))).
  Proof.
    unfold healed, hstart, hstop, base_indices.
    destruct (vstop s) as [st|]; [destruct (Nat.ltb (length (fld s)) st)|];
      match goal with |- context [Nat.ltb ?a ?b] => destruct (Nat.ltb a b) end; reflexivity.
  Qed.

  Lemma vitems_eq s : vitems s = firstn (hstop s - hstart s) (skipn (hstart s) (fld s)).
  Proof. unfold vitems. now rewrite base_unfold. Qed.

  Lemma vitems_length s : length (vitems s) = hstop s - hstart s.
  Proof. rewrite vitems_eq, firstn_length, skipn_length. pose proof (base_bounds s). lia. Qed.

  (* the field is  pre ++ window ++ post *)
  Lemma parts s : fld s = vpre s ++ vitems s ++ vpost s.
  Proof.
    unfold vpre, vpost. rewrite vitems_eq. pose proof (base_bounds s) as H.
    rewrite <- (firstn_skipn (hstart s) (fld s)) at 1. f_equal.
    rewrite <- (firstn_skipn (hstop s - hstart s) (skipn (hstart s) (fld s))) at 1. f_equal.
    rewrite skipn_skipn'. f_equal. lia.
  Qed.

  Lemma vpre_length s : length (vpre s) = hstart s.
  Proof. unfold vpre. rewrite firstn_length. pose proof (base_bounds s). lia. Qed.

  Lemma healed_fld s : fld (healed s) = fld s.
  Proof.
    unfold healed, base_indices.
    destruct (vstop s) as [st|]; [destruct (Nat.ltb (length (fld s)) st)|];
      match goal with |- context [Nat.ltb ?a ?b] => destruct (Nat.ltb a b) end; reflexivity.
  Qed.
  Lemma healed_start s : vstart (healed s) = hstart s.
  Proof.
    unfold healed, hstart, base_indices.
    destruct (vstop s) as [st|]; [destruct (Nat.ltb (length (fld s)) st)|];
      match goal with |- context [Nat.ltb ?a ?b] => destruct (Nat.ltb a b) end; reflexivity.
  Qed.
  Lemma healed_stop s : vstop (healed s) = match vstop s with None => None | Some _ => Some (hstop s) end.
  Proof.
    unfold healed, hstop, base_indices.
    destruct (vstop s) as [st|]; [destruct (Nat.ltb (length (fld s)) st)|];
      match goal with |- context [Nat.ltb ?a ?b] => destruct (Nat.ltb a b) end; reflexivity.
  Qed.
  Lemma open_post s : vstop s = None -> vpost s = [].
  Proof.
    intros H. unfold vpost, hstop, base_indices. rewrite H.
    match goal with |- context [Nat.ltb ?a ?b] => destruct (Nat.ltb a b) end; cbn; apply skipn_all.
  Qed.

  (* Core lemma: replacing the window by win' and setting stop to start+|win'| gives a view whose three parts are
     (pre, win', post). *)
  Lemma bump_parts s win' newstop :
    (forall st, vstop s = Some st -> newstop (hstop s) = hstart s + length win') ->
    let s' := bump (healed s) (vpre s ++ win' ++ vpost s) newstop in
    vpre s' = vpre s /\ vitems s' = win' /\ vpost s' = vpost s /\ fld s' = vpre s ++ win' ++ vpost s.
  Proof.
    intros Hn s'.
    assert (Hf : fld s' = vpre s ++ win' ++ vpost s) by reflexivity.
    assert (Hlen : length (fld s') = hstart s + length win' + length (vpost s))
      by (rewrite Hf, !app_length, vpre_length; lia).
    assert (Hst : vstart s' = hstart s) by (unfold s', bump; cbn; apply healed_start).
    assert (Hss : hstart s' = hstart s /\ hstop s' = hstart s + length win').
    { unfold hstart at 1, hstop at 1, base_indices. rewrite Hst, Hlen.
      unfold s', bump; cbn [vstop]. rewrite healed_stop.
      destruct (vstop s) as [st|] eqn:E; cbn [option_map].
      - rewrite (Hn st eq_refl).
        destruct (Nat.ltb_spec (hstart s + length win' + length (vpost s)) (hstart s + length win')); [lia|].
        destruct (Nat.ltb_spec (hstart s + length win') (hstart s)); [lia|]. now cbn.
      - rewrite (open_post s E). cbn [length]. rewrite Nat.add_0_r.
        destruct (Nat.ltb_spec (hstart s + length win') (hstart s)); [lia|]. now cbn. }
    destruct Hss as [H1 H2].
    assert (Hpre : vpre s' = vpre s).
    { unfold vpre at 1. rewrite H1, Hf. rewrite <- (vpre_length s) at 1.
      rewrite firstn_app, firstn_all, Nat.sub_diag. cbn [firstn]. now rewrite app_nil_r. }
    assert (Hpost : vpost s' = vpost s).
    { unfold vpost at 1. rewrite H2, Hf, app_assoc.
      replace (hstart s + length win') with (length (vpre s ++ win')) by (rewrite app_length, vpre_length; lia).
      rewrite skipn_app, skipn_all, Nat.sub_diag. reflexivity. }
    repeat split; try assumption.
    rewrite vitems_eq, H1, H2, Hf.
    replace (hstart s + length win' - hstart s) with (length win') by lia.
    rewrite <- (vpre_length s) at 1. rewrite skipn_app, skipn_all, Nat.sub_diag. cbn [skipn app].
    rewrite firstn_app, firstn_all, Nat.sub_diag. cbn. now rewrite app_nil_r.
  Qed.

  (* put through the window *)
  Lemma put_in_window s i0 i1 new : i0 <= i1 <= length (vitems s) ->
    put_slice_spec (fld s) (hstart s + i0) (hstart s + i1) new
    = vpre s ++ put_slice_spec (vitems s) i0 i1 new ++ vpost s.
  Proof.
    intros H. rewrite (parts s) at 1. rewrite <- (vpre_length s). now apply window_put.
  Qed.

  Definition Same_outside s s' win' :=
    vpre s' = vpre s /\ vitems s' = win' /\ vpost s' = vpost s /\ fld s' = vpre s ++ win' ++ vpost s.

  Lemma slice_len_change s i0 i1 new : i0 <= i1 <= length (vitems s) ->
    hstop s + length (vpre s ++ put_slice_spec (vitems s) i0 i1 new ++ vpost s) - (length (fld s))
    = hstart s + length (put_slice_spec (vitems s) i0 i1 new).
  Proof.
    intros H. rewrite (parts s). rewrite !app_length, vpre_length.
    rewrite put_slice_length by lia. rewrite vitems_length in *. pose proof (base_bounds s). lia.
  Qed.

  (* v[a:b] = new *)
  Theorem setitem_slice_window s a b new s' :
    setitem_slice s a b new = Some s' ->
    let n := Z.of_nat (length (vitems s)) in
    (py_clamp n a <= py_clamp n (idx_val n b))%Z /\
    Same_outside s s' (py_setslice (vitems s) a (idx_val n b) new).
  Proof.
    unfold setitem_slice. rewrite base_unfold. rewrite <- vitems_length.
    destruct (fixup_slice_indices _ _ _ _) as [[i0 i1]|] eqn:E; [|discriminate].
    intros H; injection H as <-. cbv zeta.
    apply fix_slice_some in E; [|lia]. destruct E as (E1 & E2 & E3 & E4). cbn [idx_val] in E3.
    split; [lia|].
    rewrite py_setslice_ordered by lia. rewrite <- E3, <- E4.
    rewrite put_in_window by lia.
    apply bump_parts. intros st _. apply slice_len_change. lia.
  Qed.

  (* when it refuses, Python's normalised stop precedes the start (Python would insert at start instead) *)
  Theorem setitem_slice_refuses s a b new :
    setitem_slice s a b new = None ->
    let n := Z.of_nat (length (vitems s)) in (py_clamp n (idx_val n b) < py_clamp n a)%Z.
  Proof.
    unfold setitem_slice. rewrite base_unfold. rewrite <- vitems_length.
    rewrite fix_slice_py by lia. cbv zeta. cbn [idx_val].
    destruct (_ <? _)%Z eqn:E; [intros _; lia | discriminate].
  Qed.

  (* del v[a:b] *)
  Theorem delitem_slice_window s a b s' :
    delitem_slice s a b = Some s' ->
    let n := Z.of_nat (length (vitems s)) in
    Same_outside s s' (py_setslice (vitems s) a (idx_val n b) []).
  Proof.
    unfold delitem_slice. rewrite base_unfold. rewrite <- vitems_length.
    destruct (fixup_slice_indices _ _ _ _) as [[i0 i1]|] eqn:E; [|discriminate].
    intros H; injection H as <-. cbv zeta.
    apply fix_slice_some in E; [|lia]. destruct E as (E1 & E2 & E3 & E4). cbn [idx_val] in E3.
    rewrite py_setslice_ordered by lia. rewrite <- E3, <- E4.
    rewrite put_in_window by lia.
    apply bump_parts. intros st _.
    rewrite put_slice_length by lia. rewrite vitems_length in *. pose proof (base_bounds s). cbn [length]. lia.
  Qed.

  (* v[i] = x *)
  Theorem setitem_one_window s i x s' :
    setitem_one s i x = Some s' ->
    exists k, py_index (Z.of_nat (length (vitems s))) i = Some (Z.of_nat k) /\
              Same_outside s s' (replace_spec (vitems s) k x).
  Proof.
    unfold setitem_one. rewrite base_unfold. rewrite <- vitems_length.
    destruct (fixup_one_index _ _ _) as [k|] eqn:E; [|discriminate].
    intros H; injection H as <-.
    pose proof (fix_one_range (Z.of_nat (length (vitems s))) (Ix i) 0%Z k ltac:(lia) ltac:(lia) E) as R.
    rewrite fix_one_py in E by lia.
    exists (Z.to_nat k). split; [rewrite E; f_equal; lia|].
    unfold replace_spec. replace (S (hstart s + Z.to_nat k)) with (hstart s + S (Z.to_nat k)) by lia.
    rewrite put_in_window by lia.
    apply bump_parts. intros st _. apply slice_len_change. lia.
  Qed.

  (* del v[i] *)
  Theorem delitem_one_window s i s' :
    delitem_one s i = Some s' ->
    exists k, py_index (Z.of_nat (length (vitems s))) i = Some (Z.of_nat k) /\
              Same_outside s s' (remove_spec (vitems s) k).
  Proof.
    unfold delitem_one. rewrite base_unfold. rewrite <- vitems_length.
    destruct (fixup_one_index _ _ _) as [k|] eqn:E; [|discriminate].
    intros H; injection H as <-.
    pose proof (fix_one_range (Z.of_nat (length (vitems s))) (Ix i) 0%Z k ltac:(lia) ltac:(lia) E) as R.
    rewrite fix_one_py in E by lia.
    exists (Z.to_nat k). split; [rewrite E; f_equal; lia|].
    unfold remove_spec. replace (S (hstart s + Z.to_nat k)) with (hstart s + S (Z.to_nat k)) by lia.
    rewrite put_in_window by lia.
    apply bump_parts. intros st _.
    rewrite put_slice_length by lia. rewrite vitems_length in *. pose proof (base_bounds s). cbn [length]. lia.
  Qed.

  (* v.append(x), v.extend(xs), v.prepend(x), v.prextend(xs), v.replace(xs) *)
  Theorem vappend_window s x : Same_outside s (vappend s x) (vitems s ++ [x]).
  Proof.
    unfold vappend. rewrite base_unfold.
    pose proof (base_bounds s) as B. pose proof (vitems_length s) as L.
    replace (hstop s) with (hstart s + length (vitems s)) at 1 2 by lia.
    rewrite put_in_window by lia.
    replace (put_slice_spec (vitems s) (length (vitems s)) (length (vitems s)) [x]) with (vitems s ++ [x])
      by (symmetry; apply append_spec_eq).
    apply bump_parts. intros st _. rewrite app_length. cbn. lia.
  Qed.

  Theorem vextend_window s xs : Same_outside s (vextend s xs) (vitems s ++ xs).
  Proof.
    unfold vextend. rewrite base_unfold.
    pose proof (base_bounds s) as B. pose proof (vitems_length s) as L.
    replace (hstop s) with (hstart s + length (vitems s)) at 1 2 by lia.
    rewrite put_in_window by lia.
    replace (put_slice_spec (vitems s) (length (vitems s)) (length (vitems s)) xs) with (vitems s ++ xs)
      by (symmetry; apply extend_spec_eq).
    apply bump_parts. intros st _.
    rewrite put_slice_length by lia. rewrite app_length. lia.
  Qed.

  Theorem vprepend_window s x : Same_outside s (vprepend s x) (x :: vitems s).
  Proof.
    unfold vprepend. rewrite base_unfold.
    replace (hstart s) with (hstart s + 0) at 1 2 by lia.
    rewrite put_in_window by lia.
    change (put_slice_spec (vitems s) 0 0 [x]) with (x :: vitems s).
    apply bump_parts. intros st _. cbn [length]. rewrite vitems_length. pose proof (base_bounds s). lia.
  Qed.

  Theorem vprextend_window s xs : Same_outside s (vprextend s xs) (xs ++ vitems s).
  Proof.
    unfold vprextend. rewrite base_unfold.
    replace (hstart s) with (hstart s + 0) at 1 2 by lia.
    rewrite put_in_window by lia.
    change (put_slice_spec (vitems s) 0 0 xs) with (xs ++ vitems s).
    apply bump_parts. intros st _. pose proof (base_bounds s).
    rewrite ?Nat.add_0_r. rewrite put_slice_length by lia. rewrite app_length, vitems_length. lia.
  Qed.

  Theorem vreplace_window s xs : Same_outside s (vreplace s xs) xs.
  Proof.
    unfold vreplace. rewrite base_unfold.
    pose proof (base_bounds s) as B. pose proof (vitems_length s) as L.
    replace (hstart s) with (hstart s + 0) at 1 by lia.
    replace (hstop s) with (hstart s + length (vitems s)) at 1 by lia.
    rewrite put_in_window by lia.
    replace (put_slice_spec (vitems s) 0 (length (vitems s)) xs) with xs
      by (unfold put_slice_spec; rewrite skipn_all; cbn; now rewrite app_nil_r).
    apply bump_parts. intros st _.
    rewrite ?Nat.add_0_r. rewrite put_slice_length by lia. lia.
  Qed.

  (* insert with Python's list.insert clamping relative to the window *)
  Theorem vinsert_window s i new :
    let n := Z.of_nat (length (vitems s)) in
    let k := Z.to_nat (py_clamp n (idx_val n i)) in
    Same_outside s (vinsert s i new) (put_slice_spec (vitems s) k k new).
  Proof.
    cbv zeta. unfold vinsert. rewrite base_unfold. rewrite <- vitems_length.
    pose proof (base_bounds s) as B. pose proof (vitems_length s) as L.
    set (n := Z.of_nat (length (vitems s))).
    assert (Hk : (match i with
             | End => hstop s
             | Ix z => if (z >? n)%Z then hstop s
                       else hstart s + Z.to_nat (if (z >=? 0)%Z then z else Z.max 0 (z + n))
             end) = hstart s + Z.to_nat (py_clamp n (idx_val n i))).
    { unfold py_clamp, idx_val. destruct i as [|z].
      - destruct (n <? 0)%Z eqn:E; lia.
      - destruct (z >? n)%Z eqn:E1; destruct (z <? 0)%Z eqn:E2; destruct (z >=? 0)%Z eqn:E3; lia. }
    rewrite Hk.
    pose proof (py_clamp_range n (idx_val n i) ltac:(lia)) as R.
    rewrite put_in_window by lia.
    apply bump_parts. intros st _. apply slice_len_change. lia.
  Qed.

  (* a length change made elsewhere: the view heals to a window inside the new field (never out of range) *)
  Theorem external_heals s f :
    let s' := external s f in hstart s' <= hstop s' <= length f /\ hstart s' <= vstart s.
  Proof.
    cbv zeta. pose proof (base_bounds (external s f)) as B. cbn [external fld] in B. split; [exact B|].
    unfold hstart, base_indices. cbn [external fld vstart vstop].
    destruct (vstop s) as [st|]; [destruct (Nat.ltb (length f) st)|];
      match goal with |- context [Nat.ltb ?a ?b] => destruct (Nat.ltb_spec a b) end; cbn; lia.
  Qed.

  (* reads *)
  Theorem getitem_one_window s i x :
    getitem_one s i = Some x ->
    exists k, py_index (Z.of_nat (length (vitems s))) i = Some (Z.of_nat k) /\ nth_error (vitems s) k = Some x.
  Proof.
    unfold getitem_one. rewrite base_unfold. rewrite <- vitems_length.
    destruct (fixup_one_index _ _ _) as [k|] eqn:E; [|discriminate].
    pose proof (fix_one_range (Z.of_nat (length (vitems s))) (Ix i) 0%Z k ltac:(lia) ltac:(lia) E) as R.
    rewrite fix_one_py in E by lia. intros H.
    exists (Z.to_nat k). split; [rewrite E; f_equal; lia|].
    rewrite (parts s) in H. rewrite nth_error_app2 in H by (rewrite vpre_length; lia).
    rewrite vpre_length in H. replace (hstart s + Z.to_nat k - hstart s) with (Z.to_nat k) in H by lia.
    now rewrite nth_error_app1 in H by lia.
  Qed.
End P.
