(* Round trip of repr_str_multiline through CPython's triple-quoted literal reader, for every string; get_docstr's
   dedent inverts the indentation applied by the put. *)
From Coq Require Import List Bool Arith Lia.
From PF Require Import models.StrRepr.
Import ListNotations.

#[local] Arguments sym_eqb !a !b.

Lemma sym_eqb_spec a b : reflect (a = b) (sym_eqb a b).
Proof.
  destruct a, b; simpl; try (constructor; congruence);
    destruct (Nat.eqb_spec k k0); constructor; congruence.
Qed.

Lemma sym_eqb_refl a : sym_eqb a a = true.
Proof. destruct (sym_eqb_spec a a); congruence. Qed.

(* ---- units: a text in which every backslash starts a two-character escape ---- *)
Inductive unit := U1 (c : sym) | U2 (c : sym).

Definition ubytes (u : unit) : pystr := match u with U1 c => [c] | U2 c => [BS; c] end.
Definition flatten (us : list unit) : pystr := flat_map ubytes us.
Definition uwf (u : unit) : Prop := match u with U1 c => c <> BS | U2 _ => True end.
Definition udec (u : unit) : pystr := match u with U1 c => [c] | U2 c => unesc c end.

Definition eu (c : sym) : unit :=
  match c with BS => U2 BS | NUL => U2 Ez | NP k => U2 (E k) | c => U1 c end.

Lemma eu_bytes c : ubytes (eu c) = escape_char c.
Proof. destruct c; reflexivity. Qed.

Lemma eu_wf c : uwf (eu c).
Proof. destruct c; simpl; auto; discriminate. Qed.

Lemma eu_dec c : udec (eu c) = [c].
Proof. destruct c; reflexivity. Qed.

Lemma escaped_units s : escaped s = flatten (map eu s).
Proof.
  unfold escaped, flatten. induction s as [|c s IH]; simpl; [reflexivity|].
  rewrite eu_bytes, IH. reflexivity.
Qed.

Lemma flatten_app a b : flatten (a ++ b) = flatten a ++ flatten b.
Proof. unfold flatten. apply flat_map_app. Qed.

Lemma udec_map_eu s : flat_map udec (map eu s) = s.
Proof. induction s as [|c s IH]; simpl; [reflexivity|]. rewrite eu_dec, IH. reflexivity. Qed.

(* no closing triple is seen at a unit boundary inside us when followed by the text T *)
Fixpoint ntu (q : sym) (us : list unit) (T : pystr) : bool :=
  match us with
  | [] => true
  | U1 c :: r => negb (sym_eqb c q && starts2 q (flatten r ++ T)) && ntu q r T
  | U2 _ :: r => ntu q r T
  end.

Lemma scan_units q us T :
  Forall uwf us -> ntu q us T = true ->
  scan q (flatten us ++ T) = option_map (app (flat_map udec us)) (scan q T).
Proof.
  induction us as [|u us IH]; intros Hwf Hn.
  - simpl. destruct (scan q T); reflexivity.
  - inversion Hwf as [|? ? Hu Hus]; subst. destruct u as [c|c].
    + simpl in Hn. apply andb_true_iff in Hn. destruct Hn as [Hc Hn].
      apply negb_true_iff in Hc.
      change (flatten (U1 c :: us) ++ T) with (c :: (flatten us ++ T)).
      simpl in Hu.
      assert (Hs : scan q (c :: flatten us ++ T) =
                   if sym_eqb c q && starts2 q (flatten us ++ T)
                   then (match flatten us ++ T with [_; _] => Some [] | _ => None end)
                   else option_map (cons c) (scan q (flatten us ++ T))).
      { destruct c; try reflexivity. congruence. }
      rewrite Hs, Hc, IH by assumption. simpl.
      destruct (scan q T); reflexivity.
    + change (flatten (U2 c :: us) ++ T) with (BS :: c :: (flatten us ++ T)).
      simpl in Hn. cbn [scan]. rewrite IH by assumption.
      simpl. destruct (scan q T); simpl; [rewrite app_assoc|]; reflexivity.
Qed.

Lemma ntu_app q a b T : ntu q (a ++ b) T = ntu q a (flatten b ++ T) && ntu q b T.
Proof.
  induction a as [|u a IH]; simpl; [reflexivity|].
  destruct u as [c|c]; rewrite IH; [|reflexivity].
  rewrite flatten_app, <- app_assoc, andb_assoc. reflexivity.
Qed.

(* raw substring test versus the aligned test *)
Lemma has_triple_app_l q a b : has_triple q (a ++ b) = false -> has_triple q a = false.
Proof.
  induction a as [|c a IH]; simpl; [reflexivity|]. intros H.
  apply orb_false_iff in H. destruct H as [H1 H2].
  rewrite (IH H2), orb_false_r.
  destruct (sym_eqb c q); [|reflexivity]. simpl in *.
  destruct a as [|x [|y a]]; simpl in *; auto.
Qed.

Lemma ntu_of_has_triple q us T :
  has_triple q (flatten us ++ T) = false -> ntu q us T = true.
Proof.
  induction us as [|u us IH]; intros H; [reflexivity|].
  destruct u as [c|c].
  - change (flatten (U1 c :: us) ++ T) with (c :: (flatten us ++ T)) in H.
    simpl in H. apply orb_false_iff in H. destruct H as [H1 H2].
    simpl. rewrite H1, (IH H2). reflexivity.
  - change (flatten (U2 c :: us) ++ T) with (BS :: c :: (flatten us ++ T)) in H.
    simpl in H. apply orb_false_iff in H. destruct H as [_ H].
    apply orb_false_iff in H. destruct H as [_ H]. simpl. auto.
Qed.

Lemma starts2_app3 q X a b T : starts2 q (X ++ a :: b :: T) = starts2 q (X ++ [a; b]).
Proof. destruct X as [|x [|y X]]; reflexivity. Qed.

Lemma ntu_tail2 q us a b T : ntu q us (a :: b :: T) = ntu q us [a; b].
Proof.
  induction us as [|u us IH]; simpl; [reflexivity|].
  destruct u; rewrite IH; [|reflexivity]. rewrite starts2_app3. reflexivity.
Qed.

(* a text without the triple, not ending in the quote, stays without it when two quotes follow *)
Lemma has_triple_qq q e :
  e <> [] -> has_triple q e = false -> last e DQ <> q -> has_triple q (e ++ [q; q]) = false.
Proof.
  induction e as [|c e IH]; intros Hne H Hl; [congruence|].
  destruct e as [|x e].
  - simpl in Hl. simpl. destruct (sym_eqb_spec c q); [congruence|]. simpl.
    rewrite ?andb_false_r. reflexivity.
  - change (has_triple q ((c :: x :: e) ++ [q; q]))
      with ((sym_eqb c q && starts2 q ((x :: e) ++ [q; q])) || has_triple q ((x :: e) ++ [q; q])).
    change (has_triple q (c :: x :: e)) with ((sym_eqb c q && starts2 q (x :: e)) || has_triple q (x :: e)) in H.
    apply orb_false_iff in H. destruct H as [H1 H2].
    rewrite IH; [|discriminate|assumption|exact Hl].
    rewrite orb_false_r.
    destruct (sym_eqb c q); [|reflexivity]. simpl in H1 |- *.
    destruct e as [|y e]; [|exact H1].
    simpl in *. destruct (sym_eqb_spec x q); [congruence|reflexivity].
Qed.

(* ... and when a backslash follows *)
Lemma has_triple_bs q e x : q <> BS -> has_triple q e = false -> has_triple q (e ++ [BS; x]) = false.
Proof.
  intros Hq. induction e as [|c e IH]; intros H.
  - simpl. destruct (sym_eqb_spec BS q); [congruence|]. simpl.
    destruct (sym_eqb x q); reflexivity.
  - change (has_triple q (c :: e)) with ((sym_eqb c q && starts2 q e) || has_triple q e) in H.
    apply orb_false_iff in H. destruct H as [H1 H2].
    change (has_triple q ((c :: e) ++ [BS; x])) with ((sym_eqb c q && starts2 q (e ++ [BS; x])) || has_triple q (e ++ [BS; x])).
    rewrite (IH H2), orb_false_r.
    destruct (sym_eqb c q); [|reflexivity]. simpl in H1 |- *.
    destruct e as [|y [|z e]]; simpl in *.
    + destruct (sym_eqb_spec BS q); [congruence|reflexivity].
    + destruct (sym_eqb_spec BS q); [congruence|]. rewrite andb_false_r. reflexivity.
    + exact H1.
Qed.

Lemma scan_close q : is_quote q = true -> scan q (triple q) = Some [].
Proof. destruct q; simpl; congruence. Qed.

(* last character of the escaped text *)
Lemma escaped_snoc s c : escaped (s ++ [c]) = escaped s ++ escape_char c.
Proof. unfold escaped. rewrite flat_map_app. simpl. rewrite app_nil_r. reflexivity. Qed.

Lemma last_app_ne {A} (a b : list A) d : b <> [] -> last (a ++ b) d = last b d.
Proof.
  intros Hb. induction a as [|x a IH]; [reflexivity|].
  simpl. destruct (a ++ b) eqn:Hab; [|exact IH].
  destruct a; simpl in Hab; [congruence|discriminate].
Qed.

Lemma last_escape_char c q : is_quote q = true -> last (escape_char c) DQ = q -> c = q /\ escape_char c = [q].
Proof. destruct c, q; simpl; intros Hq H; try discriminate; auto. Qed.

Lemma removelast_snoc {A} (a : list A) x : removelast (a ++ [x]) = a.
Proof. rewrite removelast_app by discriminate. simpl. apply app_nil_r. Qed.

(* ---- the simple branch: chosen quote q, no triple of q in the escaped text ---- *)
Lemma decode_simple q s :
  s <> [] -> is_quote q = true -> has_triple q (escaped s) = false ->
  let e := escaped s in
  let l := last e DQ in
  decode (triple q ++ (if sym_eqb q l then removelast e ++ [BS; l] else e) ++ triple q) = Some s.
Proof.
  intros Hne Hq Hno e l.
  assert (Hqbs : q <> BS) by (destruct q; simpl in Hq; congruence).
  assert (Hd : forall X, decode (triple q ++ X) = scan q X).
  { intros X. unfold decode, triple. simpl. rewrite Hq, !sym_eqb_refl. reflexivity. }
  rewrite Hd.
  destruct (exists_last Hne) as [s0 [c Hs]].
  assert (He : e = escaped s0 ++ escape_char c) by (unfold e; rewrite Hs; apply escaped_snoc).
  assert (Hec : escape_char c <> []) by (destruct c; discriminate).
  assert (Hl : l = last (escape_char c) DQ) by (unfold l; rewrite He; apply last_app_ne; exact Hec).
  destruct (sym_eqb_spec q l) as [Hql|Hql].
  - (* the last character is the quote: it is escaped *)
    destruct (last_escape_char c q Hq (eq_trans (eq_sym Hl) (eq_sym Hql))) as [Hcq Hcc].
    rewrite He, Hcc, removelast_snoc, <- Hql.
    replace ((escaped s0 ++ [BS; q]) ++ triple q) with (flatten (map eu s0 ++ [U2 q]) ++ triple q)
      by (rewrite flatten_app, <- escaped_units; reflexivity).
    rewrite scan_units.
    + rewrite scan_close by exact Hq. simpl. rewrite flat_map_app, udec_map_eu. simpl.
      rewrite app_nil_r, Hs, Hcq. destruct q; simpl in Hq; try discriminate; reflexivity.
    + apply Forall_app. split; [|repeat constructor].
      apply Forall_forall. intros u Hu. apply in_map_iff in Hu. destruct Hu as [x [<- _]]. apply eu_wf.
    + rewrite ntu_app. apply andb_true_iff. split; [|reflexivity].
      change (flatten [U2 q] ++ triple q) with (BS :: q :: triple q).
      rewrite ntu_tail2. apply ntu_of_has_triple. rewrite <- escaped_units.
      apply has_triple_bs; [exact Hqbs|].
      apply has_triple_app_l with (b := escape_char c). rewrite <- He. exact Hno.
  - (* the text is used as it is *)
    replace (e ++ triple q) with (flatten (map eu s) ++ triple q) by (unfold e; rewrite escaped_units; reflexivity).
    rewrite scan_units.
    + rewrite scan_close by exact Hq. simpl. rewrite udec_map_eu, app_nil_r. reflexivity.
    + apply Forall_forall. intros u Hu. apply in_map_iff in Hu. destruct Hu as [x [<- _]]. apply eu_wf.
    + unfold triple. rewrite ntu_tail2. apply ntu_of_has_triple. rewrite <- escaped_units.
      apply has_triple_qq; [|exact Hno|intros H; apply Hql; symmetry; exact H].
      change (escaped s) with e. rewrite He. destruct (escaped s0); [exact Hec|discriminate].
Qed.

(* ---- the fallback branch: repr(), then the three replaces ---- *)
Definition ru (q c : sym) : unit :=
  match c with
  | BS => U2 BS | NL => U2 Ln | TAB => U2 Lt | NUL => U2 Ez | NP k => U2 (E k)
  | c => if sym_eqb c q then U2 c else U1 c
  end.

Lemma ru_bytes q c : ubytes (ru q c) = repr_char q c.
Proof. destruct c; simpl; try reflexivity; destruct (sym_eqb _ q); reflexivity. Qed.

Lemma ru_wf q c : uwf (ru q c).
Proof. destruct c; simpl; auto; try discriminate; destruct (sym_eqb _ q); simpl; auto; discriminate. Qed.

Lemma repr_units q s : flat_map (repr_char q) s = flatten (map (ru q) s).
Proof. unfold flatten. induction s as [|c s IH]; simpl; [reflexivity|]. rewrite ru_bytes, IH. reflexivity. Qed.

(* replacing the two-character escape BS x by the single character y, unit by unit *)
Definition r2u (x y : sym) (u : unit) : unit := match u with U2 c => if sym_eqb c x then U1 y else u | _ => u end.

Lemma replace2_units x y us :
  Forall uwf us -> (forall c, In (U2 c) us -> c = x \/ c <> BS) ->
  replace2 BS x [y] (flatten us) = flatten (map (r2u x y) us).
Proof.
  induction us as [|u us IH]; intros Hwf Hu2; [reflexivity|].
  inversion Hwf as [|? ? Hu Hus]; subst.
  assert (IH' := IH Hus (fun c Hc => Hu2 c (or_intror Hc))).
  destruct u as [c|c].
  - change (flatten (U1 c :: us)) with (c :: flatten us).
    change (flatten (map (r2u x y) (U1 c :: us))) with (c :: flatten (map (r2u x y) us)).
    rewrite <- IH'. simpl in Hu.
    destruct (flatten us) as [|z r] eqn:Hf; [reflexivity|].
    cbn [replace2]. destruct (sym_eqb_spec c BS); [congruence|]. reflexivity.
  - change (flatten (U2 c :: us)) with (BS :: c :: flatten us).
    cbn [replace2]. rewrite sym_eqb_refl. cbn [andb].
    change (map (r2u x y) (U2 c :: us)) with (r2u x y (U2 c) :: map (r2u x y) us).
    simpl r2u. destruct (sym_eqb_spec c x) as [Hcx|Hcx].
    + rewrite IH'. reflexivity.
    + change (flatten (U2 c :: map (r2u x y) us)) with (BS :: c :: flatten (map (r2u x y) us)).
      rewrite <- IH'. f_equal.
      destruct (Hu2 c (or_introl eq_refl)) as [|Hcb]; [congruence|].
      destruct (flatten us) as [|z r] eqn:Hf; [reflexivity|].
      cbn [replace2]. destruct (sym_eqb_spec c BS); [congruence|]. reflexivity.
Qed.

Definition r1u (u : unit) : unit := match u with U1 NUL => U2 BS | _ => u end.

Lemma replace1_units us :
  (forall c, In (U2 c) us -> c <> NUL) ->
  replace1 NUL [BS; BS] (flatten us) = flatten (map r1u us).
Proof.
  unfold replace1. induction us as [|u us IH]; intros H; [reflexivity|].
  change (flatten (u :: us)) with (ubytes u ++ flatten us).
  rewrite flat_map_app, IH by (intros c Hc; apply H; right; exact Hc).
  change (flatten (map r1u (u :: us))) with (ubytes (r1u u) ++ flatten (map r1u us)).
  f_equal. destruct u as [c|c].
  - destruct c; reflexivity.
  - simpl. destruct (sym_eqb_spec c NUL) as [->|]; [exfalso; apply (H NUL); [left; reflexivity|reflexivity]|reflexivity].
Qed.

(* the composite per-character result: like repr but a newline stays a newline *)
Definition fu (q c : sym) : unit := match c with NL => U1 NL | c => ru q c end.

Lemma chain_char q c : is_quote q = true -> r1u (r2u Ln NL (r2u BS NUL (ru q c))) = fu q c.
Proof. intros Hq. destruct q; try discriminate; destruct c; reflexivity. Qed.

Lemma fu_dec q c : is_quote q = true -> udec (fu q c) = [c].
Proof. destruct c; simpl; try reflexivity; destruct q; simpl; try discriminate; reflexivity. Qed.

Lemma fallback_chain q s :
  is_quote q = true ->
  replace1 NUL [BS; BS] (replace2 BS Ln [NL] (replace2 BS BS [NUL] (q :: flat_map (repr_char q) s ++ [q]))) =
  q :: flatten (map (fu q) s) ++ [q].
Proof.
  intros Hq.
  set (us := U1 q :: map (ru q) s ++ [U1 q]).
  assert (Hus : q :: flat_map (repr_char q) s ++ [q] = flatten us).
  { unfold us. change (flatten (U1 q :: map (ru q) s ++ [U1 q])) with (q :: flatten (map (ru q) s ++ [U1 q])).
    rewrite flatten_app, repr_units. reflexivity. }
  assert (Hwf : Forall uwf us).
  { unfold us. constructor; [destruct q; simpl in *; congruence|].
    apply Forall_app. split.
    - apply Forall_forall. intros u Hu. apply in_map_iff in Hu. destruct Hu as [x [<- _]]. apply ru_wf.
    - constructor; [destruct q; simpl in *; congruence|constructor]. }
  rewrite Hus, replace2_units; [|exact Hwf|intros c _; destruct (sym_eqb_spec c BS); auto].
  rewrite replace2_units.
  - rewrite replace1_units.
    + rewrite !map_map. unfold us. rewrite map_cons, map_app, map_map. cbn [map]. cbn beta.
      assert (Hq1 : r1u (r2u Ln NL (r2u BS NUL (U1 q))) = U1 q) by (destruct q; simpl in *; congruence).
      rewrite Hq1.
      change (flatten (U1 q :: ?x)) with (q :: flatten x).
      rewrite (map_ext _ _ (fun c => chain_char q c Hq)).
      change (flatten (U1 q :: map (fu q) s ++ [U1 q])) with (q :: flatten (map (fu q) s ++ [U1 q])).
      rewrite flatten_app. reflexivity.
    + intros c Hc. apply in_map_iff in Hc. destruct Hc as [u [Hu Hin]].
      apply in_map_iff in Hin. destruct Hin as [v [Hv Hin]]. subst u.
      intros ->. unfold us in Hin. destruct Hin as [<-|Hin]; [destruct q; simpl in *; discriminate|].
      apply in_app_or in Hin. destruct Hin as [Hin|[<-|[]]]; [|destruct q; simpl in *; discriminate].
      apply in_map_iff in Hin. destruct Hin as [x [<- _]].
      destruct x; simpl in Hu; try discriminate; destruct q; simpl in *; try discriminate;
        destruct (Nat.eqb _ _); simpl in Hu; discriminate.
  - apply Forall_forall. intros u Hu. apply in_map_iff in Hu. destruct Hu as [v [<- Hv]].
    rewrite Forall_forall in Hwf. specialize (Hwf v Hv).
    destruct v as [c|c]; simpl; auto. destruct (sym_eqb c BS); simpl; auto; discriminate.
  - intros c Hc. apply in_map_iff in Hc. destruct Hc as [v [Hv _]].
    destruct v as [d|d]; simpl in Hv; [discriminate|].
    destruct (sym_eqb_spec d BS); [discriminate|]. injection Hv as <-. right. assumption.
Qed.

Lemma has_triple_has q e : has_triple q e = true -> has q e = true.
Proof.
  induction e as [|c e IH]; simpl; [discriminate|]. intros H.
  apply orb_true_iff in H. destruct H as [H|H].
  - apply andb_true_iff in H. destruct H as [H _].
    destruct (sym_eqb_spec c q) as [->|]; [|discriminate]. rewrite sym_eqb_refl. reflexivity.
  - rewrite (IH H). apply orb_true_r.
Qed.

Lemma has_escaped q s : is_quote q = true -> has q (escaped s) = true -> has q s = true.
Proof.
  intros Hq. unfold escaped. induction s as [|c s IH]; simpl; [discriminate|].
  unfold has in *. rewrite existsb_app. intros H. apply orb_true_iff in H. destruct H as [H|H].
  - destruct c, q; simpl in *; try discriminate; reflexivity.
  - rewrite (IH H). apply orb_true_r.
Qed.

Lemma ntu_no_raw q us T : (forall u, In u us -> u <> U1 q) -> ntu q us T = true.
Proof.
  induction us as [|u us IH]; intros H; [reflexivity|].
  simpl. destruct u as [c|c]; [|apply IH; intros; apply H; right; assumption].
  rewrite IH by (intros; apply H; right; assumption).
  destruct (sym_eqb_spec c q) as [->|]; [exfalso; apply (H (U1 q)); [left|]; reflexivity|reflexivity].
Qed.

Theorem repr_str_multiline_round_trip s : decode (repr_str_multiline s) = Some s.
Proof.
  destruct s as [|c0 s0]; [reflexivity|].
  change (repr_str_multiline (c0 :: s0)) with (repr_nonempty (c0 :: s0)).
  set (s := c0 :: s0). assert (Hne : s <> []) by discriminate. clearbody s.
  unfold repr_nonempty.
  destruct (has_triple DQ (escaped s)) eqn:Hd3; destruct (has_triple SQ (escaped s)) eqn:Hs3; cbn [andb negb].
  - (* both kinds of triple quotes occur: repr() route *)
    assert (HD : has DQ s = true) by (apply has_escaped; [reflexivity|apply has_triple_has; exact Hd3]).
    unfold py_repr. rewrite HD, andb_false_r.
    rewrite (fallback_chain SQ s eq_refl).
    change ([SQ; SQ] ++ (SQ :: flatten (map (fu SQ) s) ++ [SQ]) ++ [SQ; SQ])
      with (triple SQ ++ ((flatten (map (fu SQ) s) ++ [SQ]) ++ [SQ; SQ])).
    rewrite <- app_assoc. change ([SQ] ++ [SQ; SQ]) with (triple SQ).
    unfold decode, triple at 1. cbn [app is_quote sym_eqb andb].
    rewrite scan_units.
    + rewrite scan_close by reflexivity. simpl. rewrite app_nil_r.
      clear. induction s as [|c s IH]; [reflexivity|].
      injection IH as IH. cbn [map flat_map]. rewrite (fu_dec SQ c eq_refl), IH. reflexivity.
    + apply Forall_forall. intros u Hu. apply in_map_iff in Hu. destruct Hu as [x [<- _]].
      destruct x; simpl; auto; discriminate.
    + apply ntu_no_raw. intros u Hu. apply in_map_iff in Hu. destruct Hu as [x [<- _]].
      destruct x; simpl; discriminate.
  - (* only triple double quotes occur: single quotes *)
    cbn [hd last].
    replace (if sym_eqb (last (escaped s) DQ) SQ then SQ else SQ) with SQ by (destruct (sym_eqb _ _); reflexivity).
    exact (decode_simple SQ s Hne eq_refl Hs3).
  - (* only triple single quotes occur: double quotes *)
    cbn [hd last].
    replace (if sym_eqb (last (escaped s) DQ) DQ then DQ else DQ) with DQ by (destruct (sym_eqb _ _); reflexivity).
    exact (decode_simple DQ s Hne eq_refl Hd3).
  - (* neither occurs: double quotes unless the text ends in one *)
    cbn [hd last].
    destruct (sym_eqb (last (escaped s) DQ) DQ).
    + exact (decode_simple SQ s Hne eq_refl Hs3).
    + exact (decode_simple DQ s Hne eq_refl Hd3).
Qed.

(* ---- get_docstr dedent inverts the put's indentation ---- *)
Lemma starts_with_app p l : starts_with p (p ++ l) = true.
Proof. induction p as [|a p IH]; simpl; [reflexivity|]. rewrite sym_eqb_refl. exact IH. Qed.

Lemma skipn_app_len {A} (p l : list A) : skipn (length p) (p ++ l) = l.
Proof. induction p; simpl; auto. Qed.

Lemma dedent_indent_line ind l : dedent_line ind (indent_line ind l) = l.
Proof.
  unfold dedent_line, indent_line. destruct l as [|c l].
  - destruct ind as [|a ind]; reflexivity.
  - rewrite starts_with_app. apply skipn_app_len.
Qed.

Definition no_leading_ws (l : pystr) : Prop := match l with c :: _ => is_ws c = false | [] => True end.

Lemma dedent_first_line ind l : Forall (fun c => is_ws c = true) ind -> no_leading_ws l -> dedent_line ind l = l.
Proof.
  intros Hind Hl. unfold dedent_line.
  destruct ind as [|a ind]; [destruct l; reflexivity|].
  inversion Hind as [|? ? Ha _]; subst.
  destruct l as [|c l]; [reflexivity|]. simpl in Hl.
  assert (Hs : starts_with (a :: ind) (c :: l) = false).
  { simpl. destruct (sym_eqb_spec a c) as [->|]; [congruence|reflexivity]. }
  rewrite Hs. simpl ws_prefix_len. rewrite Hl. reflexivity.
Qed.

Theorem docstr_lines_round_trip ind ls :
  Forall (fun c => is_ws c = true) ind ->
  match ls with f :: _ => no_leading_ws f | [] => True end ->
  get_docstr_lines ind (put_docstr_lines ind ls) = ls.
Proof.
  intros Hind Hf. destruct ls as [|f r]; [reflexivity|].
  unfold get_docstr_lines, put_docstr_lines. simpl. rewrite dedent_first_line by assumption.
  f_equal. rewrite map_map. rewrite (map_ext _ _ (dedent_indent_line ind)). apply map_id.
Qed.
