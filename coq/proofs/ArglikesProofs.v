(* C03: the keyword-index -> merged-index mapping is right exactly where the guard lets the edit through. *)
From Coq Require Import List Bool Arith Lia.
From PF Require Import models.Arglikes.
Import ListNotations.

Lemma count_a_cons t l : count_a (t :: l) = (if is_a t then 1 else 0) + count_a l.
Proof. unfold count_a. cbn [filter]. destruct (is_a t); cbn; lia. Qed.

Lemma count_k_cons t l : count_k (t :: l) = (if is_k t then 1 else 0) + count_k l.
Proof. unfold count_k. cbn [filter]. destruct (is_k t); cbn; lia. Qed.

(* the position of the i-th keyword = i + the positional arguments in front of it *)
Lemma kw_pos_split : forall l i p, kw_pos l i = Some p ->
  p <= length l /\ p = i + count_a (firstn p l) /\ count_k (firstn p l) = i.
Proof.
  induction l as [|t l IH]; intros i p H; cbn [kw_pos] in H.
  - destruct i; inversion H; subst. cbn. auto.
  - destruct t.
    + destruct (kw_pos l i) as [q|] eqn:E; inversion H; subst. destruct (IH _ _ E) as (H1 & H2 & H3).
      cbn [firstn length]. rewrite count_a_cons, count_k_cons. cbn [is_a is_k]. lia.
    + destruct i as [|j].
      * inversion H; subst. cbn. repeat split; lia.
      * destruct (kw_pos l j) as [q|] eqn:E; inversion H; subst. destruct (IH _ _ E) as (H1 & H2 & H3).
        cbn [firstn length]. rewrite count_a_cons, count_k_cons. cbn [is_a is_k]. lia.
Qed.

Lemma count_a_app l1 l2 : count_a (l1 ++ l2) = count_a l1 + count_a l2.
Proof. unfold count_a. rewrite filter_app, app_length. reflexivity. Qed.

Lemma arg_after_false l : existsb is_a l = false <-> count_a l = 0.
Proof.
  induction l as [|t l IH]; cbn [existsb]; [unfold count_a; cbn; tauto|].
  rewrite count_a_cons. destruct t; cbn [is_a orb].
  - split; [discriminate|lia].
  - rewrite IH. lia.
Qed.

Theorem mapping_right_iff_no_argument_behind l i p :
  kw_pos l i = Some p -> (mapped l i = p <-> arg_after l p = false).
Proof.
  intros H. destruct (kw_pos_split _ _ _ H) as (H1 & H2 & H3).
  unfold mapped, arg_after. rewrite arg_after_false.
  rewrite <- (firstn_skipn p l) at 1. rewrite count_a_app. lia.
Qed.

(* the end position (appending keywords) is always mapped right *)
Theorem append_always_right l : kw_pos l (count_k l) = Some (length l) /\ mapped l (count_k l) = length l.
Proof.
  split.
  - induction l as [|t l IH]; [reflexivity|]. rewrite count_k_cons. destruct t; cbn [is_k kw_pos Nat.add]; rewrite IH; reflexivity.
  - unfold mapped, count_a, count_k. induction l as [|t l IH]; [reflexivity|]. destruct t; cbn; lia.
Qed.

Lemma kw_pos_defined : forall l i, i <= count_k l -> exists p, kw_pos l i = Some p.
Proof.
  induction l as [|t l IH]; intros i Hi.
  - unfold count_k in Hi. cbn in Hi. assert (i = 0) by lia. subst. exists 0. reflexivity.
  - rewrite count_k_cons in Hi. destruct t; cbn [is_k] in Hi; cbn [kw_pos].
    + destruct (IH i ltac:(lia)) as (p & E). rewrite E. eexists; reflexivity.
    + destruct i as [|j]; [eexists; reflexivity|]. destruct (IH j ltac:(lia)) as (p & E). rewrite E. eexists; reflexivity.
Qed.

(* the guard lets an edit at keyword index i through  <->  the merged index the code computes is the position of that keyword *)
Theorem guard_passes_iff_mapping_right l i : i <= count_k l ->
  (guard_refuses l i = false <-> kw_pos l i = Some (mapped l i)).
Proof.
  intros Hi. destruct (kw_pos_defined l i Hi) as (p & E). unfold guard_refuses. rewrite E.
  pose proof (mapping_right_iff_no_argument_behind l i p E) as M.
  destruct (Nat.ltb_spec i (count_k l)) as [L|L]; cbn [andb].
  - split.
    + intros G. f_equal. symmetry. apply (proj2 M). exact G.
    + intros G. injection G as G'. apply (proj1 M). symmetry. exact G'.
  - assert (i = count_k l) by lia. subst i. destruct (append_always_right l) as [P Q]. rewrite P in E. inversion E; subst p.
    split; [intros _; f_equal; symmetry; exact Q|reflexivity].
Qed.

(* once keyword i lies behind every positional argument, so do all later keywords: the slice [i, j) of keywords is the
   contiguous merged slice [i + n, j + n) *)
Theorem later_keywords_contiguous l i j : i <= j <= count_k l -> guard_refuses l i = false ->
  kw_pos l j = Some (mapped l j).
Proof.
  intros Hij G. destruct (kw_pos_defined l i ltac:(lia)) as (p & Ei). destruct (kw_pos_defined l j ltac:(lia)) as (q & Ej).
  assert (Mi : kw_pos l i = Some (mapped l i)) by (apply guard_passes_iff_mapping_right; [lia|exact G]).
  rewrite Ej. f_equal.
  destruct (kw_pos_split _ _ _ Ei) as (A1 & A2 & A3). destruct (kw_pos_split _ _ _ Ej) as (B1 & B2 & B3).
  rewrite Ei in Mi. inversion Mi as [Mp]. unfold mapped in *.
  (* count_a (firstn p l) = count_a l, and firstn p l is a prefix of firstn q l when p <= q *)
  assert (Hpq : p <= q).
  { destruct (Nat.le_gt_cases p q) as [|Hgt]; [assumption|]. exfalso.
    assert (count_k (firstn q l) <= count_k (firstn p l)).
    { rewrite <- (firstn_skipn q (firstn p l)). rewrite firstn_firstn, Nat.min_l by lia. unfold count_k. rewrite filter_app, app_length. lia. }
    assert (count_a (firstn q l) <= count_a (firstn p l)).
    { rewrite <- (firstn_skipn q (firstn p l)). rewrite firstn_firstn, Nat.min_l by lia. rewrite count_a_app. lia. }
    assert (Hij2 : j = i) by lia. rewrite Hij2 in Ej. rewrite Ei in Ej. inversion Ej. lia. }
  assert (count_a (firstn p l) <= count_a (firstn q l)).
  { rewrite <- (firstn_skipn p (firstn q l)). rewrite firstn_firstn, Nat.min_l by lia. rewrite count_a_app. lia. }
  assert (count_a (firstn q l) <= count_a l).
  { rewrite <- (firstn_skipn q l) at 2. rewrite count_a_app. lia. }
  lia.
Qed.

Example arglikes_nonvacuous :
  let l := [A; K; A; K] in                       (* f(a, k=1, *b, j=3) *)
  kw_pos l 0 = Some 1 /\ mapped l 0 = 2 /\ guard_refuses l 0 = true /\
  kw_pos l 1 = Some 3 /\ mapped l 1 = 3 /\ guard_refuses l 1 = false /\ guard_refuses l 2 = false.
Proof. repeat split; reflexivity. Qed.

(* ---- the args field ---- *)
Lemma lead_a_le l : lead_a l <= count_a l.
Proof. induction l as [|t l IH]; [unfold count_a; cbn; lia|]. rewrite count_a_cons. destruct t; cbn [lead_a is_a]; lia. Qed.

(* in front of the first keyword the argument index IS the merged index; behind it the merged index is larger than lead_a *)
Lemma arg_pos_spec : forall l i, i < count_a l ->
  exists p, arg_pos l i = Some p /\ (i < lead_a l -> p = i) /\ (lead_a l <= i -> lead_a l < p).
Proof.
  induction l as [|t l IH]; intros i Hi.
  - unfold count_a in Hi. cbn in Hi. lia.
  - rewrite count_a_cons in Hi. destruct t; cbn [is_a] in Hi; cbn [arg_pos lead_a].
    + destruct i as [|j].
      * exists 0. repeat split; lia.
      * destruct (IH j ltac:(lia)) as (p & E & P1 & P2). rewrite E. exists (S p). cbn [option_map]. split; [reflexivity|]. split; intros H.
        -- specialize (P1 ltac:(lia)). lia.
        -- specialize (P2 ltac:(lia)). lia.
    + assert (Hc : i < count_a l) by lia. clear Hi.
      (* behind a keyword every argument position is at least 1 > 0 = lead_a *)
      assert (G : forall l i, i < count_a l -> exists p, arg_pos l i = Some p).
      { clear. induction l as [|t l IH]; intros i Hi; [unfold count_a in Hi; cbn in Hi; lia|].
        rewrite count_a_cons in Hi. destruct t; cbn [is_a] in Hi; cbn [arg_pos].
        - destruct i as [|j]; [eexists; reflexivity|]. destruct (IH j ltac:(lia)) as (p & E). rewrite E. eexists; reflexivity.
        - destruct (IH i ltac:(lia)) as (p & E). rewrite E. eexists; reflexivity. }
      destruct (G l i Hc) as (p & E). rewrite E. exists (S p). cbn [option_map]. repeat split; intros; lia.
Qed.

Lemma behind_iff l i : i < count_a l -> (behind_first_kw l i = true <-> lead_a l <= i).
Proof.
  intros Hi. unfold behind_first_kw. destruct (arg_pos_spec l i Hi) as (p & E & P1 & P2). rewrite E.
  rewrite Nat.ltb_lt. split; intros H.
  - destruct (Nat.le_gt_cases (lead_a l) i) as [|G]; [assumption|]. specialize (P1 G). lia.
  - exact (P2 H).
Qed.

(* the guard lets an edit of args[start:stop] through  <->  everything it touches lies in front of the first keyword:
   all of args[:stop], and for a pure insertion in front of an existing argument that argument too *)
Theorem args_guard_passes_iff_in_front_of_keywords l start stop has_code :
  start <= stop <= count_a l -> 0 < count_k l ->
  (args_guard_refuses l start stop has_code = false <->
   stop <= lead_a l /\ (has_code = true -> start = stop -> stop < count_a l -> stop < lead_a l)).
Proof.
  intros Hs Hk. unfold args_guard_refuses. destruct (Nat.ltb_spec 0 (count_k l)) as [_|]; [|lia]. cbn [andb].
  rewrite orb_false_iff. split.
  - intros [G1 G2]. split.
    + destruct stop as [|s]; [lia|]. cbn [Nat.ltb Nat.leb andb] in G1. replace (S s - 1) with s in G1 by lia.
      destruct (Nat.le_gt_cases (lead_a l) s) as [L|L]; [|lia].
      apply (behind_iff l s ltac:(lia)) in L. congruence.
    + intros Hc He Hl. subst has_code. cbn [andb] in G2. apply Nat.eqb_eq in He. rewrite He in G2. apply Nat.ltb_lt in Hl. rewrite Hl in G2. cbn [andb] in G2.
      apply Nat.ltb_lt in Hl. destruct (Nat.le_gt_cases (lead_a l) stop) as [L|L]; [|lia].
      apply (behind_iff l stop Hl) in L. congruence.
  - intros [H1 H2]. split.
    + destruct stop as [|s]; [reflexivity|]. cbn [Nat.ltb Nat.leb andb]. replace (S s - 1) with s by lia.
      destruct (behind_first_kw l s) eqn:B; [|reflexivity]. apply (behind_iff l s ltac:(lia)) in B. lia.
    + destruct has_code; [|reflexivity]. cbn [andb]. destruct (Nat.eqb_spec start stop) as [E|]; [|reflexivity]. cbn [andb].
      destruct (Nat.ltb_spec stop (count_a l)) as [L|]; [|reflexivity]. cbn [andb].
      destruct (behind_first_kw l stop) eqn:B; [|reflexivity]. apply (behind_iff l stop L) in B. specialize (H2 eq_refl E L). lia.
Qed.

(* ... and then the argument indices of the slice are its merged indices: the edit of `args` is the same edit of the merged list *)
Theorem args_in_front_are_merged_prefix l i : i < lead_a l -> arg_pos l i = Some i /\ nth_error l i = Some A.
Proof.
  intros Hi. pose proof (lead_a_le l). destruct (arg_pos_spec l i ltac:(lia)) as (p & E & P1 & _). specialize (P1 Hi). subst p. split; [exact E|].
  revert i Hi E. clear. induction l as [|t l IH]; intros i Hi E; [cbn in Hi; lia|].
  destruct t; cbn [lead_a] in Hi; [|lia]. destruct i as [|j]; [reflexivity|]. cbn [nth_error]. cbn [arg_pos] in E.
  destruct (arg_pos l j) as [q|] eqn:Q; cbn in E; [|discriminate]. inversion E; subst q. apply IH; [lia|exact Q].
Qed.

Example args_guard_nonvacuous :
  let l := [A; K; A] in                          (* f(a, k=1, *b) *)
  lead_a l = 1 /\ args_guard_refuses l 0 0 true = false /\ args_guard_refuses l 0 1 true = false /\ args_guard_refuses l 1 1 true = true /\
  args_guard_refuses l 1 2 false = true /\ args_guard_refuses l 2 2 true = true /\ args_guard_refuses [A; A] 1 2 true = false.
Proof. repeat split; reflexivity. Qed.
