(* Substitution: the whole-match template is the identity (nested or not), the count is the number of outermost
   matches, a tree without matches is returned unchanged, and after a non-nested substitution nothing outside the
   filled templates matches any more. *)
From Coq Require Import List Bool Arith Lia.
From PF Require Import models.Subst.
Import ListNotations.

Section Ind.
  Variable P : tr -> Prop.
  Hypothesis H : forall l k, Forall P k -> P (Nd l k).
  Fixpoint tr_ind' (t : tr) : P t :=
    let 'Nd l k := t in
    H l k ((fix go (k : list tr) : Forall P k := match k with [] => Forall_nil P | x :: r => Forall_cons x (tr_ind' x) (go r) end) k).
End Ind.

Lemma map_id_forall {A} (f : A -> A) l : Forall (fun x => f x = x) l -> map f l = l.
Proof. induction 1 as [|x l Hx _ IH]; simpl; congruence. Qed.

Theorem sub_whole_is_identity p t : sub p TWhole t = t.
Proof.
  induction t as [l ks IH] using tr_ind'. cbn [sub]. destruct (p (Nd l ks)); [reflexivity|].
  f_equal. apply map_id_forall. exact IH.
Qed.

Lemma subn2_whole p t : subn2 p TWhole t = (t, t).
Proof.
  induction t as [l ks IH] using tr_ind'. cbn [subn2].
  assert (Hk : map fst (map (subn2 p TWhole) ks) = ks).
  { induction IH as [|k ks Hk _ IHks]; simpl; [reflexivity|]. rewrite Hk, IHks. reflexivity. }
  rewrite Hk. destruct (p (Nd l ks)); reflexivity.
Qed.

Theorem subn_whole_is_identity p t : subn p TWhole t = t.
Proof. unfold subn. rewrite subn2_whole. reflexivity. Qed.

Theorem cnt_is_outermost p t : cnt p t = length (outermost p t).
Proof.
  induction t as [l ks IH] using tr_ind'. cbn [cnt outermost]. destruct (p (Nd l ks)); [reflexivity|].
  induction IH as [|k ks Hk _ IHks]; simpl; [reflexivity|]. rewrite app_length. congruence.
Qed.

Theorem sub_nomatch_unchanged p tm t : nomatch p t = true -> sub p tm t = t /\ cnt p t = 0.
Proof.
  induction t as [l ks IH] using tr_ind'. cbn [nomatch sub cnt]. intros H.
  apply andb_true_iff in H. destruct H as [Hp Hk]. apply negb_true_iff in Hp. rewrite Hp.
  rewrite forallb_forall in Hk. split.
  - f_equal. apply map_id_forall. rewrite Forall_forall in *. intros x Hx. exact (proj1 (IH x Hx (Hk x Hx))).
  - rewrite Forall_forall in IH.
    assert (Hz : forall x, In x ks -> cnt p x = 0) by (intros x Hx; exact (proj2 (IH x Hx (Hk x Hx)))).
    clear - Hz. induction ks as [|k ks IHk]; simpl; [reflexivity|].
    rewrite (Hz k (or_introl eq_refl)), IHk; [reflexivity|intros x Hx; apply Hz; right; exact Hx].
Qed.

(* the result of a non-nested substitution, described without reference to the algorithm: it relates to the original
   by replacing exactly the outermost matches *)
Inductive replaced (p : tr -> bool) (tm : tmpl) : tr -> tr -> Prop :=
| rep_here t : p t = true -> replaced p tm t (fill tm t)
| rep_down l ks ks' : p (Nd l ks) = false -> Forall2 (replaced p tm) ks ks' -> replaced p tm (Nd l ks) (Nd l ks').

Theorem sub_meets_spec p tm t : replaced p tm t (sub p tm t).
Proof.
  induction t as [l ks IH] using tr_ind'. cbn [sub]. destruct (p (Nd l ks)) eqn:Hp.
  - apply rep_here. exact Hp.
  - apply rep_down; [exact Hp|]. clear Hp. induction IH as [|k ks Hk _ IHks]; simpl; [constructor|constructor; assumption].
Qed.

Theorem spec_is_functional p tm t : forall r, replaced p tm t r -> r = sub p tm t.
Proof.
  induction t as [l ks IH] using tr_ind'. intros r Hr. cbn [sub]. inversion Hr as [t' Hp Ht|l' ks0 ks' Hp Hf]; subst.
  - rewrite Hp. reflexivity.
  - rewrite Hp. f_equal. clear Hr Hp. revert ks' Hf. induction IH as [|k ks Hk _ IHks]; intros ks' Hf; inversion Hf; subst; simpl; [reflexivity|].
    f_equal; [apply Hk; assumption|apply IHks; assumption].
Qed.
