(* C14: the merged child list is the elements of both lists, each once, in position order - and a list in strict position
   order is determined by its elements, so this IS the syntax order. *)
From Coq Require Import List Bool Arith Lia Sorted Permutation.
From PF Require Import models.Interleave.
Import ListNotations.

Definition le (x y : elt) : Prop := leb x y = true.
Definition lt (x y : elt) : Prop := leb y x = false.

Lemma leb_total x y : leb x y = true \/ leb y x = true.
Proof.
  unfold leb, pos_leb. destruct x as [[a b] i], y as [[c d] j]. cbn [fst snd].
  destruct (Nat.ltb_spec a c), (Nat.ltb_spec c a), (Nat.eqb_spec a c), (Nat.eqb_spec c a), (Nat.leb_spec b d), (Nat.leb_spec d b); cbn; auto; lia.
Qed.

Lemma leb_trans x y z : leb x y = true -> leb y z = true -> leb x z = true.
Proof.
  unfold leb, pos_leb. destruct x as [[a b] i], y as [[c d] j], z as [[e f] k]. cbn [fst snd].
  destruct (Nat.ltb_spec a c), (Nat.eqb_spec a c), (Nat.leb_spec b d), (Nat.ltb_spec c e), (Nat.eqb_spec c e), (Nat.leb_spec d f),
           (Nat.ltb_spec a e), (Nat.eqb_spec a e), (Nat.leb_spec b f); cbn; intros; try discriminate; try reflexivity; lia.
Qed.

Lemma merge_nil_r l : merge l [] = l.
Proof. destruct l; reflexivity. Qed.

Lemma merge_nil_l l : merge [] l = l.
Proof. destruct l; reflexivity. Qed.

Lemma merge_cons a1 l1 a2 l2 :
  merge (a1 :: l1) (a2 :: l2) = if leb a1 a2 then a1 :: merge l1 (a2 :: l2) else a2 :: merge (a1 :: l1) l2.
Proof. cbn [merge]. destruct (leb a1 a2); reflexivity. Qed.

Theorem merge_perm : forall l1 l2, Permutation (merge l1 l2) (l1 ++ l2).
Proof.
  induction l1 as [|a1 l1 IH1]; intros l2; [rewrite merge_nil_l; reflexivity|].
  induction l2 as [|a2 l2 IH2]; [rewrite merge_nil_r, app_nil_r; reflexivity|].
  rewrite merge_cons. destruct (leb a1 a2).
  - cbn [app]. constructor. apply IH1.
  - etransitivity; [constructor; exact IH2|]. apply (Permutation_middle (a1 :: l1) l2 a2).
Qed.

Lemma HdRel_merge a : forall l1 l2, HdRel le a l1 -> HdRel le a l2 -> HdRel le a (merge l1 l2).
Proof.
  intros l1 l2 H1 H2. destruct l1 as [|a1 l1]; [rewrite merge_nil_l; exact H2|]. destruct l2 as [|a2 l2]; [rewrite merge_nil_r; exact H1|].
  rewrite merge_cons. destruct (leb a1 a2); constructor; [inversion H1|inversion H2]; assumption.
Qed.

Theorem merge_sorted : forall l1 l2, Sorted le l1 -> Sorted le l2 -> Sorted le (merge l1 l2).
Proof.
  induction l1 as [|a1 l1 IH1]; intros l2 S1 S2; [rewrite merge_nil_l; exact S2|].
  induction l2 as [|a2 l2 IH2]; [rewrite merge_nil_r; exact S1|].
  rewrite merge_cons. inversion S1 as [|x1 r1 S1' H1]; subst. inversion S2 as [|x2 r2 S2' H2]; subst.
  destruct (leb a1 a2) eqn:E.
  - constructor; [apply IH1; assumption|]. apply HdRel_merge; [assumption|constructor; exact E].
  - constructor; [apply IH2; assumption|]. apply HdRel_merge; [|assumption].
    constructor. destruct (leb_total a1 a2) as [T|T]; [congruence|exact T].
Qed.

(* positions of distinct tokens are distinct: under a STRICT order a list is determined by its elements *)
Lemma lt_le x y : lt x y -> le x y.
Proof. unfold lt, le. intros H. destruct (leb_total x y) as [T|T]; [exact T|congruence]. Qed.

Lemma lt_trans x y z : lt x y -> lt y z -> lt x z.
Proof.
  unfold lt. intros H1 H2. destruct (leb z x) eqn:E; [|reflexivity]. exfalso.
  assert (leb y x = true) by (apply leb_trans with z; [apply lt_le; exact H2|exact E]). congruence.
Qed.

Lemma lt_irrefl x : ~ lt x x.
Proof. unfold lt. destruct (leb_total x x); congruence. Qed.

Lemma sorted_lt_all x l : Sorted lt (x :: l) -> Forall (lt x) l.
Proof.
  intros S. apply Sorted_StronglySorted in S; [|intros a b c; apply lt_trans]. inversion S; assumption.
Qed.

Theorem strictly_sorted_unique : forall l l', Sorted lt l -> Sorted lt l' -> Permutation l l' -> l = l'.
Proof.
  induction l as [|x l IH]; intros l' S S' P.
  - apply Permutation_nil in P. now subst.
  - destruct l' as [|y l']; [apply Permutation_sym, Permutation_nil in P; discriminate|].
    pose proof (sorted_lt_all _ _ S) as Fx. pose proof (sorted_lt_all _ _ S') as Fy.
    assert (x = y).
    { assert (Ix : In x (y :: l')) by (apply Permutation_in with (x :: l); [exact P|now left]).
      assert (Iy : In y (x :: l)) by (apply Permutation_in with (y :: l'); [symmetry; exact P|now left]).
      destruct Ix as [->|Ix]; [reflexivity|]. destruct Iy as [->|Iy]; [reflexivity|].
      rewrite Forall_forall in Fx, Fy. exfalso. apply (lt_irrefl x). apply lt_trans with y; [apply Fx; exact Iy|apply Fy; exact Ix]. }
    subst y. f_equal. apply IH; [inversion S; assumption|inversion S'; assumption|apply Permutation_cons_inv with x; exact P].
Qed.

Example interleave_nonvacuous :
  (* f(a, k=1, *b, j=2) on one line: func id 0; args a@(0,2) id 1, *b@(0,10) id 3; keywords k@(0,5) id 2, j@(0,14) id 4 *)
  call_children 0 [((0, 2), 1); ((0, 10), 3)] [((0, 5), 2); ((0, 14), 4)] = [0; 1; 2; 3; 4] /\
  (* the keyword on a LATER line at a SMALLER column *)
  call_children 0 [((1, 4), 1); ((2, 4), 2)] [((3, 0), 3)] = [0; 1; 2; 3].
Proof. split; reflexivity. Qed.
