(* Generic soundness of the compatibility check: a stepping program that `compat` accepts against a child order computes,
   for EVERY node shape (all list lengths, all optional-field occupancies), the syntax-order successor (predecessor). *)
From Coq Require Import List String Bool Arith Lia.
From PF Require Import models.Traverse.
Import ListNotations.

Notation len := List.length.

Definition tag (f : string) (l : list nat) : list (string * nat) := map (fun i => (f, i)) l.

(* the children of one field in direction order *)
Definition seg (d : dir) (f : string) (n : nat) : list (string * nat) :=
  match d with Fwd => tag f (seq 0 n) | Bwd => tag f (rev (seq 0 n)) end.

Definition flat (d : dir) (o : occ) (items : list citem) : list (string * nat) :=
  flat_map (fun it => let 'CI f _ := it in seg d f (o f)) items.

Lemma flat_map_rev {A B} (g : A -> list B) l : rev (flat_map g l) = flat_map (fun x => rev (g x)) (rev l).
Proof.
  induction l as [|a l IH]; [reflexivity|]. cbn [flat_map rev]. rewrite rev_app_distr, IH.
  rewrite flat_map_app. cbn. now rewrite app_nil_r.
Qed.

Lemma children_dir_flat d items o : children_dir d items o = flat d o (items_dir d items).
Proof.
  destruct d; [reflexivity|]. unfold children_dir, children_of, flat, items_dir. rewrite flat_map_rev.
  apply flat_map_ext. intros [f k]. unfold seg, tag. now rewrite map_rev.
Qed.

Lemma seg_nil d f : seg d f 0 = [].
Proof. now destruct d. Qed.

Lemma seg_head d f n : 0 < n -> hd_error (seg d f n) = Some (f, match d with Fwd => 0 | Bwd => n - 1 end).
Proof.
  intros H. destruct n; [lia|]. destruct d.
  - reflexivity.
  - unfold seg, tag. rewrite seq_S, rev_app_distr. cbn. repeat f_equal. lia.
Qed.

Lemma seg_fields d f n x : In x (seg d f n) -> fst x = f.
Proof. intros H. destruct d; apply in_map_iff in H; destruct H as (i & <- & _); reflexivity. Qed.

(* first child among the remaining items *)
Lemma compat_rest_sound d p rest o idx :
  compat_rest p rest = true -> wf_occ rest o -> exec d p o idx = hd_error (flat d o rest).
Proof.
  revert p. induction rest as [|[g k] rest IH]; intros p Hc Hw.
  - destruct p as [|[] [|]]; try discriminate. reflexivity.
  - assert (Hw' : wf_occ rest o) by (intros f' k' Hin; apply Hw; now right).
    pose proof (Hw g k (or_introl eq_refl)) as Hg.
    cbn [flat flat_map]. fold (flat d o rest).
    destruct k; cbn [compat_rest] in Hc.
    + destruct p as [|i p]; [discriminate|]. destruct i; try discriminate.
      * apply andb_prop in Hc. destruct Hc as [E Hc]. apply String.eqb_eq in E. subst f.
        cbn [exec]. rewrite Hg. cbn [Nat.ltb Nat.leb]. destruct d; reflexivity.
      * apply String.eqb_eq in Hc. subst f. cbn [exec]. rewrite Hg. destruct d; reflexivity.
    + destruct p as [|i p]; [discriminate|]. destruct i; try discriminate.
      apply andb_prop in Hc. destruct Hc as [E Hc]. apply String.eqb_eq in E. subst f.
      cbn [exec]. destruct (o g) as [|[|n]] eqn:Eo; try lia.
      * cbn [Nat.ltb Nat.leb]. rewrite seg_nil. cbn [app]. now apply IH.
      * cbn [Nat.ltb Nat.leb]. destruct d; reflexivity.
    + destruct p as [|i p]; [discriminate|]. destruct i; try discriminate.
      apply andb_prop in Hc. destruct Hc as [E Hc]. apply String.eqb_eq in E. subst f.
      cbn [exec]. destruct (o g) as [|n] eqn:Eo.
      * cbn [Nat.ltb Nat.leb]. rewrite seg_nil. cbn [app]. now apply IH.
      * replace (Nat.ltb 0 (S n)) with true by reflexivity.
        pose proof (seg_head d g (S n) ltac:(lia)) as Hh.
        destruct (seg d g (S n)) as [|x s]; [discriminate|]. cbn [app hd_error] in *. now rewrite Hh.
Qed.

Lemma pos_eqb_refl x : pos_eqb x x = true.
Proof. unfold pos_eqb. now rewrite String.eqb_refl, Nat.eqb_refl. Qed.

(* successor = head of what follows the first occurrence *)
Lemma succ_in_split pre x post : (forall y, In y pre -> pos_eqb y x = false) ->
  succ_in (pre ++ x :: post) x = hd_error post.
Proof.
  induction pre as [|a pre IH]; intros H.
  - cbn. now rewrite pos_eqb_refl.
  - cbn [app succ_in]. rewrite (H a (or_introl eq_refl)). apply IH. intros y Hy. apply H. now right.
Qed.

Lemma tag_neq f l i : ~ In i l -> forall y, In y (tag f l) -> pos_eqb y (f, i) = false.
Proof.
  intros Hn y Hy. apply in_map_iff in Hy. destruct Hy as (j & <- & Hj). unfold pos_eqb. cbn.
  rewrite String.eqb_refl. cbn. apply Nat.eqb_neq. intros ->. contradiction.
Qed.

Lemma succ_seg d f n idx tail : idx < n ->
  succ_in (seg d f n ++ tail) (f, idx) =
  match d with
  | Fwd => if Nat.ltb (S idx) n then Some (f, S idx) else hd_error tail
  | Bwd => if Nat.leb 1 idx then Some (f, idx - 1) else hd_error tail
  end.
Proof.
  intros Hi. destruct d; unfold seg.
  - replace n with (idx + S (n - S idx)) at 1 by lia. rewrite seq_app. cbn [seq]. unfold tag. rewrite map_app. cbn [map].
    rewrite <- app_assoc. cbn [app]. fold (tag f (seq 0 idx)).
    rewrite succ_in_split by (apply tag_neq; rewrite in_seq; lia).
    destruct (Nat.ltb_spec (S idx) n) as [Hl|Hl].
    + replace (n - S idx) with (S (n - S idx - 1)) by lia. cbn. repeat f_equal; lia.
    + replace (n - S idx) with 0 by lia. reflexivity.
  - replace n with (idx + S (n - S idx)) at 1 by lia. rewrite seq_app. cbn [seq]. rewrite rev_app_distr. cbn [rev].
    rewrite <- app_assoc. cbn [app]. unfold tag. rewrite map_app. cbn [map]. rewrite <- app_assoc. cbn [app].
    fold (tag f (rev (seq (0 + idx + 1) (n - S idx)))).
    rewrite succ_in_split by (apply tag_neq; rewrite <- in_rev, in_seq; lia).
    destruct (Nat.leb_spec 1 idx) as [Hl|Hl].
    + replace idx with (S (idx - 1)) at 1 by lia. rewrite seq_S, rev_app_distr. cbn. repeat f_equal.
    + replace idx with 0 by lia. reflexivity.
Qed.

Lemma after_field_split f items k rest : after_field f items = Some (k, rest) ->
  exists pre, items = pre ++ CI f k :: rest /\ (forall g kg, In (CI g kg) pre -> g <> f).
Proof.
  revert k rest. induction items as [|[g kg] r IH]; intros k rest H; [discriminate|]. cbn in H.
  destruct (String.eqb_spec f g) as [->|Hn].
  - injection H as <- <-. exists []. split; [reflexivity|]. intros ? ? [].
  - destruct (IH k rest H) as (pre & -> & Hp). exists (CI g kg :: pre). split; [reflexivity|].
    intros g' k' [E|Hin]; [injection E as <- <-; congruence|now apply (Hp g' k')].
Qed.

Lemma flat_app d o a b : flat d o (a ++ b) = flat d o a ++ flat d o b.
Proof. unfold flat. apply flat_map_app. Qed.

Lemma flat_no_field d o items f i : (forall g kg, In (CI g kg) items -> g <> f) ->
  forall y, In y (flat d o items) -> pos_eqb y (f, i) = false.
Proof.
  intros H y Hy. unfold flat in Hy. apply in_flat_map in Hy. destruct Hy as ([g kg] & Hin & Hy).
  apply seg_fields in Hy. unfold pos_eqb. cbn. destruct (String.eqb_spec (fst y) f) as [E|]; [|reflexivity].
  exfalso. apply (H g kg Hin). congruence.
Qed.

Lemma succ_in_skip l1 l2 x : (forall y, In y l1 -> pos_eqb y x = false) -> succ_in (l1 ++ l2) x = succ_in l2 x.
Proof.
  induction l1 as [|a l1 IH]; intros H; [reflexivity|]. cbn [app succ_in].
  rewrite (H a (or_introl eq_refl)). apply IH. intros y Hy. apply H. now right.
Qed.

Lemma wf_occ_dir d items o : wf_occ items o -> wf_occ (items_dir d items) o.
Proof. intros H. destruct d; [exact H|]. intros f k Hin. apply H. now apply in_rev. Qed.

(* THE generic lemma: for every node shape the accepted program returns the successor in (direction) syntax order;
   for the START/END entry it returns the first (last) child *)
Theorem compat_sound d items f p o : wf_occ items o -> compat d items f p = true ->
  match f with
  | None => forall idx, exec d p o idx = hd_error (children_dir d items o)
  | Some f => forall idx, idx < o f -> exec d p o idx = succ_in (children_dir d items o) (f, idx)
  end.
Proof.
  intros Hw Hc. rewrite children_dir_flat. apply (wf_occ_dir d) in Hw. unfold compat in Hc.
  destruct f as [f|].
  - intros idx Hi. destruct (after_field f (items_dir d items)) as [[k rest]|] eqn:Ea; [|discriminate].
    destruct (after_field_split _ _ _ _ Ea) as (pre & Ei & Hpre). rewrite Ei in *. rewrite flat_app.
    rewrite succ_in_skip by (apply flat_no_field; exact Hpre).
    cbn [flat flat_map]. fold (flat d o rest).
    assert (Hwr : wf_occ rest o) by (intros g kg Hin; apply Hw; apply in_or_app; right; now right).
    pose proof (Hw f k ltac:(apply in_or_app; right; now left)) as Hk.
    rewrite succ_seg by assumption.
    destruct k.
    + (* Req: one child, idx = 0 *)
      assert (idx = 0) by lia. subst idx. rewrite Hk. rewrite (compat_rest_sound d p rest o 0 Hc Hwr). destruct d; reflexivity.
    + assert (idx = 0) by lia. subst idx. rewrite (compat_rest_sound d p rest o 0 Hc Hwr).
      destruct d; [destruct (Nat.ltb_spec 1 (o f)); [lia|reflexivity]|reflexivity].
    + destruct p as [|i p']; [discriminate|]. destruct i; try discriminate.
      apply andb_prop in Hc. destruct Hc as [E Hc]. apply String.eqb_eq in E. subst f0.
      cbn [exec]. rewrite (compat_rest_sound d p' rest o idx Hc Hwr). destruct d; reflexivity.
  - intros idx. now apply compat_rest_sound.
Qed.
