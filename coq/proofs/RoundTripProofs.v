(* Layer-A round trips of the abstract container semantics: what cut-then-put-back, replace-by-itself and
   read-after-write mean on the element list of a field. *)
From Coq Require Import List Arith Lia.
From PF Require Import kernel.Container.
Import ListNotations.

Section RT.
  Context {A : Type}.
  Implicit Types l new : list A.

  Lemma firstn_skipn_split l s e : s <= e -> firstn e l = firstn s l ++ firstn (e - s) (skipn s l).
  Proof.
    revert l e. induction s as [|s IH]; intros l e H.
    - simpl. rewrite Nat.sub_0_r. reflexivity.
    - destruct e as [|e]; [lia|]. destruct l as [|a l]; [simpl; rewrite firstn_nil; reflexivity|].
      simpl. rewrite (IH l e) by lia. reflexivity.
  Qed.

  Lemma firstn_app_exact (a b : list A) n : length a = n -> firstn n (a ++ b) = a.
  Proof. intros <-. rewrite firstn_app, Nat.sub_diag, firstn_all. simpl. apply app_nil_r. Qed.

  Lemma skipn_app_exact (a b : list A) n : length a = n -> skipn n (a ++ b) = b.
  Proof. intros <-. rewrite skipn_app, Nat.sub_diag, skipn_all. reflexivity. Qed.

  (* cutting [s, e) and putting the cut elements back at s restores the list *)
  Lemma cut_put_back l s e :
    s <= e -> put_slice_spec (del_slice_spec l s e) s s (get_slice_spec l s e) = l.
  Proof.
    intros H. unfold del_slice_spec, get_slice_spec, put_slice_spec. simpl.
    destruct (le_lt_dec s (length l)) as [Hs|Hs].
    - rewrite firstn_app_exact by (apply firstn_length_le; exact Hs).
      rewrite skipn_app_exact by (apply firstn_length_le; exact Hs).
      rewrite app_assoc, <- firstn_skipn_split by exact H. apply firstn_skipn.
    - rewrite (firstn_all2 (n := s) l) by lia. rewrite (skipn_all2 (n := e) l) by lia.
      rewrite (skipn_all2 (n := s) l) by lia. rewrite firstn_nil, !app_nil_r.
      rewrite firstn_all2 by lia. rewrite skipn_all2 by lia. apply app_nil_r.
  Qed.

  (* the elements read back from where they were written are the elements written *)
  Lemma get_after_put l s e new :
    s <= length l -> get_slice_spec (put_slice_spec l s e new) s (s + length new) = new.
  Proof.
    intros Hs. unfold get_slice_spec, put_slice_spec.
    rewrite skipn_app_exact by (apply firstn_length_le; exact Hs).
    replace (s + length new - s) with (length new) by lia.
    apply firstn_app_exact. reflexivity.
  Qed.

  (* what is outside the written window is untouched *)
  Lemma put_keeps_prefix l s e new : s <= length l -> firstn s (put_slice_spec l s e new) = firstn s l.
  Proof.
    intros Hs. unfold put_slice_spec. apply firstn_app_exact. apply firstn_length_le. exact Hs.
  Qed.

  Lemma put_keeps_suffix l s e new :
    s <= length l -> skipn (s + length new) (put_slice_spec l s e new) = skipn e l.
  Proof.
    intros Hs. unfold put_slice_spec. rewrite app_assoc. apply skipn_app_exact.
    rewrite app_length, firstn_length_le by exact Hs. reflexivity.
  Qed.

  (* replacing the slice by itself is the identity *)
  Lemma put_own_slice l s e : s <= e -> put_slice_spec l s e (get_slice_spec l s e) = l.
  Proof.
    intros H. unfold put_slice_spec, get_slice_spec.
    rewrite app_assoc, <- firstn_skipn_split by exact H. apply firstn_skipn.
  Qed.
End RT.

(* ---- trees: replacing the sub-tree at a path ---- *)
Inductive tree := T (label : nat) (kids : list tree).

Fixpoint subtree (p : list nat) (t : tree) : option tree :=
  match p with
  | [] => Some t
  | i :: p' => let 'T _ ks := t in match nth_error ks i with Some k => subtree p' k | None => None end
  end.

Fixpoint set_nth {A} (l : list A) (i : nat) (x : A) : list A :=
  match l, i with
  | [], _ => []
  | _ :: r, 0 => x :: r
  | a :: r, S i' => a :: set_nth r i' x
  end.

Fixpoint replace_at (p : list nat) (t new : tree) : tree :=
  match p with
  | [] => new
  | i :: p' => let 'T lb ks := t in
               match nth_error ks i with Some k => T lb (set_nth ks i (replace_at p' k new)) | None => t end
  end.

Lemma set_nth_same {A} (l : list A) i x : nth_error l i = Some x -> set_nth l i x = l.
Proof.
  revert i. induction l as [|a l IH]; intros [|i] H; simpl in *; try discriminate; [congruence|].
  rewrite IH by exact H. reflexivity.
Qed.

Lemma nth_set_nth {A} (l : list A) i x y : nth_error l i = Some y -> nth_error (set_nth l i x) i = Some x.
Proof.
  revert i. induction l as [|a l IH]; intros [|i] H; simpl in *; try discriminate; [reflexivity|].
  apply IH. exact H.
Qed.

Lemma nth_set_nth_other {A} (l : list A) i j x : i <> j -> nth_error (set_nth l i x) j = nth_error l j.
Proof.
  revert i j. induction l as [|a l IH]; intros [|i] [|j] H; simpl; try reflexivity; [congruence|].
  apply IH. congruence.
Qed.

(* replacing a node by itself changes nothing *)
Lemma replace_by_self p : forall t k, subtree p t = Some k -> replace_at p t k = t.
Proof.
  induction p as [|i p IH]; intros [lb ks] k H; simpl in *; [congruence|].
  destruct (nth_error ks i) as [c|] eqn:Hn; [|discriminate].
  rewrite (IH c k H), set_nth_same by exact Hn. reflexivity.
Qed.

(* a node written at a path is read back from that path *)
Lemma subtree_after_replace p : forall t k new, subtree p t = Some k -> subtree p (replace_at p t new) = Some new.
Proof.
  induction p as [|i p IH]; intros [lb ks] k new H; simpl in *; [reflexivity|].
  destruct (nth_error ks i) as [c|] eqn:Hn; [|discriminate].
  simpl. rewrite (nth_set_nth _ _ _ _ Hn). eapply IH. exact H.
Qed.

(* prefix relation on paths *)
Fixpoint is_prefix (p q : list nat) : bool :=
  match p, q with
  | [], _ => true
  | a :: p', b :: q' => Nat.eqb a b && is_prefix p' q'
  | _, [] => false
  end.

(* every node not below and not above the written path is untouched *)
Lemma subtree_disjoint p : forall q t new,
  is_prefix p q = false -> is_prefix q p = false -> subtree q (replace_at p t new) = subtree q t.
Proof.
  induction p as [|i p IH]; intros q [lb ks] new Hpq Hqp; [discriminate|].
  destruct q as [|j q]; [discriminate|]. simpl in *.
  destruct (nth_error ks i) as [c|] eqn:Hn; [|reflexivity].
  simpl. destruct (Nat.eqb_spec i j) as [<-|Hij].
  - rewrite Nat.eqb_refl in Hqp. simpl in *.
    rewrite (nth_set_nth _ _ _ _ Hn), Hn. apply IH; assumption.
  - rewrite nth_set_nth_other by exact Hij. reflexivity.
Qed.
