(* C06: on a well-formed tree find_contains_loc returns a node that contains the span and none of whose children holds it. *)
From Coq Require Import List Bool Arith Lia.
From PF Require Import models.FindLoc.
Import ListNotations.

Section Span.
  Variables a b : nat.

  Definition holds (x : tree) : Prop := st x <= a /\ a < en x /\ b <= en x.

  (* the scan over the direct children only *)
  Fixpoint lscan (cs : list tree) : verdict :=
    match cs with
    | [] => Stay
    | x :: r => if Nat.leb (en x) a then lscan r else if Nat.ltb a (st x) then Stay else if Nat.ltb (en x) b then lscan r else Into x
    end.

  Lemma sizes_app l1 l2 : sizes (l1 ++ l2) = sizes l1 + sizes l2.
  Proof. induction l1 as [|x l IH]; [reflexivity|]. change (sizes ((x :: l) ++ l2)) with (size x + sizes (l ++ l2)). change (sizes (x :: l)) with (size x + sizes l). lia. Qed.

  Lemma size_unfold i s e k : size (Node i s e k) = S (sizes k).
  Proof. reflexivity. Qed.

  Lemma wf_unfold i s e k : wf (Node i s e k) = Nat.leb s e && ordered s k && forallb (fun c => Nat.leb (en c) e) k && forallb wf k.
  Proof. reflexivity. Qed.

  (* a sub-tree that ends at or before the start of the span is walked through without effect *)
  Lemma scan_dead : forall n x rest fuel, size x <= n -> wf x = true -> en x <= a -> size x <= fuel ->
    scan fuel a b (x :: rest) = scan (fuel - size x) a b rest.
  Proof.
    induction n as [|n IH]; intros x rest fuel Hn Hw He Hf.
    - destruct x as [i s e k]. rewrite size_unfold in Hn. lia.
    - destruct x as [i s e k]. rewrite size_unfold in *. cbn [en] in He.
      destruct fuel as [|f]; [lia|]. cbn [scan en kids]. destruct (Nat.leb_spec e a) as [_|]; [|lia].
      replace (S f - S (sizes k)) with (f - sizes k) by lia.
      rewrite wf_unfold in Hw. apply andb_true_iff in Hw. destruct Hw as [Hw Hwk]. apply andb_true_iff in Hw. destruct Hw as [_ Hen].
      (* walk through the children one by one *)
      assert (G : forall ks rest' f', sizes ks <= n -> forallb wf ks = true -> forallb (fun c => Nat.leb (en c) e) ks = true -> sizes ks <= f' ->
                  scan f' a b (ks ++ rest') = scan (f' - sizes ks) a b rest').
      { induction ks as [|c ks IHk]; intros rest' f' Hs Hwf Hle Hf'.
        - cbn. now rewrite Nat.sub_0_r.
        - cbn [forallb] in Hwf, Hle. apply andb_true_iff in Hwf, Hle. destruct Hwf as [Wc Wk]. destruct Hle as [Lc Lk].
          apply Nat.leb_le in Lc. change (sizes (c :: ks)) with (size c + sizes ks) in *.
          cbn [app]. rewrite (IH c (ks ++ rest') f') by (try assumption; lia). rewrite IHk by (try assumption; lia). f_equal. lia. }
      apply G; try assumption; lia.
  Qed.

  Lemma scan_is_lscan : forall cs lo fuel, ordered lo cs = true -> forallb wf cs = true -> sizes cs < fuel ->
    scan fuel a b cs = lscan cs.
  Proof.
    induction cs as [|x r IH]; intros lo fuel Ho Hw Hf.
    - destruct fuel; reflexivity.
    - cbn [ordered forallb] in Ho, Hw. apply andb_true_iff in Ho, Hw. destruct Ho as [_ Ho]. destruct Hw as [Wx Wr].
      change (sizes (x :: r)) with (size x + sizes r) in Hf. cbn [lscan].
      destruct (Nat.leb_spec (en x) a) as [D|D].
      + rewrite (scan_dead (size x) x r fuel) by (try assumption; lia). apply (IH (en x)); try assumption. lia.
      + destruct fuel as [|f]; [lia|]. cbn [scan]. destruct (Nat.leb_spec (en x) a) as [|_]; [lia|].
        destruct (Nat.ltb a (st x)); [reflexivity|]. destruct (Nat.ltb (en x) b); [|reflexivity].
        apply (IH (en x)); try assumption. destruct x as [i s e k]. rewrite size_unfold in Hf. lia.
  Qed.

  Lemma lscan_into cs x : lscan cs = Into x -> In x cs /\ holds x.
  Proof.
    induction cs as [|y r IH]; cbn [lscan]; [discriminate|].
    destruct (Nat.leb_spec (en y) a) as [D|D]; [intros E0; destruct (IH E0); split; [now right|assumption]|].
    destruct (Nat.ltb_spec a (st y)) as [B|B]; [discriminate|].
    destruct (Nat.ltb_spec (en y) b) as [C|C]; [intros E0; destruct (IH E0); split; [now right|assumption]|].
    intros E. inversion E; subst. split; [now left|]. unfold holds. lia.
  Qed.

  Lemma ordered_ge lo cs c : ordered lo cs = true -> forallb wf cs = true -> In c cs -> lo <= st c.
  Proof.
    revert lo. induction cs as [|y r IH]; intros lo Ho Hw Hc; [destruct Hc|].
    cbn [ordered forallb] in Ho, Hw. apply andb_true_iff in Ho, Hw. destruct Ho as [L Ho]. destruct Hw as [Wy Wr]. apply Nat.leb_le in L.
    destruct Hc as [->|Hc]; [exact L|].
    specialize (IH (en y) Ho Wr Hc). destruct y as [i s e k]. rewrite wf_unfold in Wy.
    apply andb_true_iff in Wy. destruct Wy as [Wy _]. apply andb_true_iff in Wy. destruct Wy as [Wy _]. apply andb_true_iff in Wy. destruct Wy as [Wy _]. apply Nat.leb_le in Wy.
    cbn [st en] in *. lia.
  Qed.

  Lemma lscan_stay lo cs : ordered lo cs = true -> forallb wf cs = true -> lscan cs = Stay -> forall c, In c cs -> ~ holds c.
  Proof.
    revert lo. induction cs as [|y r IH]; intros lo Ho Hw Hs c Hc; [destruct Hc|].
    pose proof Ho as Ho'. pose proof Hw as Hw'.
    cbn [ordered forallb] in Ho, Hw. apply andb_true_iff in Ho, Hw. destruct Ho as [L Ho]. destruct Hw as [Wy Wr].
    cbn [lscan] in Hs. unfold holds.
    destruct (Nat.leb_spec (en y) a) as [D|D].
    - destruct Hc as [->|Hc]; [lia|]. exact (IH (en y) Ho Wr Hs c Hc).
    - destruct (Nat.ltb_spec a (st y)) as [B|B].
      + (* everything from y on starts behind the start of the span *)
        destruct Hc as [->|Hc]; [lia|]. pose proof (ordered_ge (en y) r c Ho Wr Hc).
        destruct y as [i s e k]. rewrite wf_unfold in Wy.
        apply andb_true_iff in Wy. destruct Wy as [Wy _]. apply andb_true_iff in Wy. destruct Wy as [Wy _]. apply andb_true_iff in Wy. destruct Wy as [Wy _]. apply Nat.leb_le in Wy.
        cbn [st en] in *. lia.
      + destruct (Nat.ltb_spec (en y) b) as [E|E]; [|discriminate].
        destruct Hc as [->|Hc]; [lia|]. exact (IH (en y) Ho Wr Hs c Hc).
  Qed.

  Lemma size_child x c : In c (kids x) -> size c < size x.
  Proof.
    destruct x as [i s e k]. cbn [kids]. rewrite size_unfold. intros H. induction k as [|y r IH]; [destruct H|].
    change (sizes (y :: r)) with (size y + sizes r). destruct H as [->|H]; [lia|]. specialize (IH H). lia.
  Qed.

  Lemma wf_child x c : wf x = true -> In c (kids x) -> wf c = true.
  Proof.
    destruct x as [i s e k]. rewrite wf_unfold. cbn [kids]. intros H Hc. apply andb_true_iff in H. destruct H as [_ H].
    rewrite forallb_forall in H. now apply H.
  Qed.

  Lemma wf_kids x : wf x = true -> ordered (st x) (kids x) = true /\ forallb wf (kids x) = true.
  Proof.
    destruct x as [i s e k]. rewrite wf_unfold. cbn [kids st]. intros H.
    apply andb_true_iff in H. destruct H as [H Hk]. apply andb_true_iff in H. destruct H as [H _]. apply andb_true_iff in H. destruct H as [_ Ho]. split; assumption.
  Qed.

  Theorem descend_spec : forall fuel self, size self <= fuel -> wf self = true ->
    let r := descend fuel a b self in
    (r = self \/ holds r) /\ forall c, In c (kids r) -> ~ holds c.
  Proof.
    induction fuel as [|f IH]; intros self Hf Hw.
    - destruct self. rewrite size_unfold in Hf. lia.
    - cbn [descend]. destruct (wf_kids self Hw) as [Ho Hk].
      rewrite (scan_is_lscan (kids self) (st self)) by (try assumption; lia).
      destruct (lscan (kids self)) as [|x] eqn:E.
      + split; [now left|]. intros c Hc. exact (lscan_stay (st self) (kids self) Ho Hk E c Hc).
      + destruct (lscan_into _ _ E) as [Hin Hh].
        pose proof (size_child self x Hin). pose proof (wf_child self x Hw Hin) as Wx.
        destruct (IH x ltac:(lia) Wx) as (H2 & H3).
        split; [|exact H3]. right. destruct H2 as [->|H2]; assumption.
  Qed.

  Theorem find_contains_correct root : wf root = true ->
    let r := descend (size root) a b root in
    (r = root \/ holds r) /\ forall c, In c (kids r) -> ~ holds c.
  Proof. intros Hw. exact (descend_spec (size root) root (Nat.le_refl _) Hw). Qed.
End Span.

Example find_nonvacuous :
  (* x = f(a, bb): Module 0 [0,11) > Assign 1 [0,11) > Name x 2 [0,1), Call 3 [4,11) > Name f 4 [4,5), a 5 [6,7), bb 6 [9,11) *)
  let t := Node 0 0 11 [Node 1 0 11 [Node 2 0 1 []; Node 3 4 11 [Node 4 4 5 []; Node 5 6 7 []; Node 6 9 11 []]]] in
  wf t = true /\ find_contains t 9 11 = Some 6 /\ find_contains t 7 9 = Some 3 /\ find_contains t 2 3 = Some 1 /\ find_contains t 6 10 = Some 3 /\ find_contains t 0 12 = None.
Proof. repeat split; reflexivity. Qed.

(* ---- find_in_loc ---- *)
Section SpanIn.
  Variables a b : nat.

  Definition within (x : tree) : Prop := a <= st x /\ en x <= b.

  Fixpoint desc (t : tree) : list tree := let 'Node _ _ _ k := t in flat_map (fun c => c :: desc c) k.
  Definition descs (l : list tree) : list tree := flat_map (fun c => c :: desc c) l.

  Lemma desc_unfold i s e k : desc (Node i s e k) = descs k.
  Proof. reflexivity. Qed.

  (* the walk order: every node of the forest, parents in front of their children *)
  Lemma descs_cons c k : descs (c :: k) = c :: desc c ++ descs k.
  Proof. reflexivity. Qed.

  Lemma descs_app k1 k2 : descs (k1 ++ k2) = descs k1 ++ descs k2.
  Proof. unfold descs. apply flat_map_app. Qed.

  Lemma descs_length k : length (descs k) = sizes k.
  Proof.
    assert (G : forall n t, size t <= n -> length (desc t) = size t - 1).
    { induction n as [|n IH]; intros [i s e k0] Hs; rewrite size_unfold in *; [lia|].
      rewrite desc_unfold. replace (S (sizes k0) - 1) with (sizes k0) by lia.
      assert (Hk : sizes k0 <= n) by lia. clear Hs. induction k0 as [|c k0 IHk]; [reflexivity|].
      rewrite descs_cons. cbn [length]. rewrite app_length. change (sizes (c :: k0)) with (size c + sizes k0) in *.
      rewrite (IH c) by lia. rewrite IHk by lia. destruct c. rewrite size_unfold. lia. }
    induction k as [|c k IHk]; [reflexivity|]. rewrite descs_cons. cbn [length]. rewrite app_length, IHk, (G (size c) c (le_n _)).
    change (sizes (c :: k)) with (size c + sizes k). destruct c. rewrite size_unfold. lia.
  Qed.

  (* the scan answers with the FIRST node of the walk order that lies within the span - sound and complete *)
  Theorem scan_in_is_first : forall fuel todo, sizes todo < fuel ->
    scan_in fuel a b todo = find (fun x => inside x a b) (descs todo).
  Proof.
    induction fuel as [|f IH]; intros todo Hf; [lia|].
    destruct todo as [|y rest]; [reflexivity|]. cbn [scan_in]. rewrite descs_cons. cbn [find]. unfold inside at 1.
    assert (Hrec : scan_in f a b (kids y ++ rest) = find (fun x => inside x a b) (desc y ++ descs rest)).
    { rewrite IH.
      - rewrite descs_app. destruct y as [i s e k]. reflexivity.
      - rewrite sizes_app. change (sizes (y :: rest)) with (size y + sizes rest) in Hf. destruct y as [i s e k]. rewrite size_unfold in Hf. cbn [kids]. lia. }
    destruct (Nat.ltb_spec (st y) a) as [B|B].
    - destruct (Nat.leb_spec a (st y)); [lia|]. cbn [andb]. exact Hrec.
    - destruct (Nat.leb_spec a (st y)); [|lia]. cbn [andb]. destruct (Nat.leb (en y) b); [reflexivity|exact Hrec].
  Qed.

  Theorem find_in_sound : forall fuel todo x, sizes todo < fuel -> scan_in fuel a b todo = Some x -> within x /\ In x (descs todo).
  Proof.
    intros fuel todo x Hf H. rewrite scan_in_is_first in H by exact Hf. apply find_some in H. destruct H as [I W].
    unfold inside in W. apply andb_true_iff in W. destruct W as [W1 W2]. apply Nat.leb_le in W1, W2. split; [split; assumption|exact I].
  Qed.

  Theorem find_in_complete : forall fuel todo, sizes todo < fuel -> scan_in fuel a b todo = None ->
    forall x, In x (descs todo) -> ~ within x.
  Proof.
    intros fuel todo Hf H x I [W1 W2]. rewrite scan_in_is_first in H by exact Hf.
    apply (find_none _ _ H) in I. unfold inside in I. apply andb_false_iff in I. destruct I as [I|I]; [apply Nat.leb_gt in I|apply Nat.leb_gt in I]; lia.
  Qed.
End SpanIn.

Example find_in_nonvacuous :
  let t := Node 0 0 11 [Node 1 0 11 [Node 2 0 1 []; Node 3 4 11 [Node 4 4 5 []; Node 5 6 7 []; Node 6 9 11 []]]] in
  find_in t 5 11 = Some 5 /\ find_in t 4 11 = Some 3 /\ find_in t 0 11 = Some 0 /\ find_in t 7 8 = None /\ find_in t 2 7 = Some 4.
Proof. repeat split; reflexivity. Qed.

(* ---- allow_exact = 'top' / False: where on the descent path of the default search they stop ---- *)
Section Modes.
  Variables a b : nat.

  Lemma scan_m_scan m : forall fuel todo,
    scan_m m fuel a b todo =
      match scan fuel a b todo with
      | Stay => StayM
      | Into x => if exact x a b then match m with MExact => IntoM x | MTop => StopM x | MStrict => StayM end else IntoM x
      end.
  Proof.
    induction fuel as [|f IH]; intros todo; [reflexivity|].
    destruct todo as [|x rest]; [reflexivity|]. cbn [scan_m scan].
    destruct (Nat.leb (en x) a); [apply IH|]. destruct (Nat.ltb a (st x)); [reflexivity|]. destruct (Nat.ltb (en x) b); [apply IH|]. reflexivity.
  Qed.

  Lemma last_indep (l : list tree) : forall y d d', last (y :: l) d = last (y :: l) d'.
  Proof. induction l as [|z l IH]; intros y d d'; [reflexivity|]. change (last (y :: z :: l) d) with (last (z :: l) d). change (last (y :: z :: l) d') with (last (z :: l) d'). apply IH. Qed.

  Lemma last_cons (l : list tree) x d : last (x :: l) d = last l x.
  Proof. destruct l as [|y r]; [reflexivity|]. change (last (x :: y :: r) d) with (last (y :: r) d). apply last_indep. Qed.

  Lemma descend_last : forall fuel self, descend fuel a b self = last (path fuel a b self) self.
  Proof.
    induction fuel as [|f IH]; intros self; [reflexivity|]. cbn [descend path].
    destruct (scan (S (sizes (kids self))) a b (kids self)) as [|x]; [reflexivity|].
    rewrite IH. symmetry. apply last_cons.
  Qed.

  Theorem descend_exact_mode : forall fuel self, descend_m MExact fuel a b self = descend fuel a b self.
  Proof.
    induction fuel as [|f IH]; intros self; [reflexivity|]. cbn [descend_m descend]. rewrite scan_m_scan.
    destruct (scan (S (sizes (kids self))) a b (kids self)) as [|x]; [reflexivity|].
    destruct (exact x a b); apply IH.
  Qed.

  (* 'top': the first node on the path whose location is exactly the span, else where the default search ends *)
  Theorem descend_top : forall fuel self,
    descend_m MTop fuel a b self = first_or (fun x => exact x a b) (path fuel a b self) (last (path fuel a b self) self).
  Proof.
    induction fuel as [|f IH]; intros self; [reflexivity|]. cbn [descend_m path]. rewrite scan_m_scan.
    destruct (scan (S (sizes (kids self))) a b (kids self)) as [|x]; [reflexivity|].
    cbn [first_or]. destruct (exact x a b); [reflexivity|]. rewrite IH. reflexivity.
  Qed.

  (* False: the node in front of the first exact one on the path, else where the default search ends *)
  Theorem descend_strict : forall fuel self,
    descend_m MStrict fuel a b self = before_first (fun x => exact x a b) (path fuel a b self) self.
  Proof.
    induction fuel as [|f IH]; intros self; [reflexivity|]. cbn [descend_m path]. rewrite scan_m_scan.
    destruct (scan (S (sizes (kids self))) a b (kids self)) as [|x]; [reflexivity|].
    cbn [before_first]. destruct (exact x a b); [reflexivity|]. apply IH.
  Qed.

  (* on a well-formed tree the path is a chain: every node on it is a child of the one before and holds the span *)
  Inductive chain : tree -> list tree -> Prop :=
  | chain_nil t : chain t []
  | chain_cons t x r : In x (kids t) -> holds a b x -> chain x r -> chain t (x :: r).

  Theorem path_is_chain : forall fuel self, size self <= fuel -> wf self = true -> chain self (path fuel a b self).
  Proof.
    induction fuel as [|f IH]; intros self Hf Hw; [constructor|]. cbn [path].
    destruct (wf_kids self Hw) as [Ho Hk].
    rewrite (scan_is_lscan a b (kids self) (st self)) by (try assumption; lia).
    destruct (lscan a b (kids self)) as [|x] eqn:E; [constructor|].
    destruct (lscan_into a b _ _ E) as [Hin Hh].
    constructor; [exact Hin|exact Hh|]. apply IH; [pose proof (size_child self x Hin); lia|exact (wf_child self x Hw Hin)].
  Qed.
End Modes.

Example modes_nonvacuous :
  (* Module [0,9) > Expr [2,5) > Name [2,5); span [2,5) *)
  let t := Node 0 0 9 [Node 1 0 1 []; Node 2 2 5 [Node 3 2 5 []]] in
  find_contains_m MExact t 2 5 = Some 3 /\ find_contains_m MTop t 2 5 = Some 2 /\ find_contains_m MStrict t 2 5 = Some 0 /\
  find_contains_m MTop t 2 4 = Some 3 /\ find_contains_m MStrict (Node 2 2 5 [Node 3 2 5 []]) 2 5 = None /\ find_contains_m MTop (Node 2 2 5 [Node 3 2 5 []]) 2 5 = Some 2.
Proof. vm_compute. repeat split; reflexivity. Qed.
