(* Theorems about the TRANSLATED index normalisation functions (gen/Fixups.v, regenerated from
   /repo/src/fst/fst_misc.py on every run) against Python's own list index / slice semantics (kernel/Container.v). *)
From Coq Require Import ZArith List Bool Lia ZifyBool.
From PF Require Import kernel.PyBase kernel.Container gen.Fixups.
Import ListNotations.
Local Open Scope Z_scope.

Ltac split_ifs :=
  repeat match goal with
       | |- context [if ?c then _ else _] => let E := fresh "E" in destruct c eqn:E
       | H : context [if ?c then _ else _] |- _ => let E := fresh "E" in destruct c eqn:E
       end.

Definition idx_val (len : Z) (i : idx) : Z := match i with End => len | Ix z => z end.

(* 'end' as a slice bound means len; as a single index it is out of range *)
Lemma fix_one_end len d : 0 <= len -> 0 <= d -> fixup_one_index len End d = None.
Proof. intros; unfold fixup_one_index; cbn. destruct (negb _) eqn:E; [reflexivity | lia]. Qed.

(* single index, start_at = 0: exactly Python's list index rule *)
Lemma fix_one_py len i : 0 <= len ->
  fixup_one_index len (Ix i) 0 = py_index len i.
Proof.
  intros Hl. unfold fixup_one_index, py_index.
  destruct (i <? 0) eqn:E1.
  - destruct (negb _) eqn:E2; destruct ((i <? - len) || (i >=? len)) eqn:E3; try reflexivity; lia.
  - destruct (negb _) eqn:E2; destruct ((i <? - len) || (i >=? len)) eqn:E3; try reflexivity; try lia.
    f_equal. lia.
Qed.

(* single index with a lower bound d (docstring offset): non-negative virtual index i maps to real i + d,
   negative index counts from the real end but may not reach below d *)
Lemma fix_one_start_at len i d k : 0 <= len -> 0 <= d ->
  fixup_one_index len (Ix i) d = Some k <->
  ((0 <= i /\ k = i + d /\ k < len) \/ (i < 0 /\ k = i + len /\ d <= k)).
Proof.
  intros Hl Hd. unfold fixup_one_index.
  destruct (i <? 0) eqn:E1; destruct (negb _) eqn:E2; split; intros H.
  - discriminate.
  - exfalso; lia.
  - injection H as H; lia.
  - f_equal; lia.
  - discriminate.
  - exfalso; lia.
  - injection H as H; lia.
  - f_equal; lia.
Qed.

Lemma fix_one_range len i d k : 0 <= len -> 0 <= d ->
  fixup_one_index len i d = Some k -> d <= k < len.
Proof.
  intros Hl Hd. destruct i as [|i]; [rewrite fix_one_end by lia; discriminate|].
  intros H. apply fix_one_start_at in H; lia.
Qed.

(* slices, start_at = 0: clamp both bounds like Python; refuse exactly when the clamped stop precedes the start *)
Lemma fix_slice_py len a b : 0 <= len ->
  fixup_slice_indices len a b 0 =
    let s := py_clamp len (idx_val len a) in
    let e := py_clamp len (idx_val len b) in
    if e <? s then None else Some (s, e).
Proof.
  intros Hl. unfold fixup_slice_indices, py_clamp, idx_val.
  destruct a as [|a]; destruct b as [|b]; cbv zeta.
  all: split_ifs; try reflexivity; try (exfalso; lia); try (f_equal; f_equal; lia).
Qed.

Lemma fix_slice_some len a b s e : 0 <= len ->
  fixup_slice_indices len a b 0 = Some (s, e) ->
  0 <= s <= e /\ e <= len /\ s = py_clamp len (idx_val len a) /\ e = py_clamp len (idx_val len b).
Proof.
  intros Hl H. rewrite fix_slice_py in H by assumption. cbv zeta in H.
  destruct (_ <? _) eqn:E; [discriminate|]. injection H as <- <-.
  unfold py_clamp in *. repeat split; try reflexivity;
  repeat match goal with
       | |- context [if ?c then _ else _] => let E := fresh "E" in destruct c eqn:E
       | H : context [if ?c then _ else _] |- _ => let E := fresh "E" in destruct c eqn:E
       end; lia.
Qed.

(* with a lower bound d: results stay inside [d, len] whenever d <= len *)
Lemma fix_slice_start_at_range len a b d s e : 0 <= d <= len ->
  fixup_slice_indices len a b d = Some (s, e) -> d <= s <= e /\ e <= len.
Proof.
  intros Hd. unfold fixup_slice_indices.
  destruct a as [|a]; destruct b as [|b]; cbn zeta.
  all: repeat match goal with
       | |- context [if ?c then _ else _] => let E := fresh "E" in destruct c eqn:E
       end; intros H; try discriminate; injection H as <- <-; lia.
Qed.

(* non-negative in-range virtual indices are shifted by exactly d *)
Lemma fix_slice_start_at_shift len a b d : 0 <= d -> 0 <= a <= b -> b + d <= len ->
  fixup_slice_indices len (Ix a) (Ix b) d = Some (a + d, b + d).
Proof.
  intros Hd Hab Hb. unfold fixup_slice_indices. cbn zeta.
  repeat match goal with
       | |- context [if ?c then _ else _] => let E := fresh "E" in destruct c eqn:E
       end; try lia; f_equal; f_equal; lia.
Qed.

(* the lower bound d makes the field behave as the VIRTUAL list real[d:] of length len-d, results shifted back by d
   (this is what `_body` = body-without-docstring relies on) *)
Definition shift2 (d : Z) (p : Z * Z) : Z * Z := (fst p + d, snd p + d).

Lemma fix_slice_start_at_virtual len a b d : 0 <= d <= len ->
  fixup_slice_indices len a b d = option_map (shift2 d) (fixup_slice_indices (len - d) a b 0).
Proof.
  intros Hd. unfold fixup_slice_indices, shift2.
  destruct a as [|a]; destruct b as [|b]; cbv zeta.
  all: split_ifs; cbn [option_map fst snd]; try reflexivity; try (exfalso; lia); try (f_equal; f_equal; lia).
Qed.

Lemma fix_one_start_at_virtual len i d : 0 <= d <= len ->
  fixup_one_index len (Ix i) d = option_map (fun k => k + d) (fixup_one_index (len - d) (Ix i) 0).
Proof.
  intros Hd. unfold fixup_one_index.
  split_ifs; cbn [option_map]; try reflexivity; try (exfalso; lia); try (f_equal; lia).
Qed.
