(* Wrapper geometry: the fragment's characters and spans are found one line down in the embedding, so moving the parse
   result up one line makes every node denote the same text in the fragment; the delimiter guard accepts exactly the
   fragments that leave the wrapper's own delimiter open until the wrapper closes it. *)
From Coq Require Import List NArith ZArith Bool Arith Lia.
From PF Require Import kernel.PyBase kernel.Text models.Extract models.Wrap.
Import ListNotations.

Lemma lineAt_wrap pre post L k : k < length L -> lineAt (wrap pre post L) (S k) = lineAt L k.
Proof. intros H. unfold lineAt, wrap. simpl. apply app_nth1. exact H. Qed.

Theorem wrap_char pre post L p :
  1 <= fst p <= length L -> char_at (wrap pre post L) p = char_at L (unwrap_pos p).
Proof.
  destruct p as [[|k] c]; simpl; intros H; [lia|].
  unfold char_at. simpl fst. simpl snd. rewrite Nat.sub_0_r. rewrite lineAt_wrap by lia. reflexivity.
Qed.

Lemma skipn_wrap pre post L k : k <= length L -> skipn (S k) (wrap pre post L) = skipn k L ++ [post].
Proof. intros H. unfold wrap. simpl. rewrite skipn_app. replace (k - length L) with 0 by lia. reflexivity. Qed.

Lemma firstn_app_le {A} (a b : list A) n : n <= length a -> firstn n (a ++ b) = firstn n a.
Proof. intros H. rewrite firstn_app. replace (n - length a) with 0 by lia. simpl. apply app_nil_r. Qed.

(* the text of any span that lies on fragment lines is the same in the embedding, one line down *)
Theorem wrap_span pre post L ln col eln ecol :
  ln <= eln < length L ->
  get_src (wrap pre post L) (S ln) col (S eln) ecol = get_src L ln col eln ecol.
Proof.
  intros H. unfold get_src. simpl Nat.eqb.
  rewrite !lineAt_wrap by lia.
  destruct (Nat.eqb eln ln); [reflexivity|].
  f_equal. f_equal.
  rewrite skipn_wrap by lia. simpl Nat.sub.
  apply firstn_app_le. rewrite skipn_length. lia.
Qed.

(* any number of prefix lines *)
Lemma lineAt_wrapn pres post L k : k < length L -> lineAt (wrapn pres post L) (length pres + k) = lineAt L k.
Proof.
  intros H. unfold lineAt, wrapn. rewrite app_nth2 by lia.
  replace (length pres + k - length pres) with k by lia. apply app_nth1. exact H.
Qed.

Theorem wrapn_char pres post L p :
  length pres <= fst p < length pres + length L ->
  char_at (wrapn pres post L) p = char_at L (unwrapn_pos (length pres) p).
Proof.
  destruct p as [l c]. simpl. intros H. unfold char_at. simpl fst. simpl snd.
  replace l with (length pres + (l - length pres)) at 1 by lia.
  rewrite lineAt_wrapn by lia. reflexivity.
Qed.

Theorem wrapn_span pres post L ln col eln ecol :
  ln <= eln < length L ->
  get_src (wrapn pres post L) (length pres + ln) col (length pres + eln) ecol = get_src L ln col eln ecol.
Proof.
  intros H. unfold get_src.
  replace (Nat.eqb (length pres + eln) (length pres + ln)) with (Nat.eqb eln ln)
    by (destruct (Nat.eqb_spec eln ln), (Nat.eqb_spec (length pres + eln) (length pres + ln)); try reflexivity; lia).
  rewrite !lineAt_wrapn by lia.
  destruct (Nat.eqb eln ln); [reflexivity|].
  f_equal. f_equal.
  replace (length pres + eln - (length pres + ln) - 1) with (eln - ln - 1) by lia.
  unfold wrapn. replace (S (length pres + ln)) with (length pres + S ln) by lia.
  rewrite skipn_app. rewrite skipn_all2 by lia. simpl app.
  replace (length pres + S ln - length pres) with (S ln) by lia.
  rewrite skipn_app. replace (S ln - length L) with 0 by lia.
  change (skipn 0 [post]) with [post].
  apply firstn_app_le. rewrite skipn_length. lia.
Qed.

(* ---- the guard ---- *)
Lemma guard_some_iff s : forall c,
  (exists n, guard c s = Some n) <-> (forall k, k <= length s -> (0 <= Z.of_nat c + depth (firstn k s))%Z).
Proof.
  induction s as [|x s IH]; intros c.
  - simpl. split; [intros _ k Hk; rewrite firstn_nil; simpl; lia|intros _; eexists; reflexivity].
  - assert (Hstep : forall d c', Z.of_nat c' = (Z.of_nat c + d)%Z ->
              ((exists n, guard c' s = Some n) <->
               (forall k : nat, k <= length (x :: s) -> (0 <= Z.of_nat c + (match k with O => 0%Z | S k' => (d + depth (firstn k' s))%Z end))%Z))).
    { intros d c' Hc. rewrite IH. split.
      - intros H [|k] Hk; [lia|]. simpl in Hk. specialize (H k ltac:(lia)). lia.
      - intros H k Hk. specialize (H (S k) ltac:(simpl; lia)). simpl in H. lia. }
    destruct x; cbn [guard].
    + rewrite (Hstep 1%Z (S c)) by lia. split; intros H k Hk; specialize (H k Hk); destruct k; simpl in *; lia.
    + destruct c as [|c].
      * split; [intros [n H]; discriminate|]. intros H. specialize (H 1 ltac:(simpl; lia)). simpl in H. lia.
      * rewrite (Hstep (-1)%Z c) by lia. split; intros H k Hk; specialize (H k Hk); destruct k; simpl in *; lia.
    + rewrite (Hstep 0%Z c) by lia. split; intros H k Hk; specialize (H k Hk); destruct k; simpl in *; lia.
Qed.

(* the guard passes exactly when no prefix of the scanned text closes more than it opened *)
Theorem guard_accepts_iff s :
  (exists n, guard 0 s = Some n) <-> (forall k, k <= length s -> (0 <= depth (firstn k s))%Z).
Proof. rewrite guard_some_iff. simpl Z.of_nat. split; intros H k Hk; specialize (H k Hk); lia. Qed.

(* where the wrapper's opener is closed: scanning fragment ++ [closer] ++ rest after the opener *)
Lemma closer_index_app s : forall lvl rest,
  (forall k, k <= length s -> (0 <= Z.of_nat lvl + depth (firstn k s))%Z) ->
  closer_index lvl (s ++ rest) = option_map (Nat.add (length s)) (closer_index (Z.to_nat (Z.of_nat lvl + depth s)) rest).
Proof.
  induction s as [|x s IH]; intros lvl rest H.
  - simpl. replace (Z.of_nat lvl + 0)%Z with (Z.of_nat lvl) by lia. rewrite Nat2Z.id.
    destruct (closer_index lvl rest); reflexivity.
  - assert (Hs : forall d : Z, (forall k : nat, k <= length s -> (0 <= Z.of_nat lvl + (d + depth (firstn k s)))%Z) ->
                  forall lvl' : nat, Z.of_nat lvl' = (Z.of_nat lvl + d)%Z ->
                  closer_index lvl' (s ++ rest) =
                  option_map (Nat.add (length s)) (closer_index (Z.to_nat (Z.of_nat lvl + (d + depth s))) rest)).
    { intros d Hd lvl' Hl. rewrite IH.
      - f_equal. f_equal. lia.
      - intros k Hk. specialize (Hd k Hk). lia. }
    assert (Hk' : forall k d, k <= length s -> depth (firstn (S k) (x :: s)) = (d + depth (firstn k s))%Z ->
                  (0 <= Z.of_nat lvl + (d + depth (firstn k s)))%Z).
    { intros k d Hk Hd. rewrite <- Hd. apply H. simpl. lia. }
    destruct x; cbn [app closer_index depth length].
    + rewrite (Hs 1%Z) with (lvl' := S lvl); [|intros k Hk; apply Hk'; [exact Hk|reflexivity]|lia].
      destruct (closer_index _ rest); reflexivity.
    + destruct lvl as [|lvl].
      * specialize (H 1 ltac:(simpl; lia)). cbn [firstn depth] in H. lia.
      * rewrite (Hs (-1)%Z) with (lvl' := lvl); [|intros k Hk; apply Hk'; [exact Hk|reflexivity]|lia].
        destruct (closer_index _ rest); reflexivity.
    + rewrite (Hs 0%Z) with (lvl' := lvl); [|intros k Hk; apply Hk'; [exact Hk|reflexivity]|lia].
      destruct (closer_index _ rest); reflexivity.
Qed.

(* guarded and balanced: the wrapper's opener is closed by the wrapper's own closer, at the position right after the
   fragment - not by anything inside it *)
Theorem guarded_fragment_keeps_wrapper_open s rest :
  (exists n, guard 0 s = Some n) -> depth s = 0%Z ->
  closer_index 0 (s ++ DClose :: rest) = Some (length s).
Proof.
  intros Hg Hd. rewrite closer_index_app.
  - simpl Z.of_nat. rewrite Hd. simpl. rewrite Nat.add_0_r. reflexivity.
  - pose proof (proj1 (guard_accepts_iff s) Hg) as Hg'. intros k Hk. specialize (Hg' k Hk). simpl Z.of_nat. lia.
Qed.

(* a refused fragment would have closed the wrapper's opener early *)
Theorem refused_fragment_closes_wrapper s rest :
  guard 0 s = None -> exists i, i < length s /\ closer_index 0 (s ++ rest) = Some i.
Proof.
  revert rest. generalize 0 as lvl.
  induction s as [|x s IH]; intros lvl rest H; [discriminate|].
  destruct x; cbn [guard] in H; simpl app; cbn [closer_index].
  - destruct (IH (S lvl) rest H) as [i [Hi Hc]]. exists (S i). rewrite Hc. simpl. split; [lia|reflexivity].
  - destruct lvl as [|lvl].
    + exists 0. simpl. split; [lia|reflexivity].
    + destruct (IH lvl rest H) as [i [Hi Hc]]. exists (S i). rewrite Hc. simpl. split; [lia|reflexivity].
  - destruct (IH lvl rest H) as [i [Hi Hc]]. exists (S i). rewrite Hc. simpl. split; [lia|reflexivity].
Qed.
