(* C04: what leading_trivia may hand to an edit is bounded, consists of trivia lines only, and obeys the options. *)
From Coq Require Import List NArith Bool Arith Lia.
From PF Require Import kernel.PyBase models.Trivia.
Import ListNotations.

Lemma scan_up_bounds P L lo n : lo <= scan_up P L lo n <= lo + n.
Proof. induction n as [|m IH]; cbn [scan_up]; [lia|]. destruct (P _); lia. Qed.

Lemma scan_up_all P L lo n i : scan_up P L lo n <= i < lo + n -> P (lineN L i) = true.
Proof.
  induction n as [|m IH]; cbn [scan_up]; [lia|].
  destruct (P (lineN L (lo + m))) eqn:E; intros H; [|lia].
  destruct (Nat.eq_dec i (lo + m)) as [->|Hn]; [exact E|]. apply IH. lia.
Qed.

Lemma scan_from_bounds P L stop ln : stop <= ln -> stop <= scan_from P L stop ln <= ln.
Proof.
  intros H. unfold scan_from. destruct (Nat.leb_spec stop ln); [|lia].
  pose proof (scan_up_bounds P L stop (ln - stop)). lia.
Qed.

Lemma scan_from_le P L stop ln : scan_from P L stop ln <= ln.
Proof.
  unfold scan_from. destruct (Nat.leb_spec stop ln); [|lia].
  pose proof (scan_up_bounds P L stop (ln - stop)). lia.
Qed.

Lemma scan_from_ge P L stop ln : scan_from P L stop ln <> ln -> stop <= scan_from P L stop ln.
Proof.
  unfold scan_from. destruct (Nat.leb_spec stop ln); [|lia]. intros _.
  pose proof (scan_up_bounds P L stop (ln - stop)). lia.
Qed.

Lemma scan_from_all P L stop ln i : scan_from P L stop ln <= i < ln -> P (lineN L i) = true.
Proof.
  unfold scan_from. destruct (Nat.leb_spec stop ln); [|lia]. intros H0. apply (scan_up_all P L stop (ln - stop)). lia.
Qed.

Lemma first_comment_bounds L k n : k <= first_comment L k n <= k + n.
Proof. revert k; induction n as [|m IH]; intros k; cbn [first_comment]; [lia|]. destruct (is_comment _); [lia|]. specialize (IH (S k)). lia. Qed.

Definition res_text (r : (nat * nat) * option nat * bool) : nat * nat := fst (fst r).
Definition res_text_ln (r : (nat * nat) * option nat * bool) : nat := fst (fst (fst r)).
Definition res_space (r : (nat * nat) * option nat * bool) : option nat := snd (fst r).
Definition top_of (bound_ln bound_col : nat) : nat := bound_ln + (if Nat.eqb bound_col 0 then 0 else 1).

Lemma comment_is_trivia l : comment_start l = true -> trivia_line l = true.
Proof. unfold comment_start, trivia_line. destruct (skip_ws l) as [|c r]; [discriminate|]. intros ->. reflexivity. Qed.

Lemma empty_cont_is_trivia l : empty_or_cont l = true -> trivia_line l = true.
Proof.
  unfold empty_or_cont, trivia_line. destruct (skip_ws l) as [|c [|d r]]; try discriminate; [reflexivity|].
  intros ->. now rewrite orb_true_r.
Qed.

(* ---- facts about the common tail ------------------------------------------------------------------------------- *)
Lemma lt_tail_facts L top ln col sp c : top <= ln -> c <= ln -> (c <> ln -> top <= c) ->
  let r := lt_tail L top ln col sp c in
  res_text r = (if Nat.eqb c ln then (ln, col) else (c, 0)) /\
  (forall s, res_space r = Some s ->
     top <= s /\ s <= res_text_ln r /\
     (forall i, s <= i < res_text_ln r -> empty_or_cont (lineN L i) = true) /\
     (forall n, sp = SInt n -> res_text_ln r - s <= n)).
Proof.
  intros Ht Hc Hc2. cbv zeta. unfold lt_tail.
  set (tp := if Nat.eqb c ln then (ln, col) else (c, 0)).
  assert (Htp : fst tp = c) by (unfold tp; destruct (Nat.eqb_spec c ln); cbn; lia).
  assert (Htc : top <= c) by (destruct (Nat.eq_dec c ln); [lia|auto]).
  assert (SP0 : forall s, (if Nat.eqb c ln && negb (Nat.eqb col 0) then Some c else None) = Some s -> s = c).
  { intros s. destruct (_ && _); [intros [= <-]; reflexivity|discriminate]. }
  destruct (negb (space_on sp) || Nat.eqb c top) eqn:E1.
  - unfold res_text, res_space, res_text_ln. cbn [fst snd]. split; [reflexivity|]. intros s Hs. apply SP0 in Hs. subst s.
    rewrite Htp. repeat split; lia.
  - set (lo := match sp with SInt n => Nat.max top (c - n) | _ => top end).
    assert (Hlo : top <= lo <= c) by (unfold lo; destruct sp; lia).
    pose proof (scan_from_bounds empty_or_cont L lo c ltac:(lia)) as B.
    destruct (Nat.eqb (scan_from empty_or_cont L lo c) c) eqn:E2; unfold res_text, res_space, res_text_ln; cbn [fst snd]; (split; [reflexivity|]).
    + intros s Hs. apply SP0 in Hs. subst s. rewrite Htp. repeat split; lia.
    + intros s [= <-]. rewrite Htp. repeat split; try lia.
      * intros i Hi. apply (scan_from_all empty_or_cont L lo c). lia.
      * intros n ->. unfold lo in *. lia.
Qed.

(* ---- bounds ------------------------------------------------------------------------------------------------------- *)
Theorem leading_bounds L bl bc ln col cm sp : top_of bl bc <= ln ->
  let r := leading_trivia L bl bc ln col cm sp in
  res_text_ln r <= ln /\
  (res_text r <> (ln, col) -> top_of bl bc <= res_text_ln r) /\
  (forall s, res_space r = Some s -> top_of bl bc <= s /\ s <= res_text_ln r).
Proof.
  intros Ht. cbv zeta. unfold leading_trivia. fold (top_of bl bc).
  destruct ((Nat.eqb bl ln && negb (Nat.eqb bc 0)) || negb (empty_upto (lineN L ln) col)) eqn:E0.
  { unfold res_text, res_text_ln, res_space. cbn [fst snd]. repeat split; [lia|congruence|discriminate|discriminate]. }
  set (top := top_of bl bc) in *.
  set (stop := match cm with CLine n => if Nat.ltb top n then n else top | _ => top end).
  assert (Hs : top <= stop) by (unfold stop; destruct cm; try lia; destruct (Nat.ltb_spec top n); lia).
  assert (TAIL : forall c, c <= ln -> (c <> ln -> top <= c) ->
            let r := lt_tail L top ln col sp c in
            res_text_ln r <= ln /\ (res_text r <> (ln, col) -> top <= res_text_ln r) /\
            (forall s, res_space r = Some s -> top <= s /\ s <= res_text_ln r)).
  { intros c Hc Hc2. cbv zeta. destruct (lt_tail_facts L top ln col sp c Ht Hc Hc2) as [Htx Hsp].
    unfold res_text_ln. fold (res_text (lt_tail L top ln col sp c)). rewrite Htx.
    assert (Hsp' : forall s0, res_space (lt_tail L top ln col sp c) = Some s0 -> top <= s0 /\ s0 <= fst (if Nat.eqb c ln then (ln, col) else (c, 0))).
    { intros s0 Hs0. destruct (Hsp s0 Hs0) as (A & B & _). unfold res_text_ln in B. fold (res_text (lt_tail L top ln col sp c)) in B. rewrite Htx in B. split; assumption. }
    destruct (Nat.eqb_spec c ln); cbn [fst] in *; (split; [lia|split; [intros Hne; try congruence; try lia|]]);
      intros s0 Hs0; destruct (Hsp' s0 Hs0); lia. }
  destruct cm as [| | |n].
  - apply TAIL; lia.
  - (* all *)
    pose proof (scan_from_le trivia_line L stop ln) as K1.
    set (k := scan_from trivia_line L stop ln) in *.
    pose proof (first_comment_bounds L k (ln - k)) as F1.
    set (c := first_comment L k (ln - k)) in *.
    assert (Hk : k <> ln -> stop <= k) by (intros Hn; apply scan_from_ge; exact Hn).
    unfold res_text, res_text_ln, res_space.
    assert (SP0 : forall s, (if Nat.eqb c ln && negb (Nat.eqb col 0) then Some c else None) = Some s -> s = c /\ c = ln).
    { intros s. destruct (Nat.eqb_spec c ln) as [Ecl|Ecl]; cbn [andb]; [|discriminate].
      destruct (negb (Nat.eqb col 0)); [|discriminate]. intros H0. split; [congruence|exact Ecl]. }
    destruct (Nat.eqb_spec c ln) as [Ec|Ec].
    + destruct (negb (space_on sp) || Nat.eqb c k) eqn:E1; cbn [fst snd].
      * split; [lia|split; [congruence|]]. intros s0 Hs0. apply SP0 in Hs0. lia.
      * assert (k <> ln) by (intros Hk2; apply orb_false_elim in E1; destruct E1 as [_ E1]; apply Nat.eqb_neq in E1; lia).
        specialize (Hk H). destruct sp; cbn [fst snd]; (split; [lia|split; [congruence|]]); intros s0 Hs0; try discriminate;
          injection Hs0 as <-; lia.
    + assert (k <> ln) by lia. specialize (Hk H).
      destruct (negb (space_on sp) || Nat.eqb c k) eqn:E1; cbn [fst snd].
      * split; [lia|split; [intros _; lia|]]. intros s0 Hs0. apply SP0 in Hs0. lia.
      * destruct sp; cbn [fst snd]; (split; [lia|split; [intros _; lia|]]); intros s0 Hs0; try discriminate; injection Hs0 as <-; lia.
  - apply TAIL; [apply scan_from_le|]. intros Hn. apply scan_from_ge in Hn. lia.
  - apply TAIL; [apply scan_from_le|]. intros Hn. apply scan_from_ge in Hn. lia.
Qed.

(* ---- NO CODE IN TRIVIA --------------------------------------------------------------------------------------------- *)
Theorem leading_trivia_only L bl bc ln col cm sp : top_of bl bc <= ln ->
  let r := leading_trivia L bl bc ln col cm sp in
  (res_text r <> (ln, col) -> forall i, res_text_ln r <= i < ln ->
     trivia_line (lineN L i) = true /\ (cm = CBlock -> comment_start (lineN L i) = true)) /\
  (forall s, res_space r = Some s -> forall i, s <= i < res_text_ln r -> trivia_line (lineN L i) = true).
Proof.
  intros Ht. cbv zeta. unfold leading_trivia. fold (top_of bl bc).
  destruct ((Nat.eqb bl ln && negb (Nat.eqb bc 0)) || negb (empty_upto (lineN L ln) col)) eqn:E0.
  { unfold res_text, res_space. cbn [fst snd]. split; [congruence|discriminate]. }
  set (top := top_of bl bc) in *.
  set (stop := match cm with CLine n => if Nat.ltb top n then n else top | _ => top end).
  assert (Hs : top <= stop) by (unfold stop; destruct cm; try lia; destruct (Nat.ltb_spec top n); lia).
  assert (TAIL : forall c (Q : pyline -> bool), c <= ln -> (c <> ln -> top <= c) ->
            (forall i, c <= i < ln -> Q (lineN L i) = true) ->
            let r := lt_tail L top ln col sp c in
            (res_text r <> (ln, col) -> forall i, res_text_ln r <= i < ln -> Q (lineN L i) = true) /\
            (forall s, res_space r = Some s -> forall i, s <= i < res_text_ln r -> trivia_line (lineN L i) = true)).
  { intros c Q Hc Hc2 HQ. cbv zeta. destruct (lt_tail_facts L top ln col sp c Ht Hc Hc2) as [Htx Hsp]. split.
    - intros Hne i Hi. unfold res_text_ln in Hi. fold (res_text (lt_tail L top ln col sp c)) in Hi. rewrite Htx in *.
      destruct (Nat.eqb_spec c ln); [congruence|]. cbn [fst] in Hi. apply HQ. lia.
    - intros s Hs0 i Hi. destruct (Hsp s Hs0) as (_ & _ & E & _). apply empty_cont_is_trivia. now apply E. }
  destruct cm as [| | |n].
  - destruct (TAIL ln (fun _ => true) ltac:(lia) ltac:(lia) ltac:(reflexivity)) as [T1 T2]. split; [|exact T2].
    intros Hne i Hi. exfalso.
    destruct (lt_tail_facts L top ln col sp ln Ht ltac:(lia) ltac:(lia)) as [Htx _]. rewrite Nat.eqb_refl in Htx. congruence.
  - (* all *)
    set (k := scan_from trivia_line L stop ln).
    pose proof (first_comment_bounds L k (ln - k)) as F1.
    set (c := first_comment L k (ln - k)) in *.
    pose proof (scan_from_le trivia_line L stop ln) as K1. fold k in K1.
    assert (Tk : forall i, k <= i < ln -> trivia_line (lineN L i) = true) by (intros i Hi; apply (scan_from_all trivia_line L stop ln); exact Hi).
    assert (SP0 : forall s, (if Nat.eqb c ln && negb (Nat.eqb col 0) then Some c else None) = Some s -> s = c /\ c = ln).
    { intros s. destruct (Nat.eqb_spec c ln) as [Ecl|Ecl]; cbn [andb]; [|discriminate].
      destruct (negb (Nat.eqb col 0)); [|discriminate]. intros H0. split; [congruence|exact Ecl]. }
    unfold res_text, res_text_ln, res_space.
    destruct (Nat.eqb_spec c ln) as [Ec|Ec].
    + destruct (negb (space_on sp) || Nat.eqb c k) eqn:E1; cbn [fst snd].
      * split; [congruence|]. intros s Hs0 i Hi. apply SP0 in Hs0. lia.
      * destruct sp; cbn [fst snd]; (split; [congruence|]); try discriminate; intros s [= <-] i Hi; apply Tk; lia.
    + destruct (negb (space_on sp) || Nat.eqb c k) eqn:E1; cbn [fst snd].
      * split; [|intros s Hs0 i Hi; apply SP0 in Hs0; lia]. intros _ i Hi. split; [apply Tk; lia|discriminate].
      * destruct sp; cbn [fst snd]; (split; [intros _ i Hi; split; [apply Tk; lia|discriminate]|]); try discriminate;
          intros s [= <-] i Hi; apply Tk; lia.
  - set (c := scan_from comment_start L stop ln).
    destruct (TAIL c comment_start (scan_from_le _ _ _ _) ltac:(intros Hn; apply scan_from_ge in Hn; lia)
               ltac:(intros i Hi; apply (scan_from_all comment_start L stop ln); exact Hi)) as [T1 T2].
    split; [|exact T2]. intros Hne i Hi. split; [apply comment_is_trivia|intros _]; now apply T1.
  - set (c := scan_from trivia_line L stop ln).
    destruct (TAIL c trivia_line (scan_from_le _ _ _ _) ltac:(intros Hn; apply scan_from_ge in Hn; lia)
               ltac:(intros i Hi; apply (scan_from_all trivia_line L stop ln); exact Hi)) as [T1 T2].
    split; [|exact T2]. intros Hne i Hi. split; [now apply T1|discriminate].
Qed.

(* comments='none' never hands any line above the element to the edit as text *)
Theorem none_keeps_text L bl bc ln col sp : res_text (leading_trivia L bl bc ln col CNone sp) = (ln, col).
Proof.
  unfold leading_trivia. destruct (_ || _); [reflexivity|]. unfold lt_tail. rewrite Nat.eqb_refl.
  destruct (negb (space_on sp) || _); [reflexivity|]. destruct (Nat.eqb _ ln); reflexivity.
Qed.

(* space=n hands over at most n blank lines *)
Theorem leading_space_limit L bl bc ln col cm n s : cm <> CAll -> top_of bl bc <= ln ->
  res_space (leading_trivia L bl bc ln col cm (SInt n)) = Some s -> res_text_ln (leading_trivia L bl bc ln col cm (SInt n)) - s <= n.
Proof.
  intros Hcm Ht. unfold leading_trivia. fold (top_of bl bc).
  destruct (_ || negb (empty_upto _ _)); [discriminate|].
  set (top := top_of bl bc) in *.
  set (stop := match cm with CLine n => if Nat.ltb top n then n else top | _ => top end).
  assert (Hs : top <= stop) by (unfold stop; destruct cm; try lia; destruct (Nat.ltb_spec top n0); lia).
  assert (TAIL : forall c, c <= ln -> (c <> ln -> top <= c) ->
            res_space (lt_tail L top ln col (SInt n) c) = Some s -> res_text_ln (lt_tail L top ln col (SInt n) c) - s <= n).
  { intros c Hc Hc2 H. destruct (lt_tail_facts L top ln col (SInt n) c Ht Hc Hc2) as [_ Hsp].
    destruct (Hsp s H) as (_ & _ & _ & E). now apply E. }
  destruct cm as [| | |m]; [|congruence| |]; apply TAIL; try lia; try apply scan_from_le; intros Hn; apply scan_from_ge in Hn; lia.
Qed.
