(* Walking while the tree is modified: whatever legal mutations the caller performs during the yields, and whatever it
   sends, no FST handle is yielded twice, every yielded node was attached when it was yielded, and only children of the
   yielded handle's current AST are scheduled. *)
From Coq Require Import List Bool Arith Lia.
From PF Require Import models.WalkMut.
Import ListNotations.

Record Inv (h : heap) (s : wstate) : Prop := {
  i_nodup : NoDup (stack s ++ seen s);
  i_par : forall x, In x (stack s ++ seen s) -> x < next h /\ exists p, parent h x = Some p /\ In p (expanded s);
  i_exp : forall c, In c (expanded s) -> c < next h /\ (parent h c = None \/ exists a, In a (seen s) /\ handle h c = handle h a);
  i_inj : forall x y, In x (stack s ++ seen s) -> In y (stack s ++ seen s) -> handle h x = handle h y -> x = y;
  i_out : NoDup (out s) /\ forall g, In g (out s) -> exists a, In a (seen s) /\ handle h a = g
}.

Lemma inv_transport h h' s : Inv h s -> legal h h' -> Inv h' s.
Proof.
  intros [I1 I2 I5 I6 I7] [Hn Hk].
  constructor.
  - exact I1.
  - intros x Hx. destruct (I2 x Hx) as [Hlt [p [Hp Hin]]]. split; [lia|].
    exists p. destruct (Hk x Hlt) as [Hpar _]. rewrite Hpar. auto.
  - intros c Hc. destruct (I5 c Hc) as [Hlt Hor]. split; [lia|].
    destruct (Hk c Hlt) as [Hpar Hh]. destruct Hor as [Hnone|[a [Ha Heq]]].
    + left. congruence.
    + right. exists a. split; [exact Ha|].
      assert (Halt : a < next h) by (apply (I2 a); apply in_or_app; right; exact Ha).
      destruct (Hk a Halt) as [_ Hha]. congruence.
  - intros x y Hx Hy Heq.
    destruct (I2 x Hx) as [Hxl _]. destruct (I2 y Hy) as [Hyl _].
    destruct (Hk x Hxl) as [_ Hhx]. destruct (Hk y Hyl) as [_ Hhy].
    apply I6; congruence.
  - destruct I7 as [Hnd Hex]. split; [exact Hnd|].
    intros g Hg. destruct (Hex g Hg) as [a [Ha Heq]]. exists a. split; [exact Ha|].
    assert (Halt : a < next h) by (apply (I2 a); apply in_or_app; right; exact Ha).
    destruct (Hk a Halt) as [_ Hha]. congruence.
Qed.

Lemma legal_refl h : legal h h.
Proof. split; [lia|auto]. Qed.

(* list helpers *)
Lemma nodup_app_intro {A} (l1 l2 : list A) : NoDup l1 -> NoDup l2 -> (forall x, In x l1 -> ~ In x l2) -> NoDup (l1 ++ l2).
Proof.
  induction l1 as [|a l1 IH]; intros H1 H2 Hd; [exact H2|].
  simpl. apply NoDup_cons_iff in H1. destruct H1 as [Ha H1]. constructor.
  - intros Hin. apply in_app_or in Hin. destruct Hin as [Hin|Hin]; [exact (Ha Hin)|exact (Hd a (or_introl eq_refl) Hin)].
  - apply IH; [exact H1|exact H2|intros x Hx; apply Hd; right; exact Hx].
Qed.

Lemma nodup_map_inj {A B} (f : A -> B) l : NoDup (map f l) -> forall x y, In x l -> In y l -> f x = f y -> x = y.
Proof.
  induction l as [|a l IH]; intros Hnd x y Hx Hy Heq; [destruct Hx|].
  simpl in Hnd. apply NoDup_cons_iff in Hnd. destruct Hnd as [Ha Hnd].
  destruct Hx as [<-|Hx], Hy as [<-|Hy]; try reflexivity.
  - exfalso. apply Ha. rewrite Heq. apply in_map. exact Hy.
  - exfalso. apply Ha. rewrite <- Heq. apply in_map. exact Hx.
  - apply IH; assumption.
Qed.

Lemma nodup_app_parts {A} (l1 l2 : list A) : NoDup (l1 ++ l2) -> NoDup l1 /\ NoDup l2 /\ (forall x, In x l1 -> ~ In x l2).
Proof.
  induction l1 as [|a l1 IH]; intros H; [split; [constructor|split; [exact H|intros x []]]|].
  simpl in H. apply NoDup_cons_iff in H. destruct H as [Ha H]. destruct (IH H) as [H1 [H2 Hd]].
  split; [|split; [exact H2|]].
  - constructor; [|exact H1]. intros Hin. apply Ha. apply in_or_app. left. exact Hin.
  - intros x [<-|Hx] Hin; [apply Ha; apply in_or_app; right; exact Hin|exact (Hd x Hx Hin)].
Qed.

Lemma nodup_move {A} (a : A) st sn : NoDup ((a :: st) ++ sn) -> NoDup (st ++ a :: sn).
Proof.
  intros H. simpl in H. apply NoDup_cons_iff in H. destruct H as [Hn Hd].
  destruct (nodup_app_parts st sn Hd) as [H1 [H2 Hdis]].
  apply nodup_app_intro; [exact H1| |].
  - constructor; [|exact H2]. intros Hin. apply Hn. apply in_or_app. right. exact Hin.
  - intros x Hx [<-|Hin].
    + apply Hn. apply in_or_app. left. exact Hx.
    + exact (Hdis x Hx Hin).
Qed.

Lemma in_move {A} (x a : A) st sn : In x (st ++ a :: sn) <-> In x ((a :: st) ++ sn).
Proof. simpl. rewrite !in_app_iff. simpl. tauto. Qed.

(* pop a: it is discarded (not attached) or yielded without scheduling children *)
Lemma inv_pop h s a st (yielded : bool) :
  stack s = a :: st -> Inv h s ->
  Inv h {| stack := st; seen := a :: seen s; expanded := expanded s; out := if yielded then handle h a :: out s else out s |}.
Proof.
  intros Hst [I1 I2 I5 I6 I7]. rewrite Hst in *.
  constructor; cbn [stack seen expanded out].
  - apply nodup_move. exact I1.
  - intros x Hx. apply in_move in Hx. apply I2. exact Hx.
  - intros c Hc. destruct (I5 c Hc) as [Hlt Hor]. split; [exact Hlt|].
    destruct Hor as [Hn|[b [Hb Heq]]]; [left; exact Hn|right; exists b; split; [right; exact Hb|exact Heq]].
  - intros x y Hx Hy. apply in_move in Hx. apply in_move in Hy. apply I6; assumption.
  - destruct I7 as [Hnd Hex]. destruct yielded.
    + split.
      * constructor; [|exact Hnd]. intros Hin. destruct (Hex _ Hin) as [b [Hb Heq]].
        assert (Hab : a = b).
        { apply I6; [left; reflexivity|apply in_or_app; right; exact Hb|congruence]. }
        subst b. simpl in I1. apply NoDup_cons_iff in I1. destruct I1 as [Hni _].
        apply Hni. apply in_or_app. right. exact Hb.
      * intros g' [<-|Hg']; [exists a; split; [left; reflexivity|reflexivity]|].
        destruct (Hex g' Hg') as [b [Hb Heq]]. exists b. split; [right; exact Hb|exact Heq].
    + split; [exact Hnd|]. intros g' Hg'. destruct (Hex g' Hg') as [b [Hb Heq]]. exists b. split; [right; exact Hb|exact Heq].
Qed.

(* pop a, yield its handle, schedule the children of the handle's current AST c *)
Lemma inv_pop_expand h s a st c (yielded : bool) :
  WF h -> stack s = a :: st -> Inv h s -> handle h c = handle h a -> c < next h ->
  Inv h {| stack := kids h c ++ st; seen := a :: seen s; expanded := c :: expanded s; out := if yielded then handle h a :: out s else out s |}.
Proof.
  intros [W1 [W2 [W3 W4]]] Hst Hinv Hh Hc.
  pose proof (inv_pop h s a st yielded Hst Hinv) as [J1 J2 J5 J6 J7]. cbn [stack seen expanded out] in *.
  destruct Hinv as [I1 I2 I5 I6 I7]. rewrite Hst in *.
  assert (Hal : a < next h) by (apply (I2 a); left; reflexivity).
  (* c has not been expanded before *)
  assert (Hnew : ~ In c (expanded s)).
  { intros Hin. destruct (I5 c Hin) as [_ [Hnone|[b [Hb Heq]]]].
    - destruct (I2 a (or_introl eq_refl)) as [_ [p [Hp _]]].
      rewrite (W4 c a Hc Hal Hh) in Hnone. congruence.
    - assert (Hab : a = b) by (apply I6; [left; reflexivity|apply in_or_app; right; exact Hb|congruence]).
      subst b. simpl in I1. apply NoDup_cons_iff in I1. destruct I1 as [Hni _].
      apply Hni. apply in_or_app. right. exact Hb. }
  (* no child of c is already scheduled or seen *)
  assert (Hfresh : forall x, In x (kids h c) -> ~ In x (st ++ a :: seen s)).
  { intros x Hx Hin. destruct (W1 c x Hx) as [Hp _].
    destruct (J2 x Hin) as [_ [p [Hp' Hpe]]]. rewrite Hp in Hp'. injection Hp' as <-. exact (Hnew Hpe). }
  constructor; cbn [stack seen expanded out].
  - rewrite <- app_assoc. apply nodup_app_intro; [|exact J1|exact Hfresh].
    apply (NoDup_map_inv (handle h)). apply W2.
  - intros x Hx. rewrite <- app_assoc in Hx. apply in_app_or in Hx. destruct Hx as [Hx|Hx].
    + destruct (W1 c x Hx) as [Hp Hlt]. split; [exact Hlt|]. exists c. split; [exact Hp|left; reflexivity].
    + destruct (J2 x Hx) as [Hlt [p [Hp Hpe]]]. split; [exact Hlt|]. exists p. split; [exact Hp|right; exact Hpe].
  - intros c' [<-|Hc'].
    + split; [exact Hc|]. right. exists a. split; [left; reflexivity|exact Hh].
    + exact (J5 c' Hc').
  - intros x y Hx Hy Heq. rewrite <- app_assoc in Hx, Hy.
    apply in_app_or in Hx. apply in_app_or in Hy.
    destruct Hx as [Hx|Hx], Hy as [Hy|Hy].
    + exact (nodup_map_inj (handle h) (kids h c) (W2 c) x y Hx Hy Heq).
    + exfalso. destruct (W1 c x Hx) as [Hpx Hxl]. destruct (J2 y Hy) as [Hyl [p [Hpy Hpe]]].
      rewrite (W4 x y Hxl Hyl Heq) in Hpx. rewrite Hpx in Hpy. injection Hpy as <-. exact (Hnew Hpe).
    + exfalso. destruct (W1 c y Hy) as [Hpy Hyl]. destruct (J2 x Hx) as [Hxl [p [Hpx Hpe]]].
      rewrite (W4 x y Hxl Hyl Heq) in Hpx. rewrite Hpy in Hpx. injection Hpx as <-. exact (Hnew Hpe).
    + exact (J6 x y Hx Hy Heq).
  - exact J7.
Qed.

(* ---- one iteration preserves the invariant, for any legal adversary move ---- *)
Theorem iter_inv h h' d s :
  WF h -> Inv h s -> WF h' -> legal h h' ->
  let '(h2, s2, _) := iter h (h', d) s in Inv h2 s2 /\ WF h2 /\ legal h h2.
Proof.
  intros Hwf Hinv Hwf' Hleg. unfold iter.
  destruct (stack s) as [|a st] eqn:Hst; [split; [exact Hinv|split; [exact Hwf|apply legal_refl]]|].
  assert (Halt : a < next h) by (apply (i_par h s Hinv a); rewrite Hst; left; reflexivity).
  destruct (alive h a && negb (okf h a)) eqn:Hflt.
  - split; [|split; [exact Hwf|apply legal_refl]].
    exact (inv_pop_expand h s a st a false Hwf Hst Hinv eq_refl Halt).
  - destruct (alive h a) eqn:Hal.
    + destruct Hleg as [Hn Hk]. destruct (Hk a Halt) as [_ Hha].
      pose proof (inv_transport h h' s Hinv (conj Hn Hk)) as Hinv'.
      destruct (if d then cur h' (handle h a) else None) as [c|] eqn:Hc.
      * destruct d; [|discriminate].
        destruct Hwf' as [W1 [W2 [W3 W4]]].
        destruct (W3 _ _ Hc) as [Hhc Hcl].
        split; [|split; [exact (conj W1 (conj W2 (conj W3 W4)))|exact (conj Hn Hk)]].
        rewrite <- Hha.
        exact (inv_pop_expand h' s a st c true (conj W1 (conj W2 (conj W3 W4))) Hst Hinv' ltac:(congruence) Hcl).
      * split; [|split; [exact Hwf'|exact (conj Hn Hk)]].
        rewrite <- Hha. exact (inv_pop h' s a st true Hst Hinv').
    + split; [|split; [exact Hwf|apply legal_refl]].
      exact (inv_pop h s a st false Hst Hinv).
Qed.

Lemma legal_trans h1 h2 h3 : legal h1 h2 -> legal h2 h3 -> legal h1 h3.
Proof.
  intros [N1 K1] [N2 K2]. split; [lia|]. intros x Hx.
  destruct (K1 x Hx) as [P1 H1]. destruct (K2 x ltac:(lia)) as [P2 H2]. split; congruence.
Qed.

Theorem run_inv fuel : forall h advs s,
  WF h -> Inv h s -> legal_chain h advs -> Inv (fst (run fuel h advs s)) (snd (run fuel h advs s)).
Proof.
  induction fuel as [|f IH]; intros h advs s Hwf Hinv Hch; [exact Hinv|].
  cbn [run]. destruct (stack s) as [|a st] eqn:Hst; [exact Hinv|].
  set (adv := match advs with x :: _ => x | [] => (h, true) end).
  assert (Hadv : WF (fst adv) /\ legal h (fst adv) /\ legal_chain (fst adv) (tl advs)).
  { unfold adv. destruct advs as [|[h' d] r]; simpl.
    - split; [exact Hwf|split; [apply legal_refl|exact I]].
    - simpl in Hch. exact Hch. }
  destruct adv as [h' d] eqn:Hadv_eq. simpl in Hadv. destruct Hadv as [Hwf' [Hleg Hch']].
  pose proof (iter_inv h h' d s Hwf Hinv Hwf' Hleg) as Hit.
  destruct (iter h (h', d) s) as [[h2 s2] used] eqn:Hiter.
  destruct Hit as [Hinv2 [Hwf2 Hleg2]].
  apply IH; [exact Hwf2|exact Hinv2|].
  (* the heap after the iteration is either the old one (nothing consumed) or the adversary's *)
  unfold iter in Hiter. rewrite Hst in Hiter.
  destruct (alive h a && negb (okf h a)); [injection Hiter as <- <- <-; exact Hch|].
  destruct (alive h a).
  - destruct (if d then cur h' (handle h a) else None); injection Hiter as <- <- <-; exact Hch'.
  - injection Hiter as <- <- <-. exact Hch.
Qed.

(* ---- the properties ---- *)
Lemma start_inv h root : WF h -> root < next h -> parent h root = None -> Inv h (start h root).
Proof.
  intros [W1 [W2 [W3 W4]]] Hr Hp. unfold start. constructor; cbn [stack seen expanded out].
  - rewrite app_nil_r. apply (NoDup_map_inv (handle h)). apply W2.
  - intros x Hx. rewrite app_nil_r in Hx. destruct (W1 root x Hx) as [Hpx Hl]. split; [exact Hl|].
    exists root. split; [exact Hpx|left; reflexivity].
  - intros c [<-|[]]. split; [exact Hr|left; exact Hp].
  - intros x y Hx Hy Heq. rewrite app_nil_r in Hx, Hy.
    exact (nodup_map_inj (handle h) (kids h root) (W2 root) x y Hx Hy Heq).
  - split; [constructor|intros g []].
Qed.

Theorem no_handle_yielded_twice fuel h root advs :
  WF h -> root < next h -> parent h root = None -> legal_chain h advs ->
  NoDup (out (snd (run fuel h advs (start h root)))).
Proof.
  intros Hwf Hr Hp Hch.
  exact (proj1 (i_out _ _ (run_inv fuel h advs (start h root) Hwf (start_inv h root Hwf Hr Hp) Hch))).
Qed.

(* a handle is only yielded for an AST object that is attached at that moment; after the yield only the children of the
   handle's then-current AST are scheduled (the replacement's children after a replace, nothing after a remove) *)
Theorem iter_yield_spec h h' d s a st :
  stack s = a :: st ->
  let '(h2, s2, used) := iter h (h', d) s in
  (used = true -> alive h a = true /\ okf h a = true /\ out s2 = handle h a :: out s /\
                  stack s2 = (match (if d then cur h' (handle h a) else None) with Some c => kids h' c | None => [] end) ++ st) /\
  (used = false -> out s2 = out s /\ h2 = h /\
                   ((alive h a = false /\ stack s2 = st) \/ (alive h a = true /\ okf h a = false /\ stack s2 = kids h a ++ st))).
Proof.
  intros Hst. unfold iter. rewrite Hst. destruct (alive h a) eqn:Hal; destruct (okf h a) eqn:Hok; cbn [andb negb].
  - destruct (if d then cur h' (handle h a) else None); split; intros H; try discriminate; repeat split.
  - split; intros H; try discriminate. repeat split. right. repeat split.
  - split; intros H; try discriminate. repeat split. left. repeat split.
  - split; intros H; try discriminate. repeat split. left. repeat split.
Qed.
