(* K2 theorems. (1) the TRANSLATED per-node rule equals the intended position map for every well-formed span;
   (2) under the syntax-order assumption (the WARNING in _offset) the early exits never skip a node that the rule
   would have changed: the walk is the map of the rule over all (non-excluded) nodes. *)
From Coq Require Import ZArith List Bool Lia ZifyBool.
From PF Require Import kernel.OffsetBase gen.OffsetNode models.Offset.
Import ListNotations.
Local Open Scope Z_scope.

Ltac split_ifs :=
  repeat match goal with
       | |- context [if ?c then _ else _] => let E := fresh "E" in destruct c eqn:E
       end.

Theorem offset_node_spec lno colo dln dcol tail head l c el ec deco :
  pos_le l c el ec = true ->
  fst (offset_node lno colo dln dcol tail head (l, c, el, ec) deco) = offset_spec lno colo dln dcol tail head (l, c, el, ec).
Proof.
  intros Hle. unfold pos_le in Hle.
  unfold offset_node, offset_spec, move_point, end_moves_at, start_moves_at, is_fwd.
  destruct tail, head; cbn [tri_eqb]; cbv zeta; rewrite ?andb_true_l, ?andb_false_l, ?orb_false_l, ?orb_true_l, ?orb_false_r, ?andb_true_r, ?andb_false_r;
  split_ifs; cbn [fst]; try reflexivity; try (exfalso; lia);
  repeat match goal with |- (_, _) = (_, _) => apply f_equal2 end; lia.
Qed.

(* ---- the walk ---------------------------------------------------------------------------------------------------- *)

Fixpoint stree_ind' (P : stree -> Prop)
  (H : forall i p d kids, (forall k, In (Some k) kids -> P k) -> P (SNode i p d kids)) (t : stree) : P t :=
  match t with
  | SNode i p d kids =>
      H i p d kids
        ((fix go (l : list (option stree)) : forall k, In (Some k) l -> P k :=
            match l with
            | [] => fun k (hin : In (Some k) []) => match hin with end
            | x :: r => fun k (hin : In (Some k) (x :: r)) =>
                match hin with
                | or_introl e =>
                    match x as x0 return x0 = Some k -> P k with
                    | Some k0 => fun e0 => match e0 in _ = y return (match y with Some kk => P kk | None => True end) with
                                            | eq_refl => stree_ind' P H k0 end
                    | None => fun e0 => match e0 with end
                    end e
                | or_intror hr => go r k hr
                end
            end) kids)
  end.

Section WalkProofs.
  Variables (lno colo dln dcol : Z) (tail head : tri).
  Variable excl : option nat.
  Variable offset_excluded : bool.

  Notation spec := (offset_spec lno colo dln dcol tail head).
  Notation mapt := (map_tree lno colo dln dcol tail head excl offset_excluded).
  Notation walk := (walk_tree lno colo dln dcol tail head excl offset_excluded).

  (* a span that ends strictly before the offset point *)
  Definition before (q : npos) : Prop := let '(_, _, el, ec) := q in pos_lt el ec lno colo = true.
  (* a span on later lines only *)
  Definition below (q : npos) : Prop := let '(l, _, _, _) := q in l > lno.

  Lemma spec_id_before q : wf_pos q -> before q -> spec q = q.
  Proof.
    destruct q as [[[l c] el] ec]. unfold wf_pos, before, pos_le, pos_lt, offset_spec, move_point. intros Hw Hb.
    repeat match goal with
       | |- context [if ?c then _ else _] => let E := fresh "E" in destruct c eqn:E
       end; try reflexivity; exfalso; lia.
  Qed.

  Lemma spec_id_below q : wf_pos q -> below q -> dln = 0 -> spec q = q.
  Proof.
    destruct q as [[[l c] el] ec]. unfold wf_pos, below, pos_le, offset_spec, move_point. intros Hw Hb ->.
    repeat match goal with
       | |- context [if ?c then _ else _] => let E := fresh "E" in destruct c eqn:E
       end; try reflexivity; try (exfalso; lia);
    repeat match goal with |- (_, _) = (_, _) => apply f_equal2 end; lia.
  Qed.

  Lemma node_break q deco p' : wf_pos q -> offset_node lno colo dln dcol tail head q deco = (p', Break) -> before q.
  Proof.
    destruct q as [[[l c] el] ec]. unfold wf_pos, before, pos_le, pos_lt, offset_node. cbv zeta. intros Hw.
    repeat match goal with
       | |- context [if ?c then _ else _] => let E := fresh "E" in destruct c eqn:E
       end; intros H; try discriminate; lia.
  Qed.

  Lemma node_continue q deco p' : offset_node lno colo dln dcol tail head q deco = (p', Continue) ->
    dln = 0 /\ (let '(l, _, _, _) := q in l > lno) /\ match deco with None => True | Some z => z > lno end.
  Proof.
    destruct q as [[[l c] el] ec]. unfold offset_node. cbv zeta.
    repeat match goal with
       | |- context [if ?c then _ else _] => let E := fresh "E" in destruct c eqn:E
       end; intros H; try discriminate; (destruct deco; repeat split; lia).
  Qed.

  (* a sub-tree all of whose spans are fixed by the spec is fixed by the map *)
  Lemma mapt_inert t : (forall q, In q (all_pos t) -> spec q = q) -> mapt t = t.
  Proof.
    induction t as [i p d kids IH] using stree_ind'. intros Hq. cbn [map_tree].
    destruct (_ && negb offset_excluded); [reflexivity|].
    assert (Hp : option_map spec p = p).
    { destruct p as [q|]; [|reflexivity]. cbn. f_equal. apply Hq. cbn. now left. }
    rewrite Hp. destruct (match excl with Some e => Nat.eqb e i | None => false end); [reflexivity|].
    f_equal. rewrite <- (map_id kids) at 2. apply map_ext_in. intros [k|] Hin; [|reflexivity].
    f_equal. apply IH; [assumption|]. intros q Hq'. apply Hq. cbn [all_pos]. apply in_or_app. right.
    apply in_flat_map. exists (Some k). split; assumption.
  Qed.

  Lemma ordered_wf t : Ordered t -> forall q, In q (all_pos t) -> wf_pos q.
  Proof.
    induction t as [i p d kids IH] using stree_ind'. intros HO q Hin. inversion HO as [i' p' d' kids' Hp Hs Hk]; subst.
    cbn [all_pos] in Hin. apply in_app_or in Hin. destruct Hin as [Hin|Hin].
    - destruct p as [[[[l c] el] ec]|]; [|contradiction]. destruct Hin as [<-|[]].
      apply (Hp l c el ec eq_refl).
    - apply in_flat_map in Hin. destruct Hin as [[k|] [Hk1 Hk2]]; [|contradiction].
      apply (IH k Hk1 (Hk k Hk1) q Hk2).
  Qed.

  Lemma end_le_before q pk : end_le q pk -> before pk -> before q.
  Proof.
    destruct q as [[[l c] el] ec], pk as [[[l2 c2] el2] ec2]. unfold end_le, before, pos_le, pos_lt. lia.
  Qed.

  Theorem walk_is_map t : Ordered t ->
    fst (walk t) = mapt t /\ (snd (walk t) = true -> exists pk, s_pos t = Some pk /\ before pk).
  Proof.
    induction t as [i p d kids IH] using stree_ind'. intros HO.
    inversion HO as [i' p' d' kids' Hp Hs Hk]; subst.
    cbn [walk_tree].
    set (is_excl := match excl with Some e => Nat.eqb e i | None => false end).
    assert (MU : forall p0, is_excl && negb offset_excluded = false ->
              mapt (SNode i p0 d kids) =
              if is_excl then SNode i (option_map spec p0) d kids
              else SNode i (option_map spec p0) d (map (fun k => match k with Some k => Some (mapt k) | None => None end) kids)).
    { intros p0 E0. cbn [map_tree]. fold is_excl. now rewrite E0. }
    destruct (is_excl && negb offset_excluded) eqn:Ex.
    { split; [|discriminate]. cbn [fst map_tree]. fold is_excl. now rewrite Ex. }
    unfold node_step. cbn [s_pos].
    set (wl := fix walk_list (l : list (option stree)) : list (option stree) * bool :=
                 match l with
                 | [] => ([], false)
                 | x :: r =>
                     let '(r', stopped) := walk_list r in
                     if stopped then (x :: r', true)
                     else match x with
                          | None => (None :: r', false)
                          | Some k => let '(k', b) := walk k in (Some k' :: r', b)
                          end
                 end).
    (* the sibling-list lemma *)
    assert (WL : forall l, (forall k, In (Some k) l -> Ordered k) -> (forall k, In (Some k) l -> In (Some k) kids) -> SibOrd l ->
               fst (wl l) = map (fun k => match k with Some k => Some (mapt k) | None => None end) l /\
               (snd (wl l) = true -> exists A k B pk, l = A ++ Some k :: B /\ s_pos k = Some pk /\ before pk)).
    { induction l as [|x r IHr]; intros HOl Hsub HS.
      - split; [reflexivity|discriminate].
      - assert (HSr : SibOrd r).
        { intros A k B pk E Epk q Hq. apply (HS (x :: A) k B pk); [now rewrite E|assumption|].
          cbn [flat_map]. apply in_or_app. now right. }
        destruct (IHr (fun k h => HOl k (or_intror h)) (fun k h => Hsub k (or_intror h)) HSr) as [I1 I2].
        cbn [wl]. fold wl. destruct (wl r) as [r' stopped] eqn:Er. cbn [fst snd] in I1, I2.
        destruct stopped.
        + destruct (I2 eq_refl) as (A & k & B & pk & E & Epk & Hb).
          split.
          * cbn [fst map]. f_equal; [|exact I1].
            destruct x as [xk|]; [|reflexivity]. f_equal. symmetry. apply mapt_inert.
            intros q Hq. apply spec_id_before.
            -- apply (ordered_wf xk (HOl xk (or_introl eq_refl)) q Hq).
            -- apply (end_le_before q pk); [|assumption].
               apply (HS (Some xk :: A) k B pk); [now rewrite E|assumption|].
               cbn [flat_map kpos]. apply in_or_app. now left.
          * intros _. exists (x :: A), k, B, pk. split; [now rewrite E|]. split; assumption.
        + destruct x as [xk|].
          * destruct (IH xk (Hsub xk (or_introl eq_refl)) (HOl xk (or_introl eq_refl))) as [J1 J2].
            destruct (walk xk) as [k' b] eqn:Ek. cbn [fst snd] in *.
            split; [cbn [map]; now rewrite J1, I1|].
            intros Hb. destruct (J2 Hb) as (pk & Epk & Hbef).
            exists [], xk, r, pk. repeat split; assumption.
          * split; [cbn [map fst]; now rewrite I1|discriminate]. }
    destruct p as [q|].
    - (* positioned node *)
      destruct q as [[[l c] el] ec]. destruct (Hp l c el ec eq_refl) as [Hw Hdesc].
      pose proof (offset_node_spec lno colo dln dcol tail head l c el ec d Hw) as Hspec.
      destruct (offset_node lno colo dln dcol tail head (l, c, el, ec) d) as [p' ct] eqn:En. cbn [fst] in Hspec.
      destruct ct.
      + (* Break: nothing in this sub-tree needed changing *)
        apply node_break in En; [|exact Hw].
        split; [|intros _; exists (l, c, el, ec); split; [reflexivity|exact En]].
        cbn [fst]. symmetry.
        apply mapt_inert. intros q Hq. apply spec_id_before.
        * apply (ordered_wf _ HO q Hq).
        * cbn [all_pos] in Hq. apply in_app_or in Hq. destruct Hq as [[<-|[]]|Hq]; [exact En|].
          apply (end_le_before q (l, c, el, ec)); [|exact En]. apply (Hdesc q Hq).
      + (* Continue: dln = 0 and every descendant is on later lines *)
        apply node_continue in En. destruct En as (Hd0 & Hl & Hdeco).
        split; [|discriminate]. rewrite (MU _ eq_refl). cbn [fst option_map]. rewrite <- Hspec.
        destruct is_excl; [reflexivity|]. f_equal.
        rewrite <- (map_id kids) at 1. apply map_ext_in. intros [k|] Hin; [|reflexivity].
        f_equal. symmetry. apply mapt_inert. intros q Hq. apply spec_id_below.
        * apply (ordered_wf k (Hk k Hin) q Hq).
        * assert (Hq' : In q (flat_map kpos kids)) by (apply in_flat_map; exists (Some k); split; assumption).
          destruct (Hdesc q Hq') as [_ Hlow]. destruct q as [[[ql qc] qel] qec]. unfold below.
          unfold lowline in Hlow. destruct d as [z|]; lia.
        * exact Hd0.
      + (* Fall: recurse into the children *)
        rewrite (MU _ eq_refl). cbn [option_map]. rewrite <- Hspec.
        destruct is_excl; [split; [reflexivity|discriminate]|].
        split; [|discriminate]. cbn [fst]. f_equal.
        apply (WL kids Hk (fun k h => h) Hs).
    - (* node without a position: always recursed into *)
      rewrite (MU _ eq_refl). cbn [option_map].
      destruct is_excl; [split; [reflexivity|discriminate]|].
      split; [|discriminate]. cbn [fst]. f_equal.
      apply (WL kids Hk (fun k h => h) Hs).
  Qed.
End WalkProofs.

(* ---- top-level entry and the two-phase offset mode ------------------------------------------------------------- *)

Lemma spec_zero lno colo tail head q : offset_spec lno colo 0 0 tail head q = q.
Proof.
  destruct q as [[[l c] el] ec]. unfold offset_spec, move_point.
  repeat match goal with
     | |- context [if ?c then _ else _] => let E := fresh "E" in destruct c eqn:E
     end; repeat match goal with |- (_, _) = (_, _) => apply f_equal2 end; lia.
Qed.

Lemma walk_kids_is_map lno colo dln dcol tail head oe kids :
  (forall k, In (Some k) kids -> Ordered k) -> SibOrd kids ->
  walk_kids lno colo dln dcol tail head None oe kids
  = map (fun k => match k with Some k => Some (map_tree lno colo dln dcol tail head None oe k) | None => None end) kids.
Proof.
  intros Hk Hs.
  assert (HO : Ordered (SNode 0 None None kids)).
  { constructor; [discriminate|assumption|assumption]. }
  destruct (walk_is_map lno colo dln dcol tail head None oe _ HO) as [H _].
  cbn [walk_tree map_tree node_step s_pos andb fst] in H. injection H as H. exact H.
Qed.

Lemma map_tree_none_is_mode_inside lno colo dln dcol self oe t :
  map_tree lno colo dln dcol TFalse TTrue None oe t = mode_map lno colo dln dcol self true t.
Proof.
  induction t as [i p d kids IH] using stree_ind'. cbn [map_tree mode_map andb orb].
  f_equal. apply map_ext_in. intros [k|] Hin; [|reflexivity]. f_equal. now apply IH.
Qed.

Theorem offset_mode_is_mode_map lno colo dln dcol self t : Ordered t ->
  offset_mode lno colo dln dcol self t = mode_map lno colo dln dcol self false t.
Proof.
  intros HO. unfold offset_mode, offset_top.
  destruct ((dln =? 0) && (dcol =? 0)) eqn:Ez.
  - (* nothing moves: both sides are the identity *)
    assert (dln = 0 /\ dcol = 0) as [-> ->] by lia. clear Ez.
    assert (G : forall b t0, mode_map lno colo 0 0 self b t0 = t0).
    { intros b t0; revert b. induction t0 as [i p d kids IH] using stree_ind'. intros b. cbn [mode_map].
      assert (Hp : option_map (if b then offset_spec lno colo 0 0 TFalse TTrue else offset_spec lno colo 0 0 TTrue TFalse) p = p).
      { destruct p as [q|]; [|reflexivity]. destruct b; cbn; now rewrite spec_zero. }
      rewrite Hp. f_equal. rewrite <- (map_id kids) at 2. apply map_ext_in.
      intros [k|] Hin; [|reflexivity]. f_equal. now apply IH. }
    rewrite G. clear G HO. induction t as [i p d kids IH] using stree_ind'. cbn [apply_at].
    destruct (Nat.eqb self i); [now destruct p|].
    f_equal. rewrite <- (map_id kids) at 2. apply map_ext_in. intros [k|] Hin; [|reflexivity]. f_equal. now apply IH.
  - destruct (walk_is_map lno colo dln dcol TTrue TFalse (Some self) true t HO) as [H1 _]. rewrite H1. clear H1.
    induction t as [i p d kids IH] using stree_ind'.
    inversion HO as [i' p' d' kids' Hp Hs Hk]; subst.
    cbn [map_tree mode_map apply_at negb andb orb].
    destruct (Nat.eqb self i) eqn:Es.
    + (* this is `self`: phase 1 moved it as a container and did not enter it; phase 2 walks its children *)
      cbn [andb negb]. cbn [apply_at]. rewrite Es.
      rewrite walk_kids_is_map by assumption.
      f_equal. apply map_ext_in. intros [k|] Hin; [|reflexivity]. f_equal. apply map_tree_none_is_mode_inside.
    + cbn [andb negb]. cbn [apply_at]. rewrite Es. f_equal. rewrite map_map. apply map_ext_in.
      intros [k|] Hin; [|reflexivity]. f_equal. apply IH; [assumption|]. now apply Hk.
Qed.

(* ---- reading the position map: before / after / containing --------------------------------------------------- *)

(* a span that starts strictly after the point moves rigidly: dln lines, and dcol on the point's line *)
Lemma spec_after lno colo dln dcol tail head l c el ec :
  pos_le l c el ec = true -> pos_lt lno colo l c = true ->
  offset_spec lno colo dln dcol tail head (l, c, el, ec)
  = (l + dln, (if l =? lno then c + dcol else c), el + dln, (if el =? lno then ec + dcol else ec)).
Proof.
  unfold pos_le, pos_lt, offset_spec, move_point. intros H1 H2.
  repeat match goal with
     | |- context [if ?c then _ else _] => let E := fresh "E" in destruct c eqn:E
     end; try (exfalso; lia); repeat match goal with |- (_, _) = (_, _) => apply f_equal2 end; lia.
Qed.

(* a container (offset-mode: tail=True, head=False) whose start is at or before the point and whose end is at or
   after it keeps its start and its end follows the change - it grows or shrinks by exactly the change *)
Lemma spec_container lno colo dln dcol l c el ec :
  pos_le l c lno colo = true -> pos_le lno colo el ec = true -> pos_lt l c el ec = true ->
  offset_spec lno colo dln dcol TTrue TFalse (l, c, el, ec)
  = (l, c, el + dln, (if el =? lno then ec + dcol else ec)).
Proof.
  unfold pos_le, pos_lt, offset_spec, move_point, start_moves_at, end_moves_at, is_fwd. cbn [tri_eqb]. intros H1 H2 H3.
  repeat match goal with
     | |- context [if ?c then _ else _] => let E := fresh "E" in destruct c eqn:E
     end; try (exfalso; lia); repeat match goal with |- (_, _) = (_, _) => apply f_equal2 end; lia.
Qed.

(* a child (offset-mode second phase: tail=False, head=True) that ends at or before the point stays, one that starts
   at or after it moves rigidly - the gap belongs to the container, never to the child *)
Lemma spec_child_before lno colo dln dcol l c el ec :
  pos_lt l c el ec = true -> pos_le el ec lno colo = true ->
  offset_spec lno colo dln dcol TFalse TTrue (l, c, el, ec) = (l, c, el, ec).
Proof.
  unfold pos_le, pos_lt, offset_spec, move_point, start_moves_at, end_moves_at, is_fwd. cbn [tri_eqb]. intros H1 H2.
  repeat match goal with
     | |- context [if ?c then _ else _] => let E := fresh "E" in destruct c eqn:E
     end; try (exfalso; lia); repeat match goal with |- (_, _) = (_, _) => apply f_equal2 end; lia.
Qed.

Lemma spec_child_after lno colo dln dcol l c el ec :
  pos_lt l c el ec = true -> pos_le lno colo l c = true ->
  offset_spec lno colo dln dcol TFalse TTrue (l, c, el, ec)
  = (l + dln, (if l =? lno then c + dcol else c), el + dln, (if el =? lno then ec + dcol else ec)).
Proof.
  unfold pos_le, pos_lt, offset_spec, move_point, start_moves_at, end_moves_at, is_fwd. cbn [tri_eqb]. intros H1 H2.
  repeat match goal with
     | |- context [if ?c then _ else _] => let E := fresh "E" in destruct c eqn:E
     end; try (exfalso; lia); repeat match goal with |- (_, _) = (_, _) => apply f_equal2 end; lia.
Qed.

(* ---- expression replacement ------------------------------------------------------------------------------------- *)

Lemma apply_at_replace_ext tgt new (f g : stree -> stree) t :
  (forall k, apply_at tgt (fun _ => new) (f k) = apply_at tgt (fun _ => new) (g k)) ->
  apply_at tgt (fun _ => new) (f t) = apply_at tgt (fun _ => new) (g t).
Proof. intros H. apply H. Qed.

(* replacing the target afterwards makes it irrelevant whether phase 2 entered the target or not *)
Lemma replace_forgets_target lno colo dln dcol self tgt new oe t :
  apply_at tgt (fun _ => new) (map_tree lno colo dln dcol TFalse TTrue (Some tgt) oe t)
  = apply_at tgt (fun _ => new) (mode_map lno colo dln dcol self true t).
Proof.
  induction t as [i p d kids IH] using stree_ind'. cbn [map_tree mode_map orb].
  destruct (Nat.eqb tgt i) eqn:E.
  - destruct oe; cbn [negb andb apply_at]; rewrite ?E; reflexivity.
  - cbn [andb apply_at]. rewrite E. f_equal. rewrite !map_map. apply map_ext_in.
    intros [k|] Hin; [|reflexivity]. f_equal. now apply IH.
Qed.

Lemma map_tree_is_map_pos lno colo dln dcol tail head t :
  map_tree lno colo dln dcol tail head None true t = map_pos (offset_spec lno colo dln dcol tail head) t.
Proof.
  induction t as [i p d kids IH] using stree_ind'. cbn [map_tree map_pos andb].
  f_equal. apply map_ext_in. intros [k|] Hin; [|reflexivity]. f_equal. now apply IH.
Qed.

Lemma map_pos_ext_in f g t : (forall q, In q (all_pos t) -> f q = g q) -> map_pos f t = map_pos g t.
Proof.
  induction t as [i p d kids IH] using stree_ind'. intros H. cbn [map_pos]. f_equal.
  - destruct p as [q|]; [|reflexivity]. cbn. f_equal. apply H. cbn. now left.
  - apply map_ext_in. intros [k|] Hin; [|reflexivity]. f_equal. apply IH; [assumption|].
    intros q Hq. apply H. cbn [all_pos]. apply in_or_app. right. apply in_flat_map. exists (Some k). now split.
Qed.

(* the standalone new tree lands rigidly at (ln0, dcol0) *)
Theorem rigid_is_rigid_pos ln0 dcol0 new : Ordered new -> standalone new ->
  rigid ln0 dcol0 new = map_pos (rigid_pos ln0 dcol0) new.
Proof.
  intros HO Hs. unfold rigid, offset_top.
  destruct ((ln0 =? 0) && (dcol0 =? 0)) eqn:Ez.
  - assert (ln0 = 0 /\ dcol0 = 0) as [-> ->] by lia.
    symmetry. rewrite <- (fun t => map_pos_ext_in (fun q => q) _ t) .
    + clear. induction new as [i p d kids IH] using stree_ind'. cbn [map_pos]. f_equal; [now destruct p|].
      rewrite <- (map_id kids) at 2. apply map_ext_in. intros [k|] Hin; [|reflexivity]. f_equal. now apply IH.
    + intros [[[l c] el] ec] _. unfold rigid_pos. repeat match goal with |- context [if ?c then _ else _] => destruct c end;
        repeat match goal with |- (_, _) = (_, _) => apply f_equal2 end; lia.
  - destruct (walk_is_map 1 0 ln0 dcol0 TFalse TTrue None true new HO) as [H _]. rewrite H.
    rewrite map_tree_is_map_pos. apply map_pos_ext_in.
    intros [[[l c] el] ec] Hq. destruct (Hs _ Hq) as [H1 H2]. unfold rigid_pos. now apply spec_child_after.
Qed.

Lemma apply_at_node s f i p d kids :
  apply_at s f (SNode i p d kids)
  = if Nat.eqb s i then f (SNode i p d kids)
    else SNode i p d (map (fun k => match k with Some k => Some (apply_at s f k) | None => None end) kids).
Proof. reflexivity. Qed.

Theorem expr_replace_is_mode_map lno colo dln dcol parent target ln0 dcol0 new t :
  Ordered t -> Ordered new -> standalone new ->
  expr_replace lno colo dln dcol parent target ln0 dcol0 new t
  = apply_at target (fun _ => map_pos (rigid_pos ln0 dcol0) new) (mode_map lno colo dln dcol parent false t).
Proof.
  intros HO HOn Hs. unfold expr_replace. rewrite (rigid_is_rigid_pos ln0 dcol0 new HOn Hs).
  set (new' := map_pos (rigid_pos ln0 dcol0) new).
  unfold offset_top.
  destruct ((dln =? 0) && (dcol =? 0)) eqn:Ez.
  - assert (dln = 0 /\ dcol = 0) as [-> ->] by lia. clear Ez.
    assert (G : forall b t0, mode_map lno colo 0 0 parent b t0 = t0).
    { intros b t0; revert b. induction t0 as [i p d kids IH] using stree_ind'. intros b. cbn [mode_map].
      assert (Hp : option_map (if b then offset_spec lno colo 0 0 TFalse TTrue else offset_spec lno colo 0 0 TTrue TFalse) p = p).
      { destruct p as [q|]; [|reflexivity]. destruct b; cbn; now rewrite spec_zero. }
      rewrite Hp. f_equal. rewrite <- (map_id kids) at 2. apply map_ext_in.
      intros [k|] Hin; [|reflexivity]. f_equal. now apply IH. }
    rewrite G. f_equal. clear. induction t as [i p d kids IH] using stree_ind'. cbn [apply_at].
    destruct (Nat.eqb parent i); [now destruct p|].
    f_equal. rewrite <- (map_id kids) at 2. apply map_ext_in. intros [k|] Hin; [|reflexivity]. f_equal. now apply IH.
  - destruct (walk_is_map lno colo dln dcol TTrue TFalse (Some parent) true t HO) as [H1 _]. rewrite H1. clear H1.
    induction t as [i p d kids IH] using stree_ind'.
    inversion HO as [i' p' d' kids' Hp Hsb Hk]; subst.
    cbn [map_tree mode_map negb andb orb].
    destruct (Nat.eqb parent i) eqn:Es.
    + cbn [andb negb]. rewrite (apply_at_node parent), Es. cbv beta iota.
      destruct (Nat.eqb target i) eqn:Et.
      { rewrite !apply_at_node, Et. reflexivity. }
      assert (WK : walk_kids lno colo dln dcol TFalse TTrue (Some target) true kids
                   = map (fun k => match k with Some k => Some (map_tree lno colo dln dcol TFalse TTrue (Some target) true k) | None => None end) kids).
      { assert (HO2 : Ordered (SNode i None None kids)) by (constructor; [discriminate|assumption|assumption]).
        destruct (walk_is_map lno colo dln dcol TFalse TTrue (Some target) true _ HO2) as [H _].
        cbn [walk_tree map_tree node_step s_pos fst] in H. rewrite Et in H. cbn [andb fst] in H. injection H as H. exact H. }
      rewrite !apply_at_node, Et. rewrite WK. f_equal. rewrite !map_map. apply map_ext_in.
      intros [k|] Hin; [|reflexivity]. f_equal. apply replace_forgets_target.
    + cbn [andb negb]. rewrite (apply_at_node parent), Es. rewrite !apply_at_node.
      destruct (Nat.eqb target i) eqn:Et; [reflexivity|].
      f_equal. rewrite !map_map. apply map_ext_in.
      intros [k|] Hin; [|reflexivity]. f_equal. apply IH; [assumption|]. now apply Hk.
Qed.
