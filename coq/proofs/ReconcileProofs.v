(* reconcile returns a tree structurally equal to the edited tree; without changes nothing is put and the marked tree
   (with all its formatting) is returned; an untouched in-place sub-tree keeps all its formatting whatever happens
   around it. *)
From Coq Require Import List Bool Arith Lia.
From PF Require Import models.Reconcile.
Import ListNotations.

Section Ind.
  Variable P : rt -> Prop.
  Hypothesis H : forall i l k, Forall P k -> P (RT i l k).
  Fixpoint rt_ind' (t : rt) : P t :=
    let 'RT i l k := t in
    H i l k ((fix go (k : list rt) : Forall P k := match k with [] => Forall_nil P | x :: r => Forall_cons x (rt_ind' x) (go r) end) k).
End Ind.

Lemma shape_idem t : shape (shape t) = shape t.
Proof.
  induction t as [i l k IH] using rt_ind'. simpl. f_equal. rewrite map_map.
  induction IH as [|x r Hx _ IHr]; simpl; [reflexivity|]. rewrite Hx, IHr. reflexivity.
Qed.

Definition go_rec (M : rt) (ff' : bool) :=
  fix go (ws os : list rt) : list rt * nat :=
    match ws, os with
    | w' :: ws', o' :: os' =>
        let r1 := rec M w' o' ff' in
        let rs := go ws' os' in
        (fst r1 :: fst rs, snd r1 + snd rs)
    | _, _ => ([], 0)
    end.

Lemma rec_unfold M wid wl wk o ff :
  rec M (RT wid wl wk) o ff =
    let base : rt * nat :=
      match wid with
      | None => if ff then (unfmt (RT wid wl wk), 1) else (o, 0)
      | Some k => if ff && oid_eqb (rid o) (Some k) then (o, 0)
                  else match lookup M k with Some m => (m, 1) | None => (unfmt (RT wid wl wk), 1) end
      end in
    let o1 := fst base in
    let n1 := snd base in
    let ff' := match rid o1 with Some _ => true | None => false end in
    let n2 := if Nat.eqb (rlabel o1) wl then n1 else S n1 in
    if Nat.eqb (length (rkids o1)) (length wk) then
      let r := go_rec M ff' wk (rkids o1) in
      (RT (rid o1) wl (fst r), n2 + snd r)
    else (unfmt (RT wid wl wk), S n1).
Proof. reflexivity. Qed.

(* ---- structural equality with the edited tree ---- *)
Lemma go_shape M ff' ws : Forall (fun w => forall o ff, (ff = false -> shape o = shape w) -> shape (fst (rec M w o ff)) = shape w) ws ->
  forall os, length os = length ws -> (ff' = false -> map shape os = map shape ws) ->
  map shape (fst (go_rec M ff' ws os)) = map shape ws.
Proof.
  intros HF. induction HF as [|w ws Hw _ IH]; intros os Hl Hs; destruct os as [|o os]; simpl in *; try discriminate; [reflexivity|].
  f_equal.
  - apply Hw. intros Hf. specialize (Hs Hf). congruence.
  - apply IH; [lia|]. intros Hf. specialize (Hs Hf). congruence.
Qed.

Lemma lookup_id M k : forall m, lookup M k = Some m -> rid m = Some k.
Proof.
  induction M as [i l ks IHM] using rt_ind'. intros m Hm. simpl in Hm.
  destruct (oid_eqb i (Some k)) eqn:Hi.
  - injection Hm as <-. simpl. destruct i as [j|]; simpl in Hi; [|discriminate]. apply Nat.eqb_eq in Hi. congruence.
  - induction IHM as [|x r Hx _ IHr]; [discriminate|].
    destruct (lookup x k) as [t|] eqn:Hx'.
    + injection Hm as <-. apply Hx. reflexivity.
    + apply IHr. exact Hm.
Qed.

Lemma oid_eqb_eq a b : oid_eqb a b = true -> a = b.
Proof. destruct a, b; simpl; try discriminate; [|reflexivity]. intros H. apply Nat.eqb_eq in H. congruence. Qed.

Definition base_of (M : rt) (wid : option nat) (w o : rt) (ff : bool) : rt * nat :=
  match wid with
  | None => if ff then (unfmt w, 1) else (o, 0)
  | Some k => if ff && oid_eqb (rid o) (Some k) then (o, 0)
              else match lookup M k with Some m => (m, 1) | None => (unfmt w, 1) end
  end.

Lemma base_unformatted M wid w o ff :
  rid (fst (base_of M wid w o ff)) = None -> (ff = false -> shape o = shape w) -> shape (fst (base_of M wid w o ff)) = shape w.
Proof.
  unfold base_of. intros Hn Hpre. destruct wid as [k|].
  - destruct (ff && oid_eqb (rid o) (Some k)) eqn:Hin.
    + apply andb_true_iff in Hin. destruct Hin as [_ Hid]. apply oid_eqb_eq in Hid. simpl in Hn. congruence.
    + destruct (lookup M k) as [m|] eqn:Hm; [|apply shape_idem].
      simpl in Hn. rewrite (lookup_id M k m Hm) in Hn. discriminate.
  - destruct ff; [apply shape_idem|]. simpl. apply Hpre. reflexivity.
Qed.

Theorem rec_shape M w : forall o ff, (ff = false -> shape o = shape w) -> shape (fst (rec M w o ff)) = shape w.
Proof.
  induction w as [wid wl wk IH] using rt_ind'. intros o ff Hpre. rewrite rec_unfold. cbv zeta.
  change (match wid with None => if ff then (unfmt (RT wid wl wk), 1) else (o, 0) | Some k => _ end)
    with (base_of M wid (RT wid wl wk) o ff).
  set (base := base_of M wid (RT wid wl wk) o ff).
  destruct (Nat.eqb (length (rkids (fst base))) (length wk)) eqn:Hlen; [|apply shape_idem].
  apply Nat.eqb_eq in Hlen. cbn [fst shape]. f_equal.
  apply go_shape; [exact IH|exact Hlen|].
  intros Hff.
  assert (Hn : rid (fst base) = None) by (destruct (rid (fst base)); [discriminate|reflexivity]).
  pose proof (base_unformatted M wid (RT wid wl wk) o ff Hn Hpre) as Hb. fold base in Hb.
  destruct (fst base) as [bi bl bk]. simpl in Hb. injection Hb as _ Hk. exact Hk.
Qed.

Theorem reconcile_structurally_equal M w : shape (fst (reconcile M w)) = shape w.
Proof. unfold reconcile. apply rec_shape. discriminate. Qed.

(* ---- nothing changed: nothing put, everything kept ---- *)
Lemma go_same M ws : Forall (fun t => all_marked t = true -> rec M t t true = (t, 0)) ws ->
  forallb all_marked ws = true -> go_rec M true ws ws = (ws, 0).
Proof.
  intros HF. induction HF as [|w ws Hw _ IH]; intros Hm; [reflexivity|].
  simpl in Hm. apply andb_true_iff in Hm. destruct Hm as [Hm1 Hm2].
  simpl. rewrite (Hw Hm1), (IH Hm2). reflexivity.
Qed.

Theorem rec_unchanged M t : all_marked t = true -> rec M t t true = (t, 0).
Proof.
  induction t as [i l k IH] using rt_ind'. intros Hm. simpl in Hm.
  destruct i as [j|]; [|discriminate].
  rewrite rec_unfold. cbv zeta. cbn [rid andb oid_eqb]. rewrite Nat.eqb_refl. cbn [fst snd rid rlabel rkids].
  rewrite !Nat.eqb_refl. rewrite (go_same M k IH Hm). reflexivity.
Qed.

Theorem reconcile_no_change M : all_marked M = true -> reconcile M M = (M, 0).
Proof. apply rec_unchanged. Qed.

(* ---- an untouched child that is still in place keeps everything, whatever happened to its siblings ---- *)
Theorem untouched_child_kept M ff' : forall ws os i t,
  ff' = true -> nth_error ws i = Some t -> nth_error os i = Some t -> all_marked t = true ->
  nth_error (fst (go_rec M ff' ws os)) i = Some t.
Proof.
  induction ws as [|w ws IH]; intros os i t Hff Hw Ho Hm; [destruct i; discriminate|].
  destruct os as [|o os]; [destruct i; discriminate|].
  destruct i as [|i]; simpl in *.
  - injection Hw as ->. injection Ho as ->. subst ff'. rewrite (rec_unchanged M t Hm). reflexivity.
  - apply IH; assumption.
Qed.
