From Coq Require Import List Bool Arith ZArith Lia.
From PF Require Import kernel.OffsetBase models.Cache.
Import ListNotations.

Section P.
  Variable answer : npos -> Z.
  Notation coh := (coherent answer).

  Lemma ask_coherent n : coh n -> coh (fst (ask answer n)) /\ snd (ask answer n) = answer (c_pos (fst (ask answer n)))
                         /\ c_pos (fst (ask answer n)) = c_pos n.
  Proof.
    intros H. unfold ask. destruct (c_cache n) as [v|] eqn:E; cbn.
    - split; [exact H|]. split; [now apply H|reflexivity].
    - split; [intros v [= <-]; reflexivity|]. split; reflexivity.
  Qed.

  Lemma pass_coherent mv v n : coh n -> coh (pass_node mv v n).
  Proof. intros H. unfold pass_node. destruct v; [intros w; cbn; discriminate|exact H]. Qed.

  Lemma update_nth_forall l i f : Forall coh l -> (forall n, coh n -> coh (f n)) -> Forall coh (update_nth l i f).
  Proof.
    revert i; induction l as [|x r IH]; intros i H Hf; [constructor|]. inversion H; subst.
    destruct i; cbn; constructor; auto.
  Qed.

  Lemma zipw_forall mv vs l : Forall coh l -> Forall coh (zipw mv vs l).
  Proof.
    revert vs; induction l as [|x r IH]; intros vs H; [destruct vs; constructor|]. inversion H; subst.
    destruct vs as [|v vr]; cbn; [assumption|]. constructor; [now apply pass_coherent|now apply IH].
  Qed.

  (* no stale answer, ever: coherence is preserved by any interleaving of queries and (any) passes *)
  Theorem coherent_history ops : forall l, Forall coh l -> Forall coh (fold_left (cstep answer) ops l).
  Proof.
    induction ops as [|o ops IH]; intros l H; [exact H|]. cbn [fold_left]. apply IH.
    destruct o as [i|mv vs]; cbn [cstep].
    - apply update_nth_forall; [assumption|]. intros n Hn. now destruct (ask_coherent n Hn).
    - now apply zipw_forall.
  Qed.

  (* queries never change positions, so the positions after a history do not depend on which queries were interleaved *)
  Fixpoint no_asks (ops : list (cop)) : list (cop) :=
    match ops with [] => [] | Ask _ :: r => no_asks r | o :: r => o :: no_asks r end.

  Lemma positions_update_nth l i : positions (update_nth l i (fun n => fst (ask answer n))) = positions l.
  Proof.
    revert i; induction l as [|x r IH]; intros i; [reflexivity|]. destruct i; cbn.
    - unfold positions. cbn. f_equal. unfold ask. destruct (c_cache x); reflexivity.
    - unfold positions in *. cbn. f_equal. apply IH.
  Qed.

  Lemma positions_zipw mv vs l l' : positions l = positions l' -> positions (zipw mv vs l) = positions (zipw mv vs l').
  Proof.
    revert vs l'; induction l as [|x r IH]; intros vs l' H; destruct l' as [|y r']; try discriminate; [destruct vs; reflexivity|].
    unfold positions in H. cbn in H. injection H as Hx Hr. destruct vs as [|v vr]; cbn.
    - unfold positions. cbn. now rewrite Hx, Hr.
    - unfold positions. cbn. f_equal; [unfold pass_node; destruct v; cbn; congruence|]. apply IH. exact Hr.
  Qed.

  Theorem positions_query_independent ops : forall l l', positions l = positions l' ->
    positions (fold_left (cstep answer) ops l) = positions (fold_left (cstep answer) (no_asks ops) l').
  Proof.
    induction ops as [|o ops IH]; intros l l' H; [exact H|]. destruct o as [i|mv vs]; cbn [fold_left no_asks cstep].
    - apply IH. now rewrite positions_update_nth.
    - apply IH. now apply positions_zipw.
  Qed.

  (* hence the ANSWER obtained after any history equals the answer a never-queried tree gives at the same point *)
  Theorem answers_query_independent ops l l' i n n' :
    Forall coh l -> Forall coh l' -> positions l = positions l' ->
    nth_error (fold_left (cstep answer) ops l) i = Some n ->
    nth_error (fold_left (cstep answer) (no_asks ops) l') i = Some n' ->
    snd (ask answer n) = snd (ask answer n').
  Proof.
    intros Hl Hl' Hp Hn Hn'.
    pose proof (coherent_history ops l Hl) as C1. pose proof (coherent_history (no_asks ops) l' Hl') as C2.
    pose proof (positions_query_independent ops l l' Hp) as P.
    assert (E : c_pos n = c_pos n').
    { unfold positions in P. apply (f_equal (fun m => nth_error m i)) in P. rewrite !nth_error_map, Hn, Hn' in P. cbn in P. congruence. }
    rewrite Forall_forall in C1, C2. apply nth_error_In in Hn, Hn'.
    destruct (ask_coherent n (C1 _ Hn)) as (_ & A1 & P1). destruct (ask_coherent n' (C2 _ Hn')) as (_ & A2 & P2).
    rewrite A1, A2, P1, P2, E. reflexivity.
  Qed.
End P.
