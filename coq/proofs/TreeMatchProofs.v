(* Proofs about models/TreeMatch.v: the pattern built from a tree matches exactly that tree; a wildcard matches whatever stands in its place. *)
From Coq Require Import List Bool Arith ZArith NArith Lia.
From PF Require Import models.TreeMatch.
Import ListNotations.

Lemma ln_eqb_eq a : forall b, ln_eqb a b = true <-> a = b.
Proof.
  induction a as [|x a IH]; intros [|y b]; cbn [ln_eqb]; split; intros H; try reflexivity; try discriminate.
  - apply andb_true_iff in H as [H1 H2]. apply N.eqb_eq in H1. apply IH in H2. now subst.
  - injection H as -> ->. rewrite N.eqb_refl. cbn [andb]. now apply IH.
Qed.

Lemma prim_eqb_eq a b : prim_eqb a b = true <-> a = b.
Proof.
  destruct a, b; cbn [prim_eqb]; split; intros H; try reflexivity; try discriminate;
    try (apply Bool.eqb_prop in H; now subst); try (apply Z.eqb_eq in H; now subst); try (apply ln_eqb_eq in H; now subst);
    try (injection H as ->; try apply Bool.eqb_reflx; try apply Z.eqb_refl; now apply ln_eqb_eq).
Qed.

(* induction over rose trees *)
Fixpoint tree_ind' (P : tree -> Prop) (HL : forall p, P (Leaf p))
  (HN : forall k kids, Forall P kids -> P (Node k kids)) (t : tree) : P t :=
  match t with
  | Leaf p => HL p
  | Node k kids =>
      HN k kids ((fix go (l : list tree) : Forall P l :=
                    match l with [] => Forall_nil P | x :: l' => Forall_cons x (tree_ind' P HL HN x) (go l') end) kids)
  end.

Definition go_match := fix go (ps : list ptree) (ts : list tree) : bool :=
  match ps, ts with [] , [] => true | p' :: ps', t' :: ts' => tmatch p' t' && go ps' ts' | _, _ => false end.

Lemma tmatch_node k ps k' ts : tmatch (TNode k ps) (Node k' ts) = Nat.eqb k k' && go_match ps ts.
Proof. reflexivity. Qed.

(* every tree matches the pattern built from itself *)
Theorem tmatch_refl : forall t, tmatch (of_tree t) t = true.
Proof.
  induction t as [p|k kids IH] using tree_ind'.
  - cbn [of_tree tmatch]. now apply prim_eqb_eq.
  - cbn [of_tree]. rewrite tmatch_node, Nat.eqb_refl. cbn [andb].
    induction IH as [|x l Hx _ IHl]; cbn [map go_match]; [reflexivity|]. now rewrite Hx.
Qed.

(* the pattern built from a tree matches only that tree *)
Theorem tmatch_eq : forall p t, tmatch (of_tree p) t = true -> p = t.
Proof.
  induction p as [a|k ps IH] using tree_ind'; intros t Hm.
  - destruct t as [b|k' ts]; [|cbn in Hm; discriminate]. cbn [of_tree tmatch] in Hm. apply prim_eqb_eq in Hm. now subst.
  - destruct t as [b|k' ts]; [cbn in Hm; discriminate|]. cbn [of_tree] in Hm.
    rewrite tmatch_node in Hm. apply andb_true_iff in Hm as [Hk Hg]. apply Nat.eqb_eq in Hk. subst k'. f_equal.
    revert ts Hg. induction IH as [|x l Hx _ IHl]; intros [|y ts] Hg; cbn [map go_match] in Hg; try discriminate; [reflexivity|].
    apply andb_true_iff in Hg as [Hg1 Hg2]. f_equal; [now apply Hx | now apply IHl].
Qed.

Corollary tmatch_is_equality p t : tmatch (of_tree p) t = true <-> p = t.
Proof. split; [apply tmatch_eq | intros ->; apply tmatch_refl]. Qed.

(* one differing leaf (or sub-tree) anywhere: no match, in either direction *)
Corollary differs_somewhere_no_match t path new : put_at path new t <> t ->
  tmatch (of_tree (put_at path new t)) t = false /\ tmatch (of_tree t) (put_at path new t) = false.
Proof.
  intros Hne. split.
  - destruct (tmatch (of_tree (put_at path new t)) t) eqn:E; [|reflexivity]. exfalso. apply Hne. now apply tmatch_eq.
  - destruct (tmatch (of_tree t) (put_at path new t)) eqn:E; [|reflexivity]. exfalso. apply Hne. symmetry. now apply tmatch_eq.
Qed.

(* a wildcard accepts anything in its place: the pattern of t with a wildcard at a path matches every tree that differs from t only at that path *)
Theorem wildcard_accepts_anything t : tmatch TAny t = true.
Proof. reflexivity. Qed.

Theorem wildcard_at_path : forall path t new, tmatch (any_at path (of_tree t)) (put_at path new t) = true.
Proof.
  induction path as [|i rest IH]; intros t new; [reflexivity|].
  destruct t as [p|k kids]; [cbn [of_tree any_at put_at tmatch]; now apply prim_eqb_eq|].
  cbn [of_tree any_at put_at]. rewrite tmatch_node, Nat.eqb_refl. cbn [andb].
  revert i. induction kids as [|x l IHl]; intros i; cbn [map]; [reflexivity|].
  destruct i as [|i']; cbn [go_match].
  - rewrite IH. cbn [andb]. clear. induction l as [|y l IHl]; cbn [map go_match]; [reflexivity|]. now rewrite tmatch_refl.
  - rewrite tmatch_refl. cbn [andb]. apply IHl.
Qed.

Example falsy_leaves_differ :
  map (fun t => tmatch (of_tree (Node 5 [Leaf VNone])) (Node 5 [t])) [Leaf VNone; Leaf (VInt 0); Leaf (VBool false); Leaf (VStr []); Leaf (VBytes []); Leaf (VNum [48%N; 46%N; 48%N]); Leaf VDots]
  = [true; false; false; false; false; false; false]
  /\ map (fun t => tmatch (TNode 5 [TAny]) (Node 5 [t])) [Leaf VNone; Leaf (VInt 0); Leaf VDots] = [true; true; true].
Proof. split; reflexivity. Qed.
