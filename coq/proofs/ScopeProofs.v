(* The scope-restricted walk yields exactly the nodes the declarative assignment gives to that scope. *)
From Coq Require Import List Bool Arith Lia.
From PF Require Import models.Scope.
Import ListNotations.

Section Ind.
  Variable P : snode -> Prop.
  Hypothesis H : forall i k w outer inner, Forall P outer -> Forall P inner -> P (SN i k w outer inner).
  Fixpoint snode_ind' (t : snode) : P t :=
    let 'SN i k w outer inner := t in
    H i k w outer inner
      ((fix go (l : list snode) : Forall P l := match l with [] => Forall_nil P | x :: r => Forall_cons x (snode_ind' x) (go r) end) outer)
      ((fix go (l : list snode) : Forall P l := match l with [] => Forall_nil P | x :: r => Forall_cons x (snode_ind' x) (go r) end) inner).
End Ind.

Lemma in_flat_map_forall {A B} (f g : A -> list B) (Q : A -> Prop) l x :
  Forall Q l -> (forall a, Q a -> (In x (f a) <-> In x (g a))) -> (In x (flat_map f l) <-> In x (flat_map g l)).
Proof.
  intros HF Hq. induction HF as [|a l Ha _ IH]; simpl; [tauto|].
  rewrite !in_app_iff, (Hq a Ha), IH. tauto.
Qed.

(* owners come from the chain or are scopes inside the sub-tree *)
Lemma assign_owner chain t x c : In (x, c) (assign chain t) -> In c chain \/ In c (ids t).
Proof.
  revert chain. induction t as [i k w outer inner IHo IHi] using snode_ind'. intros chain Hin.
  cbn [assign] in Hin. apply in_app_or in Hin. destruct Hin as [Hin|Hin].
  - destruct chain as [|cur above]; [destruct Hin|].
    destruct Hin as [Heq|Hin]; [injection Heq as _ <-; left; left; reflexivity|].
    destruct w; [|destruct Hin]. apply in_map_iff in Hin. destruct Hin as [c' [Heq Hc']].
    injection Heq as _ <-. left. right. exact Hc'.
  - apply in_app_or in Hin. destruct Hin as [Hin|Hin]; apply in_flat_map in Hin; destruct Hin as [t' [Ht' Hin]].
    + rewrite Forall_forall in IHo. destruct (IHo t' Ht' _ Hin) as [Hc|Hc]; [left; exact Hc|].
      right. cbn [ids]. right. apply in_or_app. left. apply in_flat_map. exists t'. auto.
    + rewrite Forall_forall in IHi. destruct (IHi t' Ht' _ Hin) as [Hc|Hc].
      * destruct k as [|[|]]; [left; exact Hc| |].
        -- destruct Hc as [<-|Hc]; [right; left; reflexivity|left; exact Hc].
        -- destruct Hc as [<-|[]]. right. left. reflexivity.
      * right. cbn [ids]. right. apply in_or_app. right. apply in_flat_map. exists t'. auto.
Qed.

Lemma nodup_app_l {A} (a b : list A) : NoDup (a ++ b) -> NoDup a.
Proof. induction a as [|x a IH]; intros H; [constructor|]. simpl in H. apply NoDup_cons_iff in H. destruct H as [Hx H].
  constructor; [intros Hin; apply Hx; apply in_or_app; left; exact Hin|exact (IH H)]. Qed.

Lemma nodup_app_r {A} (a b : list A) : NoDup (a ++ b) -> NoDup b.
Proof. induction a as [|x a IH]; intros H; [exact H|]. simpl in H. apply NoDup_cons_iff in H. exact (IH (proj2 H)). Qed.

Lemma nodup_flat_map_in {A B} (f : A -> list B) l a : NoDup (flat_map f l) -> In a l -> NoDup (f a).
Proof.
  induction l as [|b l IH]; intros H Hin; [destruct Hin|].
  simpl in H. destruct Hin as [->|Hin]; [exact (nodup_app_l _ _ H)|exact (IH (nodup_app_r _ _ H) Hin)].
Qed.

(* unique ids: the pieces of a node *)
Lemma ids_parts i k w outer inner : NoDup (ids (SN i k w outer inner)) ->
  (forall t', In t' outer \/ In t' inner -> NoDup (ids t') /\ ~ In i (ids t')).
Proof.
  cbn [ids]. intros H t' Ht'. apply NoDup_cons_iff in H. destruct H as [Hi H]. split.
  - destruct Ht' as [Ht'|Ht']; [exact (nodup_flat_map_in ids outer t' (nodup_app_l _ _ H) Ht')|exact (nodup_flat_map_in ids inner t' (nodup_app_r _ _ H) Ht')].
  - intros Hin. apply Hi. apply in_or_app. destruct Ht' as [Ht'|Ht']; [left|right]; apply in_flat_map; exists t'; auto.
Qed.

(* what a sub-tree traversed with `chain` gives to a scope c of the chain: the walk if c is the current scope, the
   hoisted walrus targets if c is above it *)
Lemma assign_chain t : forall chain c x, In c chain -> NoDup chain -> NoDup (ids t) -> (forall c', In c' chain -> ~ In c' (ids t)) ->
  (In (x, c) (assign chain t) <-> In x (if Nat.eqb c (hd c chain) then visit t else hoisted t)).
Proof.
  induction t as [i k w outer inner IHo IHi] using snode_ind'. intros chain c x Hc Hnd Hids Hdis.
  pose proof (ids_parts i k w outer inner Hids) as Hparts.
  assert (Hich : ~ In i chain) by (intros Hin; apply (Hdis i Hin); left; reflexivity).
  assert (Hno : forall t', In t' outer -> forall c', In c' chain -> ~ In c' (ids t')).
  { intros t' Ht' c' Hc' Hin. apply (Hdis c' Hc'). cbn [ids]. right. apply in_or_app. left. apply in_flat_map. exists t'. auto. }
  assert (Hni : forall t', In t' inner -> forall c', In c' chain -> ~ In c' (ids t')).
  { intros t' Ht' c' Hc' Hin. apply (Hdis c' Hc'). cbn [ids]. right. apply in_or_app. right. apply in_flat_map. exists t'. auto. }
  destruct chain as [|cur above]; [destruct Hc|]. cbn [hd].
  pose proof Hnd as Hnd0. apply NoDup_cons_iff in Hnd. destruct Hnd as [Hcur Hnd].
  cbn [assign]. rewrite !in_app_iff.
  assert (Hhere : In (x, c) ((i, cur) :: (if w then map (pair i) above else [])) <->
                  In x (if Nat.eqb c cur then [i] else if w then [i] else [])).
  { destruct (Nat.eqb_spec c cur) as [->|Hne].
    - split.
      + intros [H|H]; [injection H as <-; left; reflexivity|].
        destruct w; [|destruct H]. apply in_map_iff in H. destruct H as [c' [Heq Hc']]. injection Heq as _ <-. contradiction.
      + intros [<-|[]]. left. reflexivity.
    - destruct Hc as [Hc|Hc]; [congruence|]. split.
      + intros [H|H]; [injection H as _ H; congruence|].
        destruct w; [|destruct H]. apply in_map_iff in H. destruct H as [c' [Heq _]]. injection Heq as <- _. left. reflexivity.
      + destruct w; [|intros []]. intros [<-|[]]. right. apply in_map. exact Hc. }
  assert (Hsplit : forall (b : bool) (l : list snode), flat_map (fun t' => if b then visit t' else hoisted t') l = if b then flat_map visit l else flat_map hoisted l)
    by (intros [|] l; reflexivity).
  assert (Ho : In (x, c) (flat_map (assign (cur :: above)) outer) <->
               In x (if Nat.eqb c cur then flat_map visit outer else flat_map hoisted outer)).
  { rewrite <- Hsplit. rewrite !in_flat_map. rewrite Forall_forall in IHo.
    split; intros [t' [Ht' Hin]]; exists t'; (split; [exact Ht'|]);
      apply (IHo t' Ht' (cur :: above) c x Hc Hnd0 (proj1 (Hparts t' (or_introl Ht'))) (Hno t' Ht')); exact Hin. }
  destruct k as [|[|]].
  - (* plain: same chain below *)
    assert (Hi : In (x, c) (flat_map (assign (cur :: above)) inner) <->
                 In x (if Nat.eqb c cur then flat_map visit inner else flat_map hoisted inner)).
    { rewrite <- Hsplit. rewrite !in_flat_map. rewrite Forall_forall in IHi.
      split; intros [t' [Ht' Hin]]; exists t'; (split; [exact Ht'|]);
        apply (IHi t' Ht' (cur :: above) c x Hc Hnd0 (proj1 (Hparts t' (or_intror Ht'))) (Hni t' Ht')); exact Hin. }
    rewrite Hhere, Ho, Hi. cbn [visit hoisted]. destruct (Nat.eqb c cur); destruct w; cbn [In app]; rewrite ?in_app_iff; tauto.
  - (* nested comprehension: the chain grows by i; c is above the new current scope, so it gets the hoisted targets *)
    assert (Hci : Nat.eqb c i = false).
    { apply Nat.eqb_neq. intros ->. exact (Hich Hc). }
    assert (Hdis' : forall t', In t' inner -> forall c', In c' (i :: cur :: above) -> ~ In c' (ids t')).
    { intros t' Ht' c' [<-|Hc']; [exact (proj2 (Hparts t' (or_intror Ht')))|exact (Hni t' Ht' c' Hc')]. }
    assert (Hi : In (x, c) (flat_map (assign (i :: cur :: above)) inner) <-> In x (flat_map hoisted inner)).
    { rewrite !in_flat_map. rewrite Forall_forall in IHi.
      split; intros [t' [Ht' Hin]]; exists t'; (split; [exact Ht'|]).
      - pose proof (proj1 (IHi t' Ht' (i :: cur :: above) c x (or_intror Hc) (NoDup_cons _ Hich Hnd0)
                             (proj1 (Hparts t' (or_intror Ht'))) (Hdis' t' Ht')) Hin) as H.
        cbn [hd] in H. rewrite Hci in H. exact H.
      - apply (IHi t' Ht' (i :: cur :: above) c x (or_intror Hc) (NoDup_cons _ Hich Hnd0)
                  (proj1 (Hparts t' (or_intror Ht'))) (Hdis' t' Ht')).
        cbn [hd]. rewrite Hci. exact Hin. }
    rewrite Hhere, Ho, Hi. cbn [visit hoisted]. destruct (Nat.eqb c cur); destruct w; cbn [In app]; rewrite ?in_app_iff; tauto.
  - (* nested function / class / lambda: the chain restarts, nothing below is given to c *)
    assert (Hi : ~ In (x, c) (flat_map (assign [i]) inner)).
    { intros Hin. apply in_flat_map in Hin. destruct Hin as [t' [Ht' Hin]].
      destruct (assign_owner _ _ _ _ Hin) as [[<-|[]]|Hc'].
      - exact (Hich Hc).
      - exact (Hni t' Ht' c Hc Hc'). }
    rewrite Hhere, Ho. cbn [visit hoisted]. rewrite !app_nil_r.
    destruct (Nat.eqb c cur); destruct w; cbn [In app]; rewrite ?in_app_iff; tauto.
Qed.

(* the walk from ANY scope root yields exactly what the rule assigns to that scope *)
Theorem own_is_assigned i comp w outer inner above x :
  NoDup (ids (SN i (KScope comp) w outer inner)) -> NoDup (i :: above) ->
  (forall c', In c' (i :: above) -> ~ In c' (flat_map ids inner)) ->
  (In x (own (SN i (KScope comp) w outer inner)) <-> In (x, i) (flat_map (assign (i :: above)) inner)).
Proof.
  intros Hids Hnd Hdis. pose proof (ids_parts _ _ _ _ _ Hids) as Hparts.
  unfold own. rewrite !in_flat_map.
  split; intros [t' [Ht' Hin]]; exists t'; (split; [exact Ht'|]).
  - apply (assign_chain t' (i :: above) i x (or_introl eq_refl) Hnd (proj1 (Hparts t' (or_intror Ht')))).
    + intros c' Hc' Hin'. apply (Hdis c' Hc'). apply in_flat_map. exists t'. auto.
    + cbn [hd]. rewrite Nat.eqb_refl. exact Hin.
  - pose proof (proj1 (assign_chain t' (i :: above) i x (or_introl eq_refl) Hnd (proj1 (Hparts t' (or_intror Ht')))
                         ltac:(intros c' Hc' Hin'; apply (Hdis c' Hc'); apply in_flat_map; exists t'; auto)) Hin) as H.
    cbn [hd] in H. rewrite Nat.eqb_refl in H. exact H.
Qed.

(* no walrus targets: every node other than the root belongs to exactly one scope *)
Fixpoint no_walrus (t : snode) : bool :=
  let 'SN _ _ w outer inner := t in negb w && forallb no_walrus outer && forallb no_walrus inner.

Lemma assign_fst t : forall cur above, no_walrus t = true -> map fst (assign (cur :: above) t) = ids t.
Proof.
  induction t as [i k w outer inner IHo IHi] using snode_ind'. intros cur above Hw.
  cbn [no_walrus] in Hw.
  apply andb_true_iff in Hw. destruct Hw as [Hw Hwi]. apply andb_true_iff in Hw. destruct Hw as [Hw Hwo].
  apply negb_true_iff in Hw. subst w. cbn [assign ids]. rewrite !map_app. cbn [map fst app]. f_equal.
  rewrite !flat_map_concat_map, !concat_map, !map_map. f_equal.
  - f_equal. rewrite forallb_forall in Hwo. rewrite Forall_forall in IHo.
    apply map_ext_in. intros t' Ht'. exact (IHo t' Ht' cur above (Hwo t' Ht')).
  - f_equal. rewrite forallb_forall in Hwi. rewrite Forall_forall in IHi.
    apply map_ext_in. intros t' Ht'. destruct k as [|[|]]; exact (IHi t' Ht' _ _ (Hwi t' Ht')).
Qed.

Lemma nodup_fst_functional {A B} (l : list (A * B)) x c c' : NoDup (map fst l) -> In (x, c) l -> In (x, c') l -> c = c'.
Proof.
  induction l as [|[a b] l IH]; intros Hnd H1 H2; [destruct H1|].
  simpl in Hnd. apply NoDup_cons_iff in Hnd. destruct Hnd as [Ha Hnd].
  destruct H1 as [H1|H1], H2 as [H2|H2].
  - congruence.
  - injection H1 as -> ->. exfalso. apply Ha. change x with (fst (x, c')). apply in_map. exact H2.
  - injection H2 as -> ->. exfalso. apply Ha. change x with (fst (x, c)). apply in_map. exact H1.
  - exact (IH Hnd H1 H2).
Qed.

(* without walrus targets every node of the tree is given to exactly one scope *)
Theorem one_scope_per_node t cur above x :
  no_walrus t = true -> NoDup (ids t) ->
  (In x (ids t) -> exists c, In (x, c) (assign (cur :: above) t)) /\
  (forall c c', In (x, c) (assign (cur :: above) t) -> In (x, c') (assign (cur :: above) t) -> c = c').
Proof.
  intros Hw Hids. split.
  - intros Hin. rewrite <- (assign_fst t cur above Hw) in Hin. apply in_map_iff in Hin.
    destruct Hin as [[y c] [Heq Hin]]. simpl in Heq. subst y. exists c. exact Hin.
  - intros c c'. apply nodup_fst_functional. rewrite (assign_fst t cur above Hw). exact Hids.
Qed.
