(* C15: on='leave' is the bottom-up order and on='both' brackets every node, and send(True) on leaving walks the node's
   children again followed by the node, then goes on with what follows. *)
From Coq Require Import List Bool Arith Lia.
From PF Require Import models.WalkLeave.
Import ListNotations.

Section TreeInd.
  Variable P : tree -> Prop.
  Hypothesis H : forall a cs, Forall P cs -> P (Node a cs).
  Fixpoint tree_ind' (t : tree) : P t :=
    match t with
    | Node a cs => H a cs ((fix go (l : list tree) : Forall P l := match l with [] => Forall_nil P | c :: r => Forall_cons c (tree_ind' c) (go r) end) cs)
    end.
End TreeInd.

Lemma size_unfold a cs : size (Node a cs) = S (sizes cs).
Proof. reflexivity. Qed.

Lemma sizes_cons c cs : sizes (c :: cs) = size c + sizes cs.
Proof. reflexivity. Qed.

Lemma lstepss_cons c cs : lstepss (c :: cs) = lsteps c + lstepss cs.
Proof. reflexivity. Qed.

Lemma lsteps_unfold a cs : lsteps (Node a cs) = match cs with [] => 1 | _ => S (S (lstepss cs)) end.
Proof. reflexivity. Qed.

Lemma quiet_split n m ds : quiet (n + m) ds -> quiet n ds /\ quiet m (skipn n ds).
Proof.
  unfold quiet. revert ds. induction n as [|n IH]; intros ds Hq; cbn [Nat.add firstn skipn] in *.
  - split; [constructor|exact Hq].
  - destruct ds as [|d ds]; cbn [firstn skipn] in *.
    + split; [constructor|]. rewrite firstn_nil. constructor.
    + inversion Hq as [|x l Hd Hr]; subst. destruct (IH ds Hr) as [A B]. split; [constructor; auto|exact B].
Qed.

Lemma silent_split n m ds : silent (n + m) ds -> silent n ds /\ silent m (skipn n ds).
Proof.
  unfold silent. revert ds. induction n as [|n IH]; intros ds Hq; cbn [Nat.add firstn skipn] in *.
  - split; [constructor|exact Hq].
  - destruct ds as [|d ds]; cbn [firstn skipn] in *.
    + split; [constructor|]. rewrite firstn_nil. constructor.
    + inversion Hq as [|x l Hd Hr]; subst. destruct (IH ds Hr) as [A B]. split; [constructor; auto|exact B].
Qed.

Lemma skipn_add {A} n m (l : list A) : skipn (n + m) l = skipn m (skipn n l).
Proof.
  revert l. induction n as [|n IH]; intros l; [reflexivity|]. destruct l as [|x l]; cbn [Nat.add skipn].
  - now rewrite skipn_nil.
  - apply IH.
Qed.

Lemma quiet_one ds : quiet 1 ds -> is_true (fst (next_dec ds)) = false /\ snd (next_dec ds) = skipn 1 ds.
Proof.
  unfold quiet. destruct ds as [|d ds]; cbn; intros Hq; [split; reflexivity|]. inversion Hq; subst. split; [assumption|reflexivity].
Qed.

Lemma silent_one ds : silent 1 ds -> fst (next_dec ds) = None /\ snd (next_dec ds) = skipn 1 ds.
Proof.
  unfold silent. destruct ds as [|d ds]; cbn; intros Hq; [split; reflexivity|]. inversion Hq; subst. split; reflexivity.
Qed.

(* ---- on='leave' ---- *)
Definition leave_ok (t : tree) : Prop :=
  forall st ds out f, quiet (size t) ds ->
    lrun (lsteps t + f) (E t :: st) ds out = lrun f st (skipn (size t) ds) (out ++ post t).

Lemma leave_children cs : Forall leave_ok cs ->
  forall st ds out f, quiet (sizes cs) ds ->
    lrun (lstepss cs + f) (map E cs ++ st) ds out = lrun f st (skipn (sizes cs) ds) (out ++ flat_map post cs).
Proof.
  induction 1 as [|c cs Hc Hcs IH]; intros st ds out f Hq.
  - cbn. now rewrite app_nil_r.
  - rewrite sizes_cons in Hq. apply quiet_split in Hq. destruct Hq as [Q1 Q2].
    rewrite lstepss_cons, sizes_cons, skipn_add. cbn [map app flat_map].
    rewrite <- Nat.add_assoc, (Hc _ _ _ _ Q1), (IH _ _ _ _ Q2). now rewrite app_assoc.
Qed.

Lemma leave_node_L a cs st ds out f : quiet 1 ds ->
  lrun (S f) (L (Node a cs) :: st) ds out = lrun f st (skipn 1 ds) (out ++ [a]).
Proof.
  intros Hq. apply quiet_one in Hq. destruct Hq as [H1 H2]. cbn [lrun lstep]. destruct (next_dec ds) as [d ds'] eqn:E. cbn [fst snd] in *.
  rewrite H1. subst ds'. reflexivity.
Qed.

Lemma leave_all t : leave_ok t.
Proof.
  induction t as [a cs IH] using tree_ind'. intros st ds out f Hq.
  rewrite size_unfold in *. rewrite lsteps_unfold. destruct cs as [|c cs'] eqn:Ecs.
  - (* a node without children is yielded at once *)
    cbn [sizes fold_right] in *. cbn [Nat.add lrun lstep children label]. apply quiet_one in Hq. destruct Hq as [H1 H2].
    destruct (next_dec ds) as [d ds'] eqn:E. cbn [fst snd] in *. rewrite H1. subst ds'. cbn [app post flat_map]. reflexivity.
  - rewrite <- Ecs in *. assert (Hne : cs <> []) by (subst cs; discriminate).
    replace (S (sizes cs)) with (sizes cs + 1) in * by lia. apply quiet_split in Hq. destruct Hq as [Q1 Q2].
    change (S (S (lstepss cs)) + f) with (S (S (lstepss cs) + f)).
    cbn [lrun]. unfold lstep at 1. cbn [children]. destruct cs as [|c0 cs0]; [contradiction|].
    replace (S (lstepss (c0 :: cs0)) + f) with (lstepss (c0 :: cs0) + S f) by lia.
    rewrite (leave_children _ IH _ _ _ _ Q1), (leave_node_L _ _ _ _ _ _ Q2), skipn_add. cbn [post]. now rewrite app_assoc.
Qed.

Theorem leave_is_bottom_up t ds f : quiet (size t) ds ->
  lrun (lsteps t + f) [E t] ds [] = Some (post t, skipn (size t) ds).
Proof.
  intros Hq. rewrite (leave_all t [] ds [] f Hq). destruct f; reflexivity.
Qed.

(* send(True) when t is left: its children again, then t again, then what was queued behind it *)
Theorem leave_resend t st ds out f : quiet (size t) ds ->
  lrun (S (lstepss (children t) + S f)) (L t :: st) (Some true :: ds) out =
  lrun f st (skipn (size t) ds) (out ++ [label t] ++ post t).
Proof.
  destruct t as [a cs]. intros Hq. rewrite size_unfold in *. replace (S (sizes cs)) with (sizes cs + 1) in * by lia.
  apply quiet_split in Hq. destruct Hq as [Q1 Q2].
  cbn [lrun lstep next_dec is_true children label]. rewrite <- app_assoc.
  assert (Hall : Forall leave_ok cs) by (apply Forall_forall; intros c _; apply leave_all).
  rewrite (leave_children _ Hall _ _ _ _ Q1). cbn [app]. rewrite (leave_node_L _ _ _ _ _ _ Q2), skipn_add. cbn [post].
  now rewrite <- !app_assoc.
Qed.

(* ---- on='both' ---- *)
Fixpoint bsteps (t : tree) : nat := match t with Node _ cs => S (S (fold_right (fun c n => bsteps c + n) 0 cs)) end.
Definition bstepss (cs : list tree) : nat := fold_right (fun c n => bsteps c + n) 0 cs.

Lemma two_size a cs : size (Node a cs) + size (Node a cs) = 1 + ((sizes cs + sizes cs) + 1).
Proof. rewrite size_unfold. lia. Qed.

Definition both_ok (t : tree) : Prop :=
  forall st ds out f, silent (2 * size t) ds ->
    brun (bsteps t + f) (E t :: st) ds out = brun f st (skipn (2 * size t) ds) (out ++ bracket t).

Lemma both_children cs : Forall both_ok cs ->
  forall st ds out f, silent (2 * sizes cs) ds ->
    brun (bstepss cs + f) (map E cs ++ st) ds out = brun f st (skipn (2 * sizes cs) ds) (out ++ flat_map bracket cs).
Proof.
  induction 1 as [|c cs Hc Hcs IH]; intros st ds out f Hq.
  - cbn. now rewrite app_nil_r.
  - rewrite sizes_cons in Hq. replace (2 * (size c + sizes cs)) with (2 * size c + 2 * sizes cs) in Hq by lia.
    apply silent_split in Hq. destruct Hq as [Q1 Q2].
    change (bstepss (c :: cs)) with (bsteps c + bstepss cs). rewrite sizes_cons.
    replace (2 * (size c + sizes cs)) with (2 * size c + 2 * sizes cs) by lia. rewrite skipn_add. cbn [map app flat_map].
    rewrite <- Nat.add_assoc, (Hc _ _ _ _ Q1), (IH _ _ _ _ Q2). now rewrite app_assoc.
Qed.

Lemma both_all t : both_ok t.
Proof.
  induction t as [a cs IH] using tree_ind'. intros st ds out f Hq.
  replace (2 * size (Node a cs)) with (1 + (2 * sizes cs + 1)) in * by (rewrite size_unfold; lia).
  apply silent_split in Hq. destruct Hq as [Q0 Q]. apply silent_split in Q. destruct Q as [Q1 Q2].
  apply silent_one in Q0. destruct Q0 as [A0 B0]. apply silent_one in Q2. destruct Q2 as [A2 B2].
  change (bsteps (Node a cs)) with (S (S (bstepss cs))).
  replace (S (S (bstepss cs)) + f) with (S (bstepss cs + S f)) by lia.
  cbn [brun bstep children label]. destruct (next_dec ds) as [d0 ds0] eqn:E0. cbn [fst snd] in *. subst d0 ds0. cbn [is_false].
  rewrite (both_children _ IH _ _ _ _ Q1). cbn [brun bstep label].
  destruct (next_dec (skipn (2 * sizes cs) (skipn 1 ds))) as [d2 ds2] eqn:E2. cbn [fst snd] in *. subst d2 ds2. cbn [is_true app].
  rewrite !skipn_add. cbn [bracket]. rewrite <- !app_assoc. reflexivity.
Qed.

Theorem both_brackets t ds f : silent (2 * size t) ds ->
  brun (bsteps t + f) [E t] ds [] = Some (bracket t, skipn (2 * size t) ds).
Proof.
  intros Hq. rewrite (both_all t [] ds [] f Hq). destruct f; reflexivity.
Qed.

(* send(False) on entering t: t is not descended into but still left *)
Theorem both_skip t st ds out f :
  brun (S (S f)) (E t :: st) (Some false :: None :: ds) out = brun f st ds (out ++ [(label t, false); (label t, true)]).
Proof.
  cbn [brun bstep next_dec is_false is_true app]. now rewrite <- app_assoc.
Qed.

(* send(True) on leaving t: t is entered again - bracketed walk of t - then what was queued behind it *)
Theorem both_resend t st ds out f : silent (2 * size t) ds ->
  brun (S (bsteps t + f)) (L t :: st) (Some true :: ds) out = brun f st (skipn (2 * size t) ds) (out ++ (label t, true) :: bracket t).
Proof.
  intros Hq. cbn [brun bstep next_dec is_true app]. rewrite (both_all t st ds _ f Hq). now rewrite <- app_assoc.
Qed.

Example leave_nonvacuous :
  let t := Node 0 [Node 1 []; Node 2 [Node 3 []; Node 4 []]; Node 5 []] in
  lrun 50 [E t] [] [] = Some ([1; 3; 4; 2; 5; 0], []) /\
  lrun 50 [E t] [None; None; None; Some true] [] = Some ([1; 3; 4; 2; 3; 4; 2; 5; 0], []) /\
  brun 50 [E (Node 0 [Node 1 []])] [None; None; Some true] [] = Some ([(0, false); (1, false); (1, true); (1, false); (1, true); (0, true)], []).
Proof. repeat split; reflexivity. Qed.
