(* C13: whatever the output list held and wherever the edited elements come from, the replay leaves exactly the edited list. *)
From Coq Require Import List Bool Arith Lia.
From PF Require Import models.SliceReplay.
Import ListNotations.

Lemma run_end_bounds p : forall rest j pos, pos <= run_end p j rest pos <= pos + length rest.
Proof.
  induction rest as [|y r IH]; intros j pos; cbn [run_end length]; [lia|].
  destruct (src y) as [[p' j']|]; [|lia].
  destruct (Nat.eqb p' p && Nat.eqb j' (S j)); [|lia].
  specialize (IH (S j) (S pos)). lia.
Qed.

Lemma firstn_app_exact {A} (a b : list A) n : length a = n -> firstn n (a ++ b) = a.
Proof. intros <-. rewrite firstn_app, Nat.sub_diag, firstn_all. cbn. now rewrite app_nil_r. Qed.

Lemma firstn_app_more {A} (a b : list A) n k : length a = n -> firstn (n + k) (a ++ b) = a ++ firstn k b.
Proof. intros <-. rewrite firstn_app. replace (length a + k - length a) with k by lia. rewrite firstn_all2 by lia. reflexivity. Qed.

(* one iteration: consumes k >= 1 elements and makes the output agree with them *)
Lemma step_spec x r start out : start <= length out ->
  let '(out1, _, k) := step (x :: r) start out in
  1 <= k <= length (x :: r) /\ start + k <= length out1 /\
  firstn (start + k) out1 = firstn start out ++ map eid (firstn k (x :: r)).
Proof.
  intros Hs. unfold step.
  assert (Lf : length (firstn start out) = start) by (rewrite firstn_length; lia).
  destruct (no_slice x start) eqn:NS.
  - destruct (Nat.leb_spec (length out) start) as [Hl|Hl].
    + (* too short: insert, then set in place *)
      assert (length out = start) by lia.
      unfold set_nth. cbn [app].
      rewrite (firstn_app_exact (firstn start out) _ start Lf).
      assert (E : skipn start (firstn start out ++ eid x :: skipn start out) = eid x :: skipn start out).
      { rewrite skipn_app, Lf, Nat.sub_diag. cbn [skipn]. rewrite skipn_all2 by lia. reflexivity. }
      rewrite E. cbn [length map firstn]. repeat split; try lia.
      * rewrite app_length. cbn [length]. lia.
      * replace (start + 1) with (start + 1) by lia. rewrite (firstn_app_more (firstn start out) _ start 1 Lf). reflexivity.
    + unfold set_nth. destruct (skipn start out) as [|y rest'] eqn:E.
      * exfalso. assert (length (skipn start out) = 0) by now rewrite E. rewrite skipn_length in H. lia.
      * cbn [length map firstn]. repeat split; try lia.
        -- rewrite app_length. cbn [length]. lia.
        -- rewrite (firstn_app_more (firstn start out) _ start 1 Lf). reflexivity.
  - destruct (src x) as [[p j]|] eqn:Sx; [|unfold no_slice in NS; rewrite Sx in NS; discriminate].
    pose proof (run_end_bounds p r j (S start)) as B.
    set (e := run_end p j r (S start)) in *.
    assert (Lk : length (firstn (e - start) (x :: r)) = e - start) by (rewrite firstn_length; cbn [length]; lia).
    repeat split; cbn [length]; try lia.
    + rewrite !app_length, map_length, Lk. lia.
    + replace (start + (e - start)) with (start + (e - start)) by lia.
      rewrite (firstn_app_more (firstn start out) _ start (e - start) Lf). f_equal.
      apply firstn_app_exact. now rewrite map_length.
Qed.

Lemma replay_spec : forall fuel rest start out done,
  length rest < fuel -> start <= length out -> length done = start -> firstn start out = map eid done ->
  fst (replay fuel rest start out) = map eid (done ++ rest).
Proof.
  induction fuel as [|f IH]; intros rest start out done Hf Hs Hd Hp; [lia|].
  cbn [replay]. destruct rest as [|x r].
  - rewrite app_nil_r. destruct (Nat.ltb_spec start (length out)); cbn [fst]; [exact Hp|].
    rewrite <- Hp. symmetry. apply firstn_all2. lia.
  - pose proof (step_spec x r start out Hs) as St.
    destruct (step (x :: r) start out) as [[out1 ops1] k]. destruct St as ((K1 & K2) & L1 & F1).
    specialize (IH (skipn k (x :: r)) (start + k) out1 (done ++ firstn k (x :: r))).
    destruct (replay f (skipn k (x :: r)) (start + k) out1) as [out2 ops2]. cbn [fst] in *.
    rewrite IH.
    + rewrite <- app_assoc, firstn_skipn. reflexivity.
    + rewrite skipn_length. cbn [length] in *. lia.
    + exact L1.
    + rewrite app_length, firstn_length. cbn [length] in *. lia.
    + rewrite F1, Hp, map_app. reflexivity.
Qed.

Theorem recurse_slice_rebuilds_the_edited_list body out : fst (recurse_slice body out) = map eid body.
Proof.
  unfold recurse_slice. apply (replay_spec (S (length body)) body 0 out []); cbn; try lia. reflexivity.
Qed.

(* nothing changed: every element is the own child at its position, the output is the list itself: only recursion, no slice operation *)
Definition in_place (body : list elem) : Prop := forall i x, nth_error body i = Some x -> src x <> None /\ own x = true /\ (exists p, src x = Some (p, i)).

Lemma replay_in_place : forall fuel rest start out,
  length rest < fuel -> start + length rest = length out ->
  (forall i x, nth_error rest i = Some x -> own x = true /\ exists p, src x = Some (p, start + i)) ->
  (forall i x, nth_error rest i = Some x -> nth_error out (start + i) = Some (eid x)) ->
  replay fuel rest start out = (out, map Recurse (seq start (length rest))).
Proof.
  induction fuel as [|f IH]; intros rest start out Hf Hl Hown Hout; [lia|].
  cbn [replay]. destruct rest as [|x r].
  - cbn [length] in *. destruct (Nat.ltb_spec start (length out)); [lia|reflexivity].
  - destruct (Hown 0 x eq_refl) as (Ox & p & Sx). rewrite Nat.add_0_r in Sx.
    unfold step. unfold no_slice. rewrite Sx, Ox, Nat.eqb_refl.
    cbn [length] in Hl. destruct (Nat.leb_spec (length out) start) as [L|L]; [lia|].
    assert (Hx : nth_error out start = Some (eid x)) by (specialize (Hout 0 x eq_refl); now rewrite Nat.add_0_r in Hout).
    assert (Eset : set_nth start (eid x) out = out).
    { unfold set_nth. destruct (nth_error_split out start Hx) as (l1 & l2 & -> & Ll1).
      rewrite firstn_app, skipn_app, Ll1, Nat.sub_diag, firstn_all2, skipn_all2 by lia. cbn. now rewrite app_nil_r. }
    rewrite Eset. cbn [skipn app]. replace (start + 1) with (S start) by lia.
    rewrite (IH r (S start) out).
    + cbn [length seq map]. reflexivity.
    + cbn [length] in Hf. lia.
    + lia.
    + intros i y Hy. specialize (Hown (S i) y Hy). replace (S start + i) with (start + S i) by lia. exact Hown.
    + intros i y Hy. specialize (Hout (S i) y Hy). replace (S start + i) with (start + S i) by lia. exact Hout.
Qed.

Theorem unchanged_list_is_only_recursed body :
  (forall i x, nth_error body i = Some x -> own x = true /\ exists p, src x = Some (p, i)) ->
  recurse_slice body (map eid body) = (map eid body, map Recurse (seq 0 (length body))).
Proof.
  intros H. unfold recurse_slice. apply replay_in_place.
  - lia.
  - now rewrite map_length.
  - exact H.
  - intros i x Hx. cbn [Nat.add]. rewrite nth_error_map, Hx. reflexivity.
Qed.

Example slice_replay_nonvacuous :
  (* marked list [10; 11; 12; 13]; edited: [12; 13; new 99; 10]  (12, 13 moved to the front as a run; a pure node; 10 moved; 11 deleted) *)
  let mk i j := {| eid := i; src := Some (0, j); own := true; compat := true |} in
  let body := [mk 12 2; mk 13 3; {| eid := 99; src := None; own := false; compat := false |}; mk 10 0] in
  recurse_slice body [10; 11; 12; 13] =
    ([12; 13; 99; 10], [PutSlice 0 2; Recurse 0; Recurse 1; Recurse 2; PutSlice 3 4; Recurse 3]) /\
  recurse_slice [mk 12 2] [10; 11; 12] = ([12], [PutSlice 0 1; Recurse 0; DelTail 1]) /\
  recurse_slice [mk 10 0; {| eid := 99; src := None; own := false; compat := false |}] [10] = ([10; 99], [Recurse 0; InsertOne 1; Recurse 1]).
Proof. repeat split; reflexivity. Qed.
