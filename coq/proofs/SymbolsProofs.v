(* C16: the name classification of scope_symbols agrees with the compiler's rule. *)
From Coq Require Import List Bool Arith Lia.
From PF Require Import models.Symbols.
Import ListNotations.

Lemma mem_In n l : mem n l = true <-> In n l.
Proof.
  unfold mem. rewrite existsb_exists. split.
  - intros (x & Hx & E). apply Nat.eqb_eq in E. now subst.
  - intros H. exists n. split; [assumption|apply Nat.eqb_refl].
Qed.

Lemma mem_false n l : mem n l = false <-> ~ In n l.
Proof. rewrite <- mem_In. destruct (mem n l); split; intros H; congruence. Qed.

Lemma add_In n m l : In m (add n l) <-> m = n \/ In m l.
Proof.
  unfold add. destruct (mem n l) eqn:E.
  - apply mem_In in E. split; [now right|]. intros [->|H]; assumption.
  - rewrite in_app_iff. cbn. split; intros [H|H]; auto. destruct H as [H|[]]; auto.
Qed.

Lemma keys_acc (sel : kind -> bool) (evs : list ev) : forall acc n,
  In n (fold_left (fun acc (e : ev) => if sel (fst e) then add (snd e) acc else acc) evs acc) <->
  In n acc \/ exists k, sel k = true /\ In (k, n) evs.
Proof.
  induction evs as [|[k m] evs IH]; intros acc n; cbn [fold_left fst snd].
  - split; [now left|]. intros [H|(k & _ & [])]; assumption.
  - rewrite IH. destruct (sel k) eqn:E.
    + rewrite add_In. split.
      * intros [[->|H]|(k' & S & H)]; [right; exists k; split; [assumption|now left]|now left|right; exists k'; split; [assumption|now right]].
      * intros [H|(k' & S & [H|H])]; [left; now right| inversion H; subst; left; now left|right; exists k'; split; assumption].
    + split.
      * intros [H|(k' & S & H)]; [now left|right; exists k'; split; [assumption|now right]].
      * intros [H|(k' & S & [H|H])]; [now left| inversion H; subst; congruence|right; exists k'; split; assumption].
Qed.

Lemma keys_In sel evs n : In n (keys sel evs) <-> exists k, sel k = true /\ In (k, n) evs.
Proof. unfold keys. rewrite keys_acc. split; [intros [[]|H]; exact H|now right]. Qed.

Lemma keys_kind k evs n : In n (keys (kind_eqb k) evs) <-> In (k, n) evs.
Proof.
  rewrite keys_In. split.
  - intros (k' & E & H). destruct k, k'; cbn in E; try discriminate; exact H.
  - intros H. exists k. split; [destruct k; reflexivity|exact H].
Qed.

Lemma keys_store evs n : In n (keys is_store evs) <-> In (KStore, n) evs \/ In (KWalrus, n) evs.
Proof.
  rewrite keys_In. split.
  - intros (k & E & H). destruct k; cbn in E; try discriminate; auto.
  - intros [H|H]; [exists KStore|exists KWalrus]; split; auto.
Qed.

Lemma ev_dec (a b : ev) : {a = b} + {a <> b}.
Proof. decide equality; [apply Nat.eq_dec|decide equality]. Qed.

(* ---- function-like scopes (comp = false); walrus events are only emitted for a comprehension root ---- *)
Theorem local_is_compilers_local_but_del_only evs n : no_walrus_ev evs ->
  (In n (s_local (classify false evs)) <-> occurs KStore n evs /\ ~ declared n evs) /\
  (py_local n evs <-> In n (s_local (classify false evs)) \/ (occurs KDel n evs /\ ~ occurs KStore n evs /\ ~ declared n evs)).
Proof.
  intros NW. unfold classify, s_local, declared, py_local, occurs.
  assert (L : In n (filter (fun n0 => negb (mem n0 (keys (kind_eqb KGlobal) evs) || mem n0 (keys (kind_eqb KNonlocal) evs) || mem n0 [])) (keys is_store evs)) <->
              In (KStore, n) evs /\ ~ (In (KGlobal, n) evs \/ In (KNonlocal, n) evs)).
  { rewrite filter_In, keys_store, negb_true_iff, !orb_false_iff, !mem_false, !keys_kind. split.
    - intros ([H|H] & (G & N) & _); [|exfalso; exact (NW n H)]. split; [assumption|intros [X|X]; auto].
    - intros (H & D). repeat split; auto. }
  split; [exact L|]. rewrite L. split.
  - intros ([S|D] & ND); [left; auto|]. destruct (in_dec ev_dec (KStore, n) evs) as [S|S]; [left; auto|right; auto].
  - intros [(S & ND)|(D & _ & ND)]; auto.
Qed.

Theorem free_is_compilers_free evs n : no_walrus_ev evs ->
  (In n (s_free (classify false evs)) <-> py_free n evs).
Proof.
  intros NW. unfold classify, s_free, py_free, declared, occurs.
  rewrite filter_In, negb_true_iff, mem_false, !in_app_iff, keys_store, !keys_kind, keys_In. split.
  - intros ((k & E & H) & N). destruct k; cbn in E; try discriminate. repeat split; auto; intros X; apply N; tauto.
  - intros (H & S & D & ND). split; [exists KLoad; split; auto|]. intros [[X|X]|[X|[X|X]]]; try tauto. exact (NW n X).
Qed.

(* no name is both local and free; a declared name is neither *)
Theorem local_free_declared_disjoint comp evs n :
  (In n (s_local (classify comp evs)) -> ~ In n (s_free (classify comp evs))) /\
  (In n (s_global (classify comp evs)) \/ In n (s_nonlocal (classify comp evs)) -> ~ In n (s_local (classify comp evs)) /\ (comp = false -> ~ In n (s_free (classify comp evs)))).
Proof.
  unfold classify, s_local, s_free, s_global, s_nonlocal. split.
  - rewrite !filter_In, !negb_true_iff, !orb_false_iff, !mem_false. intros (St & (G & N) & W) (_ & F). apply F. clear F.
    destruct comp.
    + rewrite filter_In, negb_true_iff, mem_false. split; assumption.
    + rewrite in_app_iff. now left.
  - intros D. split.
    + rewrite filter_In, negb_true_iff, !orb_false_iff, !mem_false. intros (_ & (G & N) & _). destruct D; auto.
    + intros ->. rewrite filter_In, negb_true_iff, mem_false, !in_app_iff. intros (_ & F). apply F. destruct D; auto.
Qed.

(* a walrus target in a comprehension root is never local to the comprehension, and it is reported free
   (to be bound by the enclosing function) unless the comprehension also binds the name in another way *)
Theorem walrus_target_of_comprehension_root evs n : In (KWalrus, n) evs ->
  ~ In n (s_local (classify true evs)) /\
  (~ In (KStore, n) evs -> In n (s_free (classify true evs))) /\ In n (s_store (classify true evs)).
Proof.
  intros W. unfold classify, s_local, s_free, s_store. repeat split.
  - rewrite filter_In, negb_true_iff, !orb_false_iff, !mem_false, !keys_kind. intros (_ & _ & X). auto.
  - intros NS. rewrite filter_In, negb_true_iff, mem_false, filter_In, negb_true_iff, mem_false, !keys_kind, keys_In. split.
    + exists KWalrus. split; auto.
    + intros (_ & X). auto.
  - apply keys_store. now right.
Qed.

Example symbols_nonvacuous :
  (* def f(arg): global g; nonlocal q; loc = arg; del dd; q += free_; g = 1   ->  events in walk order, names as numbers:
     arg=0 g=1 q=2 loc=3 dd=4 free_=5 *)
  let evs := [(KStore, 0); (KGlobal, 1); (KNonlocal, 2); (KStore, 3); (KLoad, 0); (KDel, 4); (KLoad, 2); (KStore, 2); (KLoad, 5); (KStore, 1)] in
  let s := classify false evs in
  s_local s = [0; 3] /\ s_free s = [5] /\ s_store s = [0; 3; 2; 1] /\ s_load s = [0; 2; 5] /\ s_del s = [4] /\
  (* [y := x for x in it]  as root: it=0 y=1 x=2 *)
  let c := classify true [(KLoad, 0); (KWalrus, 1); (KLoad, 2); (KStore, 2)] in
  s_local c = [2] /\ s_free c = [0; 1] /\ s_load c = [0; 2] /\ s_store c = [1; 2].
Proof. repeat split; reflexivity. Qed.
