(* Coercion keeps the leaves: when an expression coerces to a pattern (or a pattern to an expression) the names and
   constants of the result are those of the operand, in the same order. *)
From Coq Require Import List Bool Arith Lia.
From PF Require Import models.Coerce.
Import ListNotations.

Section ExInd.
  Variable P : ex -> Prop.
  Hypothesis HName : forall s, P (EName s).
  Hypothesis HConst : forall c, P (EConst c).
  Hypothesis HAttr : forall e a, P e -> P (EAttr e a).
  Hypothesis HSeq : forall l, Forall P l -> P (ESeq l).
  Hypothesis HDict : forall kvs, Forall (fun kv => (forall k, fst kv = Some k -> P k) /\ P (snd kv)) kvs -> P (EDict kvs).
  Hypothesis HCall : forall f args kws, P f -> Forall P args -> Forall (fun kw => P (snd kw)) kws -> P (ECall f args kws).
  Hypothesis HBin : forall o a b, P a -> P b -> P (EBin o a b).
  Hypothesis HStar : forall e, P e -> P (EStar e).
  Hypothesis HNeg : forall e, P e -> P (ENeg e).
  Hypothesis HOther : forall k kids, Forall P kids -> P (EOther k kids).

  Fixpoint ex_ind' (e : ex) : P e :=
    match e with
    | EName s => HName s
    | EConst c => HConst c
    | EAttr e' a => HAttr e' a (ex_ind' e')
    | ESeq l => HSeq l ((fix go (l : list ex) : Forall P l := match l with [] => Forall_nil _ | x :: r => Forall_cons x (ex_ind' x) (go r) end) l)
    | EDict kvs => HDict kvs ((fix go (l : list (option ex * ex)) : Forall (fun kv => (forall k, fst kv = Some k -> P k) /\ P (snd kv)) l :=
                                 match l with
                                 | [] => Forall_nil _
                                 | (ok, v) :: r =>
                                     Forall_cons (ok, v)
                                       (conj (match ok as o return (forall k, o = Some k -> P k) with
                                              | Some k0 => fun k H => eq_ind k0 P (ex_ind' k0) k (f_equal (fun o => match o with Some x => x | None => k0 end) H)
                                              | None => fun k H => False_ind _ (eq_ind None (fun o => match o with None => True | Some _ => False end) I (Some k) H)
                                              end) (ex_ind' v))
                                       (go r)
                                 end) kvs)
    | ECall f args kws =>
        HCall f args kws (ex_ind' f)
          ((fix go (l : list ex) : Forall P l := match l with [] => Forall_nil _ | x :: r => Forall_cons x (ex_ind' x) (go r) end) args)
          ((fix go (l : list (option nat * ex)) : Forall (fun kw => P (snd kw)) l :=
              match l with [] => Forall_nil _ | (n, v) :: r => Forall_cons (n, v) (ex_ind' v) (go r) end) kws)
    | EBin o a b => HBin o a b (ex_ind' a) (ex_ind' b)
    | EStar e' => HStar e' (ex_ind' e')
    | ENeg e' => HNeg e' (ex_ind' e')
    | EOther k kids => HOther k kids ((fix go (l : list ex) : Forall P l := match l with [] => Forall_nil _ | x :: r => Forall_cons x (ex_ind' x) (go r) end) kids)
    end.
End ExInd.

Lemma unnm_nm s : unnm (nm s) = s.
Proof. destruct s; reflexivity. Qed.

Lemma opt_all_cons {A} (o : option A) l r : opt_all (o :: l) = Some r -> exists x r', o = Some x /\ opt_all l = Some r' /\ r = x :: r'.
Proof. unfold opt_all. simpl. fold (opt_all l). destruct o as [x|]; [|discriminate]. destruct (opt_all l) as [r'|]; [|discriminate]. intros H. injection H as <-. eauto. Qed.

(* element-wise coercion of a list keeps the concatenated leaves *)
Lemma seq_leaves l : Forall (fun e => forall p, e2p e = Some p -> pleaves p = eleaves e) l ->
  forall ps, opt_all (map e2p l) = Some ps -> flat_map pleaves ps = flat_map eleaves l.
Proof.
  induction 1 as [|e l He _ IH]; intros ps H.
  - injection H as <-. reflexivity.
  - simpl in H. apply opt_all_cons in H. destruct H as [q [r' [Hq [Hr ->]]]].
    simpl. rewrite (He q Hq), (IH r' Hr). reflexivity.
Qed.

Theorem e2p_leaves e : forall p, e2p e = Some p -> pleaves p = eleaves e.
Proof.
  induction e as [s|c|e a IH|l IH|kvs IH|f args kws IHf IHa IHk|o a b IHa IHb|e IH|e IH|k kids IH] using ex_ind'; intros p H.
  - injection H as <-. simpl. rewrite unnm_nm. reflexivity.
  - destruct c; simpl in H; try discriminate; injection H as <-; reflexivity.
  - cbn [e2p] in H. destruct (attr_ok (EAttr e a)); [|discriminate]. injection H as <-. reflexivity.
  - cbn [e2p] in H. destruct (opt_all (map e2p l)) as [ps|] eqn:Hps; [|discriminate]. injection H as <-.
    simpl. exact (seq_leaves l IH ps Hps).
  - (* mapping *)
    cbn [e2p] in H.
    set (go := fix go (kvs : list (option ex * ex)) : option (list ex * list pat * option nat) := _) in H.
    destruct (go kvs) as [[[ks ps] rest]|] eqn:Hgo; [|discriminate]. injection H as <-.
    cbn [pleaves eleaves].
    revert ks ps rest Hgo. induction IH as [|[ok v] r [Hk Hv] _ IHr]; intros ks ps rest Hgo.
    + simpl in Hgo. injection Hgo as <- <- <-. reflexivity.
    + cbn [go] in Hgo. destruct ok as [k|].
      * destruct (key_ok k); [|discriminate].
        destruct (e2p v) as [q|] eqn:Hq; [|discriminate].
        destruct (go r) as [[[ks' ps'] rest']|] eqn:Hr; [|discriminate].
        injection Hgo as <- <- <-.
        cbn [flat_map fst snd]. rewrite <- !app_assoc. f_equal.
        rewrite (Hv q Hq). f_equal. exact (IHr ks' ps' rest' eq_refl).
      * destruct v; try discriminate. destruct r; [|discriminate].
        destruct (Nat.eqb s 0); [discriminate|]. injection Hgo as <- <- <-. reflexivity.
  - (* call *)
    cbn [e2p] in H.
    destruct ((match f with EName s => negb (Nat.eqb s 0) | EAttr _ _ => attr_ok f | _ => false end) &&
              forallb (fun a => match a with EStar _ => false | _ => true end) args &&
              forallb (fun kw => match fst kw with Some _ => true | None => false end) kws); [|discriminate].
    destruct (opt_all (map e2p args)) as [ps|] eqn:Hps; [|discriminate].
    destruct (opt_all (map (fun kw => e2p (snd kw)) kws)) as [kps|] eqn:Hkps; [|discriminate].
    injection H as <-. cbn [pleaves eleaves]. f_equal.
    rewrite (seq_leaves args IHa ps Hps). f_equal.
    clear - IHk Hkps. revert kps Hkps. induction IHk as [|[n v] r Hv _ IHr]; intros kps Hkps.
    + injection Hkps as <-. reflexivity.
    + simpl in Hkps. apply opt_all_cons in Hkps. destruct Hkps as [q [r' [Hq [Hr ->]]]].
      simpl. rewrite (Hv q Hq), (IHr r' Hr). reflexivity.
  - (* binary operator *)
    destruct o; cbn [e2p] in H; try discriminate.
    + destruct (imag_nonneg b && _); [|discriminate]. injection H as <-. reflexivity.
    + destruct (imag_nonneg b && _); [|discriminate]. injection H as <-. reflexivity.
    + assert (Hcore : match e2p b, e2p a with
                      | Some pr, Some (POr ps) => Some (POr (ps ++ [pr]))
                      | Some pr, Some pl => Some (POr [pl; pr])
                      | _, _ => None
                      end = Some p).
      { destruct b; try exact H; destruct a; try exact H; discriminate. }
      clear H. destruct (e2p b) as [pr|] eqn:Hb; [|discriminate].
      destruct (e2p a) as [pl|] eqn:Ha; [|discriminate].
      specialize (IHa pl eq_refl). specialize (IHb pr eq_refl).
      destruct pl; injection Hcore as <-; cbn [pleaves eleaves flat_map]; rewrite <- ?IHa, <- ?IHb; cbn [pleaves];
        rewrite ?flat_map_app; cbn [flat_map]; rewrite ?app_nil_r; reflexivity.
  - cbn [e2p] in H. destruct e; try discriminate. injection H as <-. simpl. rewrite unnm_nm. reflexivity.
  - cbn [e2p] in H. destruct (real_nonneg e || imag_nonneg e); [|discriminate]. injection H as <-. reflexivity.
  - discriminate.
Qed.

(* ---- pattern -> expression ---- *)
Section PatInd.
  Variable P : pat -> Prop.
  Hypothesis HAs : forall n sub, (forall q, sub = Some q -> P q) -> P (PAs n sub).
  Hypothesis HValue : forall e, P (PValue e).
  Hypothesis HSingle : forall c, P (PSingle c).
  Hypothesis HSeq : forall l, Forall P l -> P (PSeq l).
  Hypothesis HMap : forall keys pats rest, Forall P pats -> P (PMap keys pats rest).
  Hypothesis HClass : forall cls ps kwa kwp, Forall P ps -> Forall P kwp -> P (PClass cls ps kwa kwp).
  Hypothesis HOr : forall l, Forall P l -> P (POr l).
  Hypothesis HStar : forall n, P (PStar n).

  Fixpoint pat_ind' (p : pat) : P p :=
    let lst := fix go (l : list pat) : Forall P l := match l with [] => Forall_nil _ | x :: r => Forall_cons x (pat_ind' x) (go r) end in
    match p with
    | PAs n sub => HAs n sub (match sub as s return (forall q, s = Some q -> P q) with
                              | Some q0 => fun q H => eq_ind q0 P (pat_ind' q0) q (f_equal (fun o => match o with Some x => x | None => q0 end) H)
                              | None => fun q H => False_ind _ (eq_ind None (fun o => match o with None => True | Some _ => False end) I (Some q) H)
                              end)
    | PValue e => HValue e
    | PSingle c => HSingle c
    | PSeq l => HSeq l (lst l)
    | PMap keys pats rest => HMap keys pats rest (lst pats)
    | PClass cls ps kwa kwp => HClass cls ps kwa kwp (lst ps) (lst kwp)
    | POr l => HOr l (lst l)
    | PStar n => HStar n
    end.
End PatInd.

Lemma pseq_leaves l : Forall (fun p => forall e, p2e p = Some e -> eleaves e = pleaves p) l ->
  forall es, opt_all (map p2e l) = Some es -> flat_map eleaves es = flat_map pleaves l.
Proof.
  induction 1 as [|p l Hp _ IH]; intros es H.
  - injection H as <-. reflexivity.
  - simpl in H. apply opt_all_cons in H. destruct H as [e [r' [He [Hr ->]]]].
    simpl. rewrite (Hp e He), (IH r' Hr). reflexivity.
Qed.

Lemma opt_all_length {A B} (f : A -> option B) l r : opt_all (map f l) = Some r -> length r = length l.
Proof.
  revert r. induction l as [|a l IH]; intros r H; [injection H as <-; reflexivity|].
  simpl in H. apply opt_all_cons in H. destruct H as [x [r' [_ [Hr ->]]]]. simpl. rewrite (IH r' Hr). reflexivity.
Qed.

Lemma fold_or_leaves r : forall a, eleaves (fold_left (fun acc x => EBin OBitOr acc x) r a) = eleaves a ++ flat_map eleaves r.
Proof.
  induction r as [|x r IH]; intros a; simpl; [rewrite app_nil_r; reflexivity|].
  rewrite IH. simpl. rewrite <- app_assoc. reflexivity.
Qed.

Theorem p2e_leaves p : forall e, p2e p = Some e -> eleaves e = pleaves p.
Proof.
  induction p as [n sub IH|e0|c|l IH|keys pats rest IH|cls ps kwa kwp IHp IHk|l IH|n] using pat_ind'; intros e H.
  - destruct sub; [discriminate|]. injection H as <-. reflexivity.
  - injection H as <-. reflexivity.
  - injection H as <-. reflexivity.
  - cbn [p2e] in H. destruct (opt_all (map p2e l)) as [es|] eqn:Hes; [|discriminate]. injection H as <-.
    simpl. exact (pseq_leaves l IH es Hes).
  - cbn [p2e] in H. destruct (opt_all (map p2e pats)) as [vs|] eqn:Hvs; [|discriminate].
    destruct (Nat.eqb_spec (length keys) (length vs)) as [Hlen|]; [|discriminate]. injection H as <-.
    cbn [eleaves pleaves]. rewrite flat_map_app. f_equal.
    + clear rest. revert keys vs Hvs Hlen. induction IH as [|q pats Hq _ IHr]; intros keys vs Hvs Hlen.
      * injection Hvs as <-. destruct keys; [reflexivity|discriminate].
      * simpl in Hvs. apply opt_all_cons in Hvs. destruct Hvs as [v [vs' [Hv [Hvs' ->]]]].
        destruct keys as [|k keys]; [discriminate|]. simpl in Hlen. injection Hlen as Hlen.
        cbn [map combine flat_map fst snd]. rewrite <- app_assoc. f_equal. rewrite (Hq v Hv). f_equal.
        exact (IHr keys vs' Hvs' Hlen).
    + destruct rest; reflexivity.
  - cbn [p2e] in H. destruct (opt_all (map p2e ps)) as [a|] eqn:Ha; [|discriminate].
    destruct (opt_all (map p2e kwp)) as [k|] eqn:Hk; [|discriminate].
    destruct (Nat.eqb_spec (length kwa) (length k)) as [Hlen|]; [|discriminate]. injection H as <-.
    cbn [eleaves pleaves]. f_equal. rewrite (pseq_leaves ps IHp a Ha). f_equal.
    clear - IHk Hk Hlen. revert kwa k Hk Hlen. induction IHk as [|q kwp Hq _ IHr]; intros kwa k Hk Hlen.
    + injection Hk as <-. destruct kwa; [reflexivity|discriminate].
    + simpl in Hk. apply opt_all_cons in Hk. destruct Hk as [v [k' [Hv [Hk' ->]]]].
      destruct kwa as [|n kwa]; [discriminate|]. simpl in Hlen. injection Hlen as Hlen.
      cbn [map combine flat_map fst snd unnm]. rewrite (Hq v Hv). rewrite <- app_comm_cons. f_equal. f_equal. exact (IHr kwa k' Hk' Hlen).
  - cbn [p2e] in H. destruct (opt_all (map p2e l)) as [es|] eqn:Hes; [|discriminate].
    destruct es as [|a r]; [discriminate|]. injection H as <-.
    rewrite fold_or_leaves. change (eleaves a ++ flat_map eleaves r) with (flat_map eleaves (a :: r)).
    simpl pleaves. exact (pseq_leaves l IH (a :: r) Hes).
  - injection H as <-. reflexivity.
Qed.

(* ---- already of the requested kind / refusals ---- *)
Theorem other_expression_is_refused k kids : e2p (EOther k kids) = None.
Proof. reflexivity. Qed.

(* a capture or literal goes there and back unchanged *)
Theorem simple_round_trip e p : e2p e = Some p -> (match e with EName _ | EConst _ | EAttr _ _ | ENeg _ => True | _ => False end) -> p2e p = Some e.
Proof.
  destruct e; intros H Hk; try contradiction.
  - injection H as <-. simpl. rewrite unnm_nm. reflexivity.
  - destruct c; simpl in H; try discriminate; injection H as <-; reflexivity.
  - cbn [e2p] in H. destruct (attr_ok (EAttr e a)); [|discriminate]. injection H as <-. reflexivity.
  - cbn [e2p] in H. destruct (real_nonneg e || imag_nonneg e); [|discriminate]. injection H as <-. reflexivity.
Qed.
