(* C17 theorems over models/Match.v *)
From Coq Require Import List Bool Arith Lia.
From PF Require Import models.Match.
Import ListNotations.

(* ================================================================================================================== *)
(* search pre-filter                                                                                                   *)
(* ================================================================================================================== *)
Fixpoint pat_ind' (P : pat -> Prop)
  (HAny : P PAny) (HT : forall ks, P (PType ks)) (HN : forall ks e, P (PNode ks e)) (HU : forall f, P (PUnknown f)) (HP : P PPrim)
  (HOr : forall l, Forall P l -> P (POr l)) (HAnd : forall l, Forall P l -> P (PAnd l)) (HNot : forall p, P p -> P (PNot p))
  (p : pat) : P p :=
  let go := fix go (l : list pat) : Forall P l :=
    match l with [] => Forall_nil P | x :: t => Forall_cons x (pat_ind' P HAny HT HN HU HP HOr HAnd HNot x) (go t) end in
  match p with
  | PAny => HAny | PType ks => HT ks | PNode ks e => HN ks e | PUnknown f => HU f | PPrim => HP
  | POr l => HOr l (go l) | PAnd l => HAnd l (go l)
  | PNot q => HNot q (pat_ind' P HAny HT HN HU HP HOr HAnd HNot q)
  end.

(* the pre-filter never hides a node the pattern matches *)
Theorem prefilter_sound p : forall n, pmatch p n = true -> prefilter p n = true.
Proof.
  unfold prefilter.
  induction p as [|ks|ks e|f| |l IH|l IH|q IH] using pat_ind'; intros n H; cbn [leaf pmatch] in *.
  - reflexivity.
  - exact H.
  - now apply andb_prop in H.
  - reflexivity.
  - discriminate.
  - (* or *)
    induction l as [|x l IHl]; [discriminate|]. inversion IH as [|x' l' Hx Hl]; subst. cbn [existsb fold_right] in *.
    destruct (leaf x) as [a|] eqn:Ea; [|reflexivity].
    destruct (fold_right _ _ l) as [b|] eqn:Eb; [|reflexivity].
    apply orb_prop in H. destruct H as [H|H].
    + specialize (Hx n H). now rewrite Hx.
    + specialize (IHl Hl H). rewrite IHl. apply orb_true_r.
  - (* and *)
    induction l as [|x l IHl]; [reflexivity|]. inversion IH as [|x' l' Hx Hl]; subst. cbn [forallb fold_right] in *.
    apply andb_prop in H. destruct H as [H1 H2].
    destruct (leaf x) as [a|] eqn:Ea; [|reflexivity].
    destruct (fold_right _ _ l) as [b|] eqn:Eb; [|reflexivity].
    specialize (Hx n H1). specialize (IHl Hl H2). now rewrite Hx, IHl.
  - (* not: only a pure type test may be complemented *)
    destruct (leaf q) as [a|] eqn:Ea; [|reflexivity].
    destruct q; cbn [is_pure_type]; try reflexivity.
    cbn [leaf] in Ea. injection Ea as <-. cbn [pmatch] in H. exact H.
Qed.

(* search(p) yields exactly the nodes, in walk order, that match(p) accepts *)
Theorem search_is_filtered_walk p nodes : search p nodes = filter (pmatch p) nodes.
Proof.
  unfold search. induction nodes as [|n r IH]; [reflexivity|]. cbn [filter].
  destruct (prefilter p n) eqn:E; cbn [filter]; [now rewrite IH|].
  destruct (pmatch p n) eqn:M; [|exact IH]. apply prefilter_sound in M. congruence.
Qed.

(* the complement rule of the unrepaired code is unsound: a concrete witness *)
Example naive_not_complement_unsound :
  let p := PNode [1] (fun n => Nat.eqb (snd n) 7) in       (* Name(id='a') *)
  let naive_leaf_not := fun k : nat => negb (mem k [1]) in  (* ALL - leaf(inner) *)
  pmatch (PNot p) (1, 8) = true /\ naive_leaf_not (nkind (1, 8)) = false.
Proof. split; reflexivity. Qed.

(* ================================================================================================================== *)
(* list matcher = regular language                                                                                     *)
(* ================================================================================================================== *)
Fixpoint reps_to (c : nat) (sub : list epat) (tgt : list nat) : option (list nat) :=
  match c with 0 => Some tgt | S m => match rep sub tgt with Some rest => reps_to m sub rest | None => None end end.

Lemma rep_spec sub : forall tgt rest, rep sub tgt = Some rest <-> exists a, tgt = a ++ rest /\ rep sub a = Some [].
Proof.
  induction sub as [|e r IH]; intros tgt rest; cbn [rep].
  - split; [intros [= <-]; exists []; now split|]. intros (a & -> & Ha). destruct a; [reflexivity|discriminate].
  - destruct tgt as [|t ts].
    + split; [discriminate|]. intros (a & E & Ha). destruct a; [discriminate|discriminate].
    + destruct (ematch e t) eqn:Em.
      * rewrite IH. split.
        -- intros (a & -> & Ha). exists (t :: a). split; [reflexivity|]. cbn. now rewrite Em.
        -- intros (a & E & Ha). destruct a as [|t' a]; [discriminate|]. injection E as <- ->. cbn in Ha. rewrite Em in Ha.
           exists a. now split.
      * split; [discriminate|]. intros (a & E & Ha). destruct a as [|t' a]; [discriminate|]. injection E as <- ->.
        cbn in Ha. now rewrite Em in Ha.
Qed.

Lemma rep_length sub : forall tgt rest, rep sub tgt = Some rest -> length tgt = length sub + length rest.
Proof.
  induction sub as [|e r IH]; intros tgt rest; cbn [rep]; [intros [= <-]; reflexivity|].
  destruct tgt as [|t ts]; [discriminate|]. destruct (ematch e t); [|discriminate]. intros H. apply IH in H. cbn. lia.
Qed.

Lemma reps_to_spec c sub : forall tgt rest, reps_to c sub tgt = Some rest <-> exists pre, tgt = pre ++ rest /\ reps_exact c sub pre.
Proof.
  induction c as [|m IH]; intros tgt rest; cbn [reps_to reps_exact].
  - split; [intros [= <-]; exists []; now split|]. intros (pre & -> & ->). reflexivity.
  - destruct (rep sub tgt) as [r1|] eqn:Er.
    + rewrite IH. apply rep_spec in Er. destruct Er as (a & -> & Ha). split.
      * intros (pre & -> & Hp). exists (a ++ pre). split; [now rewrite app_assoc|]. exists a, pre. now repeat split.
      * intros (pre & E & a' & b & -> & Ha' & Hb).
        assert (a' = a /\ b ++ rest = r1) as [-> <-].
        { rewrite <- app_assoc in E.
          assert (length a = length a') by (apply rep_length in Ha; apply rep_length in Ha'; cbn in *; lia).
          clear -E H. revert a' E H. induction a as [|x a IHa]; intros [|y a'] E H; cbn in *; try discriminate; [now split|].
          injection E as -> E. destruct (IHa a' E ltac:(lia)) as [-> ->]. now split. }
        exists b. now split.
    + split; [discriminate|]. intros (pre & -> & a & b & -> & Ha & Hb). exfalso.
      assert (rep sub ((a ++ b) ++ rest) = Some (b ++ rest)) by (apply rep_spec; exists a; now rewrite app_assoc).
      congruence.
Qed.

Lemma reps_to_pred c sub tgt : reps_to (S c) sub tgt <> None -> reps_to c sub tgt <> None.
Proof.
  revert tgt; induction c as [|m IH]; intros tgt H; [discriminate|]. cbn [reps_to] in *.
  destruct (rep sub tgt) as [r|]; [|congruence]. now apply IH.
Qed.

Lemma reps_to_le c c' sub tgt : c <= c' -> reps_to c' sub tgt <> None -> reps_to c sub tgt <> None.
Proof. induction 1; [auto|]. intros H0. apply IHle. now apply reps_to_pred. Qed.

Lemma after_reps_eq n sub : forall tgt rest, reps_to n sub tgt = Some rest -> after_reps n sub tgt = rest.
Proof.
  induction n as [|m IH]; intros tgt rest; cbn [reps_to after_reps]; [now intros [= <-]|].
  destruct (rep sub tgt) as [r|]; [apply IH|discriminate].
Qed.

Lemma reps_to_length c sub : forall tgt rest, reps_to c sub tgt = Some rest -> length tgt = c * length sub + length rest.
Proof.
  induction c as [|m IH]; intros tgt rest; cbn [reps_to]; [intros [= <-]; reflexivity|].
  destruct (rep sub tgt) as [r|] eqn:Er; [|discriminate]. intros H. apply IH in H. apply rep_length in Er. lia.
Qed.

(* count_reps finds the longest run of repetitions below the cap *)
Lemma count_reps_spec sub : sub <> [] -> forall fuel tgt cap, length tgt < fuel ->
  let N := count_reps fuel sub tgt cap in
  N <= cap /\ reps_to N sub tgt <> None /\ (N < cap -> reps_to (S N) sub tgt = None).
Proof.
  intros Hs. induction fuel as [|f IH]; intros tgt cap Hf; [lia|]. cbn zeta. cbn [count_reps].
  destruct cap as [|c]; [repeat split; [lia|discriminate|lia]|].
  destruct (rep sub tgt) as [rest|] eqn:Er.
  - assert (Hl : length rest < f).
    { apply rep_length in Er. destruct sub; [congruence|]. cbn in Er. lia. }
    destruct (IH rest c Hl) as (A & B & C). repeat split; [lia| |].
    + cbn [reps_to]. now rewrite Er.
    + intros H. cbn [reps_to]. rewrite Er. apply C. lia.
  - repeat split; [lia|discriminate|]. intros _. cbn [reps_to]. now rewrite Er.
Qed.

Section K.
  Variable k : list nat -> option (list nat).

  Lemma try_down_spec sub tgt mn : forall n, mn <= n ->
    (try_down k sub tgt mn n <> None <-> exists c, mn <= c <= n /\ k (after_reps c sub tgt) <> None).
  Proof.
    induction n as [|m IH]; intros Hn; cbn [try_down].
    - destruct (k (after_reps 0 sub tgt)) eqn:E.
      + split; [intros _; exists 0; split; [lia|congruence]|discriminate].
      + split; [congruence|]. intros (c & Hc & H). assert (c = 0) by lia. subst. congruence.
    - destruct (k (after_reps (S m) sub tgt)) eqn:E.
      + split; [intros _; exists (S m); split; [lia|congruence]|discriminate].
      + destruct (Nat.leb_spec (S m) mn) as [Hle|Hgt].
        * split; [congruence|]. intros (c & Hc & H). assert (c = S m) by lia. subst. congruence.
        * rewrite IH by lia. split.
          -- intros (c & Hc & H). exists c. split; [lia|exact H].
          -- intros (c & Hc & H). destruct (Nat.eq_dec c (S m)) as [->|]; [congruence|]. exists c. split; [lia|exact H].
  Qed.

  Lemma try_up_spec sub tgt0 cap : forall fuel c cur, length cur < fuel -> sub <> [] ->
    reps_to c sub tgt0 = Some cur ->
    (try_up k fuel sub tgt0 cap c cur <> None <->
     exists c' rest, c <= c' /\ (c' <= cap \/ c' = c) /\ reps_to c' sub tgt0 = Some rest /\ k rest <> None).
  Proof.
    induction fuel as [|f IH]; intros c cur Hf Hs Hc; [lia|]. cbn [try_up].
    destruct (k cur) eqn:Ek.
    - split; [intros _; exists c, cur; repeat split; [lia|now right|exact Hc|congruence]|discriminate].
    - destruct (Nat.leb_spec cap c) as [Hle|Hgt].
      + split; [congruence|]. intros (c' & rest & H1 & H2 & H3 & H4).
        assert (c' = c) by lia. subst. rewrite Hc in H3. injection H3 as <-. congruence.
      + destruct (rep sub cur) as [nxt|] eqn:Er.
        * assert (Hn : reps_to (S c) sub tgt0 = Some nxt).
          { clear -Hc Er. revert tgt0 Hc. induction c as [|m IHc]; intros tgt0 Hc; cbn [reps_to] in *.
            - injection Hc as ->. now rewrite Er.
            - destruct (rep sub tgt0); [now apply IHc|discriminate]. }
          assert (Hl : length nxt < f) by (apply rep_length in Er; destruct sub; [congruence|]; cbn in Er; lia).
          rewrite (IH (S c) nxt Hl Hs Hn). split.
          -- intros (c' & rest & H1 & H2 & H3 & H4). exists c', rest. repeat split; try assumption; lia.
          -- intros (c' & rest & H1 & H2 & H3 & H4). destruct (Nat.eq_dec c' c) as [->|Hne].
             ++ rewrite Hc in H3. injection H3 as <-. congruence.
             ++ exists c', rest. repeat split; try assumption; lia.
        * split; [congruence|]. intros (c' & rest & H1 & H2 & H3 & H4). destruct (Nat.eq_dec c' c) as [->|Hne].
          -- rewrite Hc in H3. injection H3 as <-. congruence.
          -- exfalso. assert (reps_to (S c) sub tgt0 <> None) by (apply (reps_to_le (S c) c'); [lia|congruence]).
             apply H. clear -Hc Er. revert tgt0 Hc. induction c as [|m IHc]; intros tgt0 Hc; cbn [reps_to] in *.
             ++ injection Hc as ->. now rewrite Er.
             ++ destruct (rep sub tgt0); [now apply IHc|discriminate].
  Qed.
End K.

(* the language of a quantifier in terms of deterministic repetitions *)
Lemma lang_IQ mn mx g sub r tgt :
  lang (IQ mn mx g sub :: r) tgt <-> exists c rest, in_bounds mn mx c /\ reps_to c sub tgt = Some rest /\ lang r rest.
Proof.
  cbn [lang]. split.
  - intros (c & pre & post & Hb & -> & Hr & Hl). exists c, post. split; [exact Hb|]. split; [|exact Hl]. apply reps_to_spec. now exists pre.
  - intros (c & rest & Hb & Hr & Hl). apply reps_to_spec in Hr. destruct Hr as (pre & -> & Hp). exists c, pre, rest.
    split; [exact Hb|]. split; [reflexivity|]. split; assumption.
Qed.

(* THE theorem: for every sequence of element patterns and quantifiers over fixed-length sub-lists (greedy or lazy, any
   bounds) and every target sequence, the backtracking matcher accepts exactly the regular language of the pattern *)
Theorem match_items_accepts_lang items : well_formed items -> forall tgt,
  match_items items false tgt <> None <-> lang items tgt.
Proof.
  induction items as [|it r IH]; intros Hwf tgt.
  - cbn. destruct tgt; split; try congruence; discriminate.
  - assert (Hwr : well_formed r) by (intros mn0 mx0 g0 sub0 Hin; apply (Hwf mn0 mx0 g0 sub0); now right).
    destruct it as [e|mn mx g sub].
    + cbn [match_items lang]. destruct tgt as [|t ts].
      * split; [congruence|]. intros (t & ts & E & _). discriminate.
      * destruct (ematch e t) eqn:Em.
        -- rewrite (IH Hwr ts). split; [intros H; exists t, ts; now repeat split|]. intros (t' & ts' & E & _ & H). now injection E as <- <-.
        -- split; [congruence|]. intros (t' & ts' & E & Em' & _). injection E as <- <-. congruence.
    + destruct (Hwf mn mx g sub (or_introl eq_refl)) as [Hs Hmm].
      rewrite lang_IQ. cbn [match_items].
      set (cap := cap_of mx (length tgt)).
      assert (CAPB : forall c rest, reps_to c sub tgt = Some rest -> c <= length tgt).
      { intros c rest H. apply reps_to_length in H. destruct sub; [congruence|]. cbn in H. nia. }
      destruct g.
      * (* greedy *)
        destruct (count_reps_spec sub Hs (S (length tgt)) tgt cap ltac:(lia)) as (N1 & N2 & N3).
        set (N := count_reps (S (length tgt)) sub tgt cap) in *.
        destruct (Nat.ltb_spec N mn) as [Hlt|Hge].
        -- split; [congruence|]. intros (c & rest & (Hb1 & Hb2) & Hr & _). exfalso.
           assert (Hc : c <= cap) by (unfold cap, cap_of; destruct mx; [assumption|apply CAPB in Hr; lia]).
           assert (N < cap) by lia. specialize (N3 H).
           assert (reps_to (S N) sub tgt <> None) by (apply (reps_to_le (S N) c); [lia|congruence]). congruence.
        -- rewrite try_down_spec by assumption. split.
           ++ intros (c & Hc & Hk). assert (Hrc : reps_to c sub tgt <> None) by (apply (reps_to_le c N); [lia|assumption]).
              destruct (reps_to c sub tgt) as [rest|] eqn:Er; [|congruence]. exists c, rest.
              rewrite (after_reps_eq _ _ _ _ Er) in Hk. split; [|split; [exact Er|now apply IH]].
              split; [lia|]. unfold cap, cap_of in N1. destruct mx; [lia|exact I].
           ++ intros (c & rest & (Hb1 & Hb2) & Hr & Hl). exists c.
              assert (Hc : c <= cap) by (unfold cap, cap_of; destruct mx; [assumption|apply CAPB in Hr; lia]).
              assert (c <= N).
              { destruct (Nat.le_gt_cases c N); [assumption|]. exfalso. assert (N < cap) by lia. specialize (N3 H0).
                assert (reps_to (S N) sub tgt <> None) by (apply (reps_to_le (S N) c); [lia|congruence]). congruence. }
              split; [lia|]. rewrite (after_reps_eq _ _ _ _ Hr). now apply IH.
      * (* lazy *)
        destruct (count_reps_spec sub Hs (S (length tgt)) tgt mn ltac:(lia)) as (M1 & M2 & M3).
        set (M := count_reps (S (length tgt)) sub tgt mn) in *.
        destruct (Nat.ltb_spec M mn) as [Hlt|Hge].
        -- split; [congruence|]. intros (c & rest & (Hb1 & Hb2) & Hr & _). exfalso. specialize (M3 Hlt).
           assert (reps_to (S M) sub tgt <> None) by (apply (reps_to_le (S M) c); [lia|congruence]). congruence.
        -- assert (M = mn) by lia. rewrite H in M2.
           destruct (reps_to mn sub tgt) as [cur|] eqn:Ecur; [|congruence].
           rewrite (after_reps_eq _ _ _ _ Ecur).
           assert (Hlc : length cur < S (length tgt)) by (apply reps_to_length in Ecur; lia).
           rewrite (try_up_spec (match_items r false) sub tgt cap (S (length tgt)) mn cur Hlc Hs Ecur). split.
           ++ intros (c' & rest & H1 & H2 & H3 & H4). exists c', rest. split; [|split; [exact H3|now apply IH]].
              split; [exact H1|]. unfold cap, cap_of in H2. destruct mx as [m|]; [|exact I]. destruct H2 as [H2|H2]; [assumption|lia].
           ++ intros (c & rest & (Hb1 & Hb2) & Hr & Hl). exists c, rest. split; [exact Hb1|]. split; [|split; [exact Hr|now apply IH]].
              left. unfold cap, cap_of. destruct mx; [assumption|apply CAPB in Hr; lia].
Qed.
