(* C15: in a non-recursing on='both' walk, send(True) at the entry yield of a node makes its events exactly its bracket:
   entered once, its whole sub-tree walked, left once; without a send() it is entered and left. *)
From Coq Require Import List Bool Arith Lia.
From PF Require Import models.WalkLeave models.WalkShallow proofs.WalkLeaveProofs.
Import ListNotations.

Lemma bstep_cons i st ds out :
  bstep (i :: st) ds out = let '(stk', ds', out') := bstep [i] ds out in (stk' ++ st, ds', out').
Proof.
  destruct i as [t|t]; cbn [bstep]; destruct (next_dec ds) as [d ds']; cbn.
  - rewrite <- app_assoc. reflexivity.
  - rewrite app_nil_r. reflexivity.
Qed.

(* a stack of full-walk items runs as the full walk does *)
Lemma srun_full : forall f stk ds out, srun f (map SI stk) ds out = brun f stk ds out.
Proof.
  induction f as [|f IH]; intros stk ds out; destruct stk as [|i st]; try reflexivity.
  cbn [map srun brun sstep]. rewrite (bstep_cons i st ds out).
  destruct (bstep [i] ds out) as [[stk' ds'] out']. rewrite <- map_app. apply IH.
Qed.

Theorem shallow_entry_send t st ds out f : silent (2 * sizes (children t) + 1) ds ->
  srun (S (bstepss (children t) + S f)) (SN t :: map SI st) (Some true :: ds) out =
  srun f (map SI st) (skipn (2 * sizes (children t) + 1) ds) (out ++ bracket t).
Proof.
  destruct t as [a cs]. cbn [children]. intros Hq.
  apply silent_split in Hq. destruct Hq as [Q1 Q2]. apply silent_one in Q2. destruct Q2 as [A2 B2].
  cbn [srun sstep next_dec is_true children label].
  replace (map (fun c => SI (E c)) cs ++ SI (L (Node a cs)) :: map SI st) with (map SI (map E cs ++ L (Node a cs) :: st))
    by (rewrite map_app, map_map; reflexivity).
  rewrite !srun_full.
  rewrite (both_children cs (proj2 (Forall_forall both_ok cs) (fun x _ => both_all x)) _ _ _ _ Q1).
  cbn [brun bstep label]. destruct (next_dec (skipn (2 * sizes cs) ds)) as [d2 ds2] eqn:E2. cbn [fst snd] in *. subst d2 ds2. cbn [is_true app].
  rewrite skipn_add. cbn [bracket]. rewrite <- !app_assoc. reflexivity.
Qed.

Theorem shallow_no_send t st ds out f :
  srun (S (S f)) (SN t :: map SI st) (None :: None :: ds) out = srun f (map SI st) ds (out ++ [(label t, false); (label t, true)]).
Proof.
  cbn [srun sstep next_dec is_true app bstep map]. rewrite <- app_assoc. reflexivity.
Qed.

(* a non-recursing walk nobody talks to: each child is entered and left, nothing below it is walked *)
Theorem shallow_quiet : forall cs st ds out f, silent (2 * length cs) ds ->
  srun (2 * length cs + f) (map SN cs ++ map SI st) ds out =
  srun f (map SI st) (skipn (2 * length cs) ds) (out ++ flat_map (fun c => [(label c, false); (label c, true)]) cs).
Proof.
  induction cs as [|c cs IH]; intros st ds out f Hq.
  - cbn. now rewrite app_nil_r.
  - cbn [length] in *. replace (2 * S (length cs)) with (1 + (1 + 2 * length cs)) in * by lia.
    apply silent_split in Hq. destruct Hq as [Q0 Q]. apply silent_split in Q. destruct Q as [Q1 Q2].
    apply silent_one in Q0. destruct Q0 as [A0 B0]. apply silent_one in Q1. destruct Q1 as [A1 B1].
    cbn [map app Nat.add srun sstep].
    destruct (next_dec ds) as [d0 ds0] eqn:E0. cbn [fst snd] in *. subst d0 ds0. cbn [is_true app].
    cbn [srun sstep bstep map label].
    destruct (next_dec (skipn 1 ds)) as [d1 ds1] eqn:E1. cbn [fst snd] in *. subst d1 ds1. cbn [is_true app map].
    rewrite (IH st _ _ f Q2).
    replace (skipn (S (S (2 * length cs))) ds) with (skipn (2 * length cs) (skipn 1 (skipn 1 ds)))
      by (rewrite <- !skipn_add; f_equal; lia).
    cbn [flat_map]. rewrite <- !app_assoc. reflexivity.
Qed.

Example shallow_nonvacuous :
  let t := Node 0 [Node 1 [Node 2 []; Node 3 [Node 4 []]]; Node 5 []] in
  shallow 100 t [] = Some ([(0, false); (1, false); (1, true); (5, false); (5, true); (0, true)], []) /\
  shallow 100 t [Some true] = Some ([(0, false); (1, false); (2, false); (2, true); (3, false); (4, false); (4, true); (3, true); (1, true); (5, false); (5, true); (0, true)], []) /\
  shallow 100 t [Some true; None; None; Some false] = Some ([(0, false); (1, false); (2, false); (2, true); (3, false); (3, true); (1, true); (5, false); (5, true); (0, true)], []).
Proof. vm_compute. repeat split; reflexivity. Qed.
