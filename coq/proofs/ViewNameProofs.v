From Coq Require Import List Arith Bool Lia.
From PF Require Import models.ViewName.
Import ListNotations.

Lemma find_name_spec name : forall l k, find_name name l = Some k ->
  nth_error l k = Some (Some name) /\ forall j, j < k -> nth_error l j <> Some (Some name).
Proof.
  induction l as [|x r IH]; intros k H; cbn [find_name] in H; [discriminate|].
  destruct (match x with Some n => Nat.eqb n name | None => false end) eqn:E.
  - injection H as <-. split; [|intros j Hj; lia]. destruct x as [n|]; [|discriminate]. apply Nat.eqb_eq in E. now subst.
  - destruct (find_name name r) as [k'|] eqn:F; [|discriminate]. injection H as <-. destruct (IH k' eq_refl) as [H1 H2]. split; [exact H1|].
    intros [|j] Hj; cbn [nth_error].
    + intros Hx. injection Hx as ->. rewrite Nat.eqb_refl in E. discriminate.
    + apply H2. lia.
Qed.

Lemma find_name_none name : forall l, find_name name l = None -> forall j, nth_error l j <> Some (Some name).
Proof.
  induction l as [|x r IH]; intros H j; [destruct j; discriminate|]. cbn [find_name] in H.
  destruct (match x with Some n => Nat.eqb n name | None => false end) eqn:E; [discriminate|].
  destruct (find_name name r) eqn:F; [discriminate|]. destruct j as [|j]; cbn [nth_error].
  - intros Hx. injection Hx as ->. rewrite Nat.eqb_refl in E. discriminate.
  - now apply IH.
Qed.

Lemma nth_error_firstn' {A} n : forall (l : list A) k, k < n -> nth_error (firstn n l) k = nth_error l k.
Proof. induction n as [|n IH]; intros l k Hk; [lia|]. destruct l as [|x l]; [reflexivity|]. destruct k as [|k]; [reflexivity|]. cbn [firstn nth_error]. apply IH. lia. Qed.

Lemma nth_error_skipn' {A} n : forall (l : list A) k, nth_error (skipn n l) k = nth_error l (n + k).
Proof. induction n as [|n IH]; intros l k; [reflexivity|]. destruct l as [|x l]; [now destruct k|]. cbn [skipn Nat.add nth_error]. apply IH. Qed.

Lemma nth_error_view names start stop off k : k < stop - start ->
  nth_error (view_slice names start stop off) k = nth_error names (start + off + k).
Proof. intros Hk. unfold view_slice. rewrite nth_error_firstn' by assumption. apply nth_error_skipn'. Qed.

Lemma find_in_view_lt names start stop off name k : find_name name (view_slice names start stop off) = Some k -> k < stop - start.
Proof.
  intros H. apply find_name_spec in H as [H _]. assert (k < length (view_slice names start stop off)) by (apply nth_error_Some; congruence).
  unfold view_slice in H0. rewrite firstn_length in H0. lia.
Qed.

(* the index handed on is view-relative: it lies in the view, the element of the REAL field there defines the name, and no element
   of the view in front of it does *)
Theorem name_index_sound names start stop off name r : name_index names start stop off name = Some r ->
  r < stop - start /\ nth_error names (start + off + r) = Some (Some name)
  /\ forall j, j < r -> nth_error names (start + off + j) <> Some (Some name).
Proof.
  unfold name_index, real_index. destruct (find_name name (view_slice names start stop off)) as [k|] eqn:F; cbn [option_map]; [|discriminate].
  intros H. injection H as <-. replace (start + off + k - start - off) with k by lia.
  pose proof (find_in_view_lt _ _ _ _ _ _ F) as Hk. destruct (find_name_spec _ _ _ F) as [H1 H2]. repeat split; [exact Hk | now rewrite <- (nth_error_view names start stop off k Hk) | ].
  intros j Hj. rewrite <- (nth_error_view names start stop off j) by lia. now apply H2.
Qed.

(* a name that no element of the view defines is refused, whatever the rest of the field holds *)
Theorem name_index_refuses_outside names start stop off name : name_index names start stop off name = None ->
  forall j, j < stop - start -> nth_error names (start + off + j) <> Some (Some name).
Proof.
  unfold name_index, real_index. destruct (find_name name (view_slice names start stop off)) eqn:F; cbn [option_map]; [discriminate|].
  intros _ j Hj. rewrite <- (nth_error_view names start stop off j) by assumption. now apply find_name_none.
Qed.

(* the slip: without the view's start the index is off by `start` - for the module a = 0 / def f / def g / class h / b = 1,
   the view [2:] and the name g it names h's position, and refuses nothing although the index leaves the view for the name h *)
Theorem not_relative_is_wrong :
  let names := [None; Some 1; Some 2; Some 3; None] in
  name_index names 2 5 0 2 = Some 0 /\ name_index_not_relative names 2 5 0 2 = Some 2 /\ name_index_not_relative names 2 5 0 3 = Some 3.
Proof. repeat split. Qed.
