(* Copy / cut on the text: putting the cut lines back at the cut point restores the line list; every character of the
   copied span is found at its shifted position; dedent removes white space only and is inverted by indent. *)
From Coq Require Import List NArith Bool Arith Lia.
From PF Require Import kernel.PyBase kernel.Text models.Extract proofs.TextProofs.
Import ListNotations.

Lemma skipn_skipn {A} (l : list A) a b : skipn a (skipn b l) = skipn (a + b) l.
Proof.
  revert l. induction b as [|b IH]; intros l; [rewrite Nat.add_0_r; reflexivity|].
  destruct l as [|x l]; [rewrite !skipn_nil; reflexivity|].
  rewrite Nat.add_succ_r. simpl. apply IH.
Qed.

Lemma nth_skipn {A} (l : list A) n i d : nth i (skipn n l) d = nth (n + i) l d.
Proof. revert n. induction l as [|a l IH]; intros [|n]; simpl; try reflexivity; [destruct i; reflexivity|apply IH]. Qed.

Lemma firstn_skipn_mid {A} (l : list A) a b : a <= b -> firstn a l ++ firstn (b - a) (skipn a l) ++ skipn b l = l.
Proof.
  intros H. rewrite <- (firstn_skipn a l) at 4. f_equal.
  rewrite <- (firstn_skipn (b - a) (skipn a l)) at 2. f_equal.
  rewrite skipn_skipn. f_equal. lia.
Qed.

Lemma lineAt_app_mid (A B : pytext) x : lineAt (A ++ x :: B) (length A) = x.
Proof. unfold lineAt. rewrite app_nth2, Nat.sub_diag by lia. reflexivity. Qed.

Lemma firstn_app_len {A} (a b : list A) : firstn (length a) (a ++ b) = a.
Proof. rewrite firstn_app, Nat.sub_diag, firstn_all. simpl. apply app_nil_r. Qed.

Lemma skipn_app_len {A} (a b : list A) : skipn (length a) (a ++ b) = b.
Proof. rewrite skipn_app, Nat.sub_diag, skipn_all. reflexivity. Qed.

Lemma skipn_S_app_len {A} (a b : list A) x : skipn (S (length a)) (a ++ x :: b) = b.
Proof. rewrite skipn_app. replace (S (length a) - length a) with 1 by lia. rewrite skipn_all2 by lia. reflexivity. Qed.

(* the three-way split of the line list around lines ln..eln *)
Lemma lines_split (L : pytext) ln eln : ln < eln < length L ->
  L = firstn ln L ++ lineAt L ln :: firstn (eln - ln - 1) (skipn (S ln) L) ++ lineAt L eln :: skipn (S eln) L.
Proof.
  intros H. unfold lineAt.
  rewrite (nth_split L ln []) at 1 by lia. f_equal. f_equal.
  set (R := skipn (S ln) L).
  assert (HR : length R = length L - S ln) by (unfold R; apply skipn_length).
  rewrite (nth_split R (eln - ln - 1) []) at 1 by lia.
  f_equal. f_equal.
  - unfold R. rewrite nth_skipn. f_equal. lia.
  - unfold R. rewrite skipn_skipn. f_equal. lia.
Qed.

(* ---- cut, then put the cut lines back at the cut point: the original line list ---- *)
Theorem cut_put_back_text L ln col eln ecol :
  valid_loc L ln col eln ecol ->
  let '(piece, rest) := cut_text L ln col eln ecol in
  put_spec rest piece ln col ln col = L.
Proof.
  intros (Hle & Heln & Hcol & Hecol & Hsame). unfold cut_text.
  set (l0 := lineAt L ln). set (le := lineAt L eln).
  set (A := firstn ln L). set (B := skipn (S eln) L).
  assert (HA : length A = ln) by (unfold A; apply firstn_length_le; lia).
  assert (Hrest : put_spec L [] ln col eln ecol = A ++ (firstn col l0 ++ skipn ecol le) :: B) by reflexivity.
  rewrite Hrest.
  assert (Hline : lineAt (A ++ (firstn col l0 ++ skipn ecol le) :: B) ln = firstn col l0 ++ skipn ecol le).
  { rewrite <- HA. apply lineAt_app_mid. }
  assert (Hx : firstn col (firstn col l0 ++ skipn ecol le) = firstn col l0).
  { rewrite firstn_app, firstn_firstn, Nat.min_id, firstn_length_le by exact Hcol.
    rewrite Nat.sub_diag. simpl. apply app_nil_r. }
  assert (Hy : skipn col (firstn col l0 ++ skipn ecol le) = skipn ecol le).
  { rewrite skipn_app, firstn_length_le by exact Hcol. rewrite Nat.sub_diag. simpl.
    rewrite skipn_all2 by (rewrite firstn_length; lia). reflexivity. }
  unfold put_spec. rewrite Hline, Hx, Hy.
  rewrite <- HA at 1. rewrite firstn_app_len. rewrite <- HA at 2. rewrite skipn_S_app_len.
  unfold get_src. fold l0 le.
  destruct (Nat.eqb_spec eln ln) as [He|He].
  - (* one line *)
    subst eln. specialize (Hsame eq_refl). fold l0 in le. subst le. simpl glue.
    rewrite (firstn_skipn_mid l0 col ecol Hsame).
    unfold A, B, l0, lineAt. symmetry. apply nth_split. lia.
  - (* several lines *)
    set (mid := firstn (eln - ln - 1) (skipn (S ln) L)).
    assert (Hg : glue (firstn col l0) (skipn col l0 :: mid ++ [firstn ecol le]) (skipn ecol le) = l0 :: mid ++ [le]).
    { unfold glue. destruct (mid ++ [firstn ecol le]) eqn:Hm; [destruct mid; discriminate|]. rewrite <- Hm.
      rewrite removelast_app, last_last by discriminate. simpl removelast. rewrite app_nil_r.
      rewrite !firstn_skipn. reflexivity. }
    rewrite Hg. unfold A, B, mid, l0, le. rewrite (lines_split L ln eln) at 6 by lia.
    simpl. rewrite <- app_assoc. reflexivity.
Qed.

(* ---- every character of the copied span sits at its shifted position in the copy ---- *)
Lemma nth_error_firstn {A} (l : list A) n i : i < n -> nth_error (firstn n l) i = nth_error l i.
Proof.
  revert n i. induction l as [|a l IH]; intros [|n] [|i] H; simpl; try reflexivity; try lia.
  apply IH. lia.
Qed.

Lemma nth_error_skipn {A} (l : list A) n i : nth_error (skipn n l) i = nth_error l (n + i).
Proof. revert n. induction l as [|a l IH]; intros [|n]; simpl; try reflexivity; [destruct i; reflexivity|apply IH]. Qed.

Lemma nth_firstn {A} (l : list A) n i d : i < n -> nth i (firstn n l) d = nth i l d.
Proof.
  revert n i. induction l as [|a l IH]; intros [|n] [|i] H; simpl; try reflexivity; try lia.
  apply IH. lia.
Qed.

Definition pos_in (ln col eln ecol : nat) (p : nat * nat) : Prop :=
  let '(pl, pc) := p in
  ln <= pl <= eln /\ (pl = ln -> col <= pc) /\ (pl = eln -> pc < ecol).

Theorem copy_char_faithful L ln col eln ecol p :
  valid_loc L ln col eln ecol -> pos_in ln col eln ecol p ->
  char_at (copy_text L ln col eln ecol) (shift_pos ln col p) = char_at L p.
Proof.
  intros (Hle & Heln & Hcol & Hecol & Hsame) Hp. destruct p as [pl pc].
  destruct Hp as (Hpl & Hs & He). unfold char_at, copy_text, get_src, shift_pos. simpl fst. simpl snd.
  destruct (Nat.eqb_spec eln ln) as [Heq|Hne].
  - subst eln. assert (pl = ln) by lia. subst pl. rewrite Nat.eqb_refl, Nat.sub_diag.
    specialize (Hs eq_refl). specialize (He eq_refl).
    unfold lineAt at 1. simpl nth.
    rewrite nth_error_firstn by lia. rewrite nth_error_skipn. f_equal. lia.
  - remember (skipn (S ln) L) as R eqn:HR.
    assert (HRl : length R = length L - S ln) by (subst R; apply skipn_length).
    assert (HRn : forall k d, nth k R d = nth (S ln + k) L d) by (intros; subst R; apply nth_skipn).
    destruct (Nat.eqb_spec pl ln) as [Hpln|Hpln].
    + subst pl. rewrite Nat.sub_diag. specialize (Hs eq_refl). unfold lineAt at 1. simpl nth.
      rewrite nth_error_skipn. f_equal. lia.
    + unfold lineAt at 1.
      replace (pl - ln) with (S (pl - ln - 1)) by lia. simpl nth.
      destruct (Nat.eq_dec pl eln) as [Hple|Hple].
      * subst pl. specialize (He eq_refl).
        rewrite app_nth2 by (rewrite firstn_length; lia).
        rewrite firstn_length.
        replace (eln - ln - 1 - Nat.min (eln - ln - 1) (length R)) with 0 by lia.
        simpl nth. apply nth_error_firstn. exact He.
      * rewrite app_nth1 by (rewrite firstn_length; lia).
        f_equal. unfold lineAt.
        rewrite nth_firstn by lia. rewrite HRn. f_equal. lia.
Qed.

(* ---- dedent ---- *)
Lemma line_starts_with_app p l : line_starts_with p (p ++ l) = true.
Proof. induction p as [|a p IH]; simpl; [reflexivity|]. rewrite N.eqb_refl. exact IH. Qed.

Lemma line_starts_with_split p l : line_starts_with p l = true -> l = p ++ skipn (length p) l.
Proof.
  revert l. induction p as [|a p IH]; intros l H; [reflexivity|].
  destruct l as [|b l]; [discriminate|]. simpl in H. apply andb_true_iff in H. destruct H as [Hab Hp].
  apply N.eqb_eq in Hab. subst b. simpl. f_equal. apply IH. exact Hp.
Qed.

Definition strip_ws (l : pyline) : pyline := skipn (ws_len l) l.

Lemma ws_len_le l : ws_len l <= length l.
Proof. induction l as [|c l IH]; simpl; [lia|]. destruct (is_ws c); simpl; lia. Qed.

Lemma strip_skipn l k : k <= ws_len l -> strip_ws (skipn k l) = strip_ws l.
Proof.
  unfold strip_ws. revert k. induction l as [|c l IH]; intros k Hk.
  - rewrite skipn_nil. reflexivity.
  - destruct k as [|k]; [reflexivity|]. simpl in Hk. simpl skipn at 2.
    destruct (is_ws c) eqn:Hc; [|lia]. simpl ws_len. rewrite Hc. simpl. apply IH. lia.
Qed.

Lemma ws_len_all d : forallb is_ws d = true -> ws_len d = length d.
Proof. induction d as [|c d IH]; simpl; [reflexivity|]. intros H. apply andb_true_iff in H. destruct H as [Hc Hd]. rewrite Hc, IH by exact Hd. reflexivity. Qed.

Lemma ws_len_app_all d l : forallb is_ws d = true -> ws_len (d ++ l) = length d + ws_len l.
Proof. induction d as [|c d IH]; simpl; [reflexivity|]. intros H. apply andb_true_iff in H. destruct H as [Hc Hd]. rewrite Hc, IH by exact Hd. reflexivity. Qed.

Definition full_dedent (d l : pyline) : bool := line_starts_with d l || Nat.leb (length d) (ws_len l).

Lemma dedent_line_ne d l : l <> [] -> dedent_line d l = if full_dedent d l then skipn (length d) l else skipn (ws_len l) l.
Proof. destruct l; [congruence|reflexivity]. Qed.

Lemma dedent_amount_ne d l : l <> [] -> dedent_amount d l = if full_dedent d l then length d else ws_len l.
Proof. destruct l; [congruence|reflexivity]. Qed.

(* dedent removes leading white space only: what follows the indentation of the line is unchanged *)
Theorem dedent_removes_whitespace_only d l :
  forallb is_ws d = true -> strip_ws (dedent_line d l) = strip_ws l /\ dedent_line d l = skipn (dedent_amount d l) l /\ dedent_amount d l <= ws_len l.
Proof.
  intros Hd. destruct l as [|c l]; [repeat split; simpl; lia|].
  assert (Hne : c :: l <> []) by discriminate. generalize dependent (c :: l). clear c l. intros ll Hne.
  rewrite dedent_line_ne, dedent_amount_ne by exact Hne. unfold full_dedent.
  destruct (line_starts_with d ll) eqn:Hs; cbn [orb].
  - assert (Hk : length d <= ws_len ll).
    { rewrite (line_starts_with_split d ll Hs). rewrite ws_len_app_all by exact Hd. lia. }
    split; [apply strip_skipn; exact Hk|split; [reflexivity|exact Hk]].
  - destruct (Nat.leb (length d) (ws_len ll)) eqn:Hleb.
    + apply Nat.leb_le in Hleb. split; [apply strip_skipn; exact Hleb|split; [reflexivity|exact Hleb]].
    + split; [apply strip_skipn; lia|split; [reflexivity|lia]].
Qed.

(* a line that carries the indentation is restored by re-indenting; empty lines stay empty *)
Theorem indent_dedent_line d l : l = [] \/ line_starts_with d l = true -> indent_line d (dedent_line d l) = l \/ dedent_line d l = [].
Proof.
  intros [->|Hs]; [left; reflexivity|].
  destruct l as [|c l]; [left; reflexivity|].
  rewrite dedent_line_ne by discriminate. unfold full_dedent. rewrite Hs. cbn [orb].
  destruct (skipn (length d) (c :: l)) as [|x r] eqn:Hr; [right; reflexivity|left].
  unfold indent_line. rewrite <- Hr. symmetry. apply line_starts_with_split. exact Hs.
Qed.

Theorem dedent_indent_line d l : dedent_line d (indent_line d l) = l.
Proof.
  unfold indent_line. destruct l as [|c l]; [reflexivity|].
  rewrite dedent_line_ne by (destruct d; discriminate). unfold full_dedent.
  rewrite line_starts_with_app. cbn [orb]. apply skipn_app_len.
Qed.

(* characters keep their identity under the column change reported for the line *)
Theorem dedent_char_faithful d l c : dedent_amount d l <= c -> nth_error (dedent_line d l) (c - dedent_amount d l) = nth_error l c.
Proof.
  intros H. destruct l as [|x l]; [simpl; destruct (c - 0); destruct c; reflexivity|].
  rewrite dedent_amount_ne in * by discriminate. rewrite dedent_line_ne by discriminate.
  destruct (full_dedent d (x :: l)); rewrite nth_error_skipn; f_equal; lia.
Qed.

(* lines outside lns are untouched, lines inside get the per-line function *)
Lemma map_lns_nth f lns i L k : nth_error (map_lns f lns i L) k =
  option_map (fun l => if existsb (Nat.eqb (i + k)) lns then f l else l) (nth_error L k).
Proof.
  revert i k. induction L as [|l L IH]; intros i k; [destruct k; reflexivity|].
  destruct k as [|k]; simpl; [rewrite Nat.add_0_r; reflexivity|].
  rewrite IH. replace (S i + k) with (i + S k) by lia. reflexivity.
Qed.

Theorem dedent_lns_spec d lns L k :
  nth_error (dedent_lns d lns L) k = option_map (fun l => if existsb (Nat.eqb k) lns then dedent_line d l else l) (nth_error L k).
Proof. unfold dedent_lns. rewrite map_lns_nth. reflexivity. Qed.

Lemma map_lns_length f lns i L : length (map_lns f lns i L) = length L.
Proof. revert i. induction L as [|l L IH]; intros i; simpl; [reflexivity|]. rewrite IH. reflexivity. Qed.

Theorem dedent_then_indent_lns d lns L :
  dedent_lns d lns (indent_lns d lns L) = L.
Proof.
  unfold dedent_lns, indent_lns. generalize 0 as i. induction L as [|l L IH]; intros i; [reflexivity|].
  simpl. rewrite IH. destruct (existsb (Nat.eqb i) lns); [rewrite dedent_indent_line|]; reflexivity.
Qed.
