(* K1 theorems: every branch of _put_src is the one algebraic splice; the splice is local. *)
From Coq Require Import ZArith NArith List Bool Lia Arith.
From PF Require Import kernel.PyBase kernel.Text proofs.ContainerProofs.
Import ListNotations.
Local Open Scope nat_scope.

Lemma set_nth_eq {A} (l : list A) i x : set_nth l i x = set_range l i (S i) [x].
Proof. reflexivity. Qed.

Lemma nth_split {A} (l : list A) i d : i < length l -> l = firstn i l ++ nth i l d :: skipn (S i) l.
Proof.
  revert i; induction l as [|a l IH]; intros i H; [cbn in H; lia|].
  destruct i; [reflexivity|]. cbn [firstn nth skipn app]. f_equal. apply IH. cbn in H; lia.
Qed.

Lemma firstn_set_range {A} (l : list A) a b new : a <= length l -> firstn a (set_range l a b new) = firstn a l.
Proof.
  intros H. unfold set_range. rewrite firstn_app, firstn_firstn, Nat.min_id, firstn_length, Nat.min_l by lia.
  rewrite Nat.sub_diag. cbn. apply app_nil_r.
Qed.

Lemma skipn_set_range {A} (l : list A) a b new : a <= length l ->
  skipn (a + length new) (set_range l a b new) = skipn b l.
Proof.
  intros H. unfold set_range. rewrite skipn_app, firstn_length, Nat.min_l by lia.
  rewrite (skipn_all2 (firstn a l)) by (rewrite firstn_length; lia).
  replace (a + length new - a) with (length new) by lia. cbn [app].
  rewrite skipn_app, skipn_all, Nat.sub_diag. reflexivity.
Qed.

Lemma removelast_last {A} (l : list A) d : l <> [] -> removelast l ++ [last l d] = l.
Proof. intros H. symmetry. now apply app_removelast_last. Qed.

(* all five branches of _put_src compute the same splice *)
Theorem put_src_is_spec L P ln col eln ecol :
  valid_loc L ln col eln ecol -> put_lines_of P <> [] ->
  put_src L P ln col eln ecol = put_spec L (put_lines_of P) ln col eln ecol.
Proof.
  intros (Hle & Hlen & Hc & Hec & Hsame) Hne. unfold put_src, put_spec, lineAt, pytext, pyline in *.
  destruct P as [put|]; cbn [put_lines_of] in *.
  - destruct put as [|p0 rest]; [congruence|].
    destruct rest as [|p1 rest].
    + (* one new line *)
      cbn [glue]. destruct (Nat.eqb_spec eln ln) as [->|Hn].
      * unfold set_nth. reflexivity.
      * unfold set_range. reflexivity.
    + (* several new lines *)
      set (R := p1 :: rest). assert (HR : R <> []) by (subst R; discriminate).
      change (glue (firstn col (nth ln L [])) (p0 :: R) (skipn ecol (nth eln L [])))
        with ((firstn col (nth ln L []) ++ p0) :: removelast R ++ [last R [] ++ skipn ecol (nth eln L [])]).
      destruct (Nat.eqb_spec eln ln) as [->|Hn].
      * (* same line *)
        cbv zeta. rewrite !set_nth_eq.
        set (x := firstn col (nth ln L []) ++ p0). set (y := last R [] ++ skipn ecol (nth ln L [])).
        unfold set_range at 3. unfold set_range at 2.
        assert (E1 : firstn (S ln) (firstn ln L ++ [x] ++ skipn (S ln) L) = firstn ln L ++ [x]).
        { rewrite app_assoc. rewrite firstn_app.
          rewrite firstn_all2 by (rewrite app_length, firstn_length; cbn; lia).
          rewrite app_length, firstn_length, Nat.min_l by lia. cbn [length].
          replace (S ln - (ln + 1)) with 0 by lia. cbn. now rewrite app_nil_r. }
        assert (E2 : skipn (S ln) (firstn ln L ++ [x] ++ skipn (S ln) L) = skipn (S ln) L).
        { rewrite app_assoc. rewrite skipn_app.
          rewrite skipn_all2 by (rewrite app_length, firstn_length; cbn; lia).
          rewrite app_length, firstn_length, Nat.min_l by lia. cbn [length].
          replace (S ln - (ln + 1)) with 0 by lia. reflexivity. }
        rewrite E1, E2.
        (* now replace the last inserted line *)
        set (M := (firstn ln L ++ [x]) ++ R ++ skipn (S ln) L).
        assert (Hidx : ln + length (p0 :: R) - 1 = length (firstn ln L ++ [x]) + (length R - 1)).
        { rewrite app_length, firstn_length, Nat.min_l by lia. cbn [length]. destruct R; [congruence|cbn; lia]. }
        rewrite Hidx. unfold set_range.
        assert (HRl : length R - 1 < length R) by (destruct R; [congruence|cbn; lia]).
        assert (F : firstn (length (firstn ln L ++ [x]) + (length R - 1)) M = (firstn ln L ++ [x]) ++ removelast R).
        { unfold M. rewrite firstn_app_2. f_equal. rewrite firstn_app.
          replace (length R - 1 - length R) with 0 by lia. cbn [firstn]. rewrite app_nil_r.
          rewrite <- (removelast_last R []) at 2 by assumption.
          rewrite firstn_app. rewrite firstn_all2.
          2:{ rewrite <- (removelast_last R []) in HRl at 2 by assumption. rewrite app_length in HRl. cbn in HRl.
              assert (length (removelast R) = length R - 1).
              { rewrite <- (removelast_last R []) at 2 by assumption. rewrite app_length. cbn. lia. } lia. }
          assert (length (removelast R) = length R - 1).
          { rewrite <- (removelast_last R []) at 2 by assumption. rewrite app_length. cbn. lia. }
          replace (length R - 1 - length (removelast R)) with 0 by lia. cbn. now rewrite app_nil_r. }
        assert (S' : skipn (S (length (firstn ln L ++ [x]) + (length R - 1))) M = skipn (S ln) L).
        { unfold M. replace (S (length (firstn ln L ++ [x]) + (length R - 1))) with (length (firstn ln L ++ [x]) + length R) by lia.
          rewrite skipn_app. rewrite skipn_all2 by lia.
          replace (length (firstn ln L ++ [x]) + length R - length (firstn ln L ++ [x])) with (length R) by lia.
          cbn [app]. rewrite skipn_app, skipn_all, Nat.sub_diag. reflexivity. }
        rewrite F, S'. rewrite <- ?app_assoc. cbn [app]. rewrite <- ?app_assoc. reflexivity.
      * (* different lines *)
        cbv zeta. rewrite !set_nth_eq.
        set (x := firstn col (nth ln L []) ++ p0). set (y := last R [] ++ skipn ecol (nth eln L [])).
        unfold set_range.
        assert (Hln : ln < eln) by lia.
        (* L1 = firstn ln L ++ [x] ++ skipn (S ln) L *)
        set (L1 := firstn ln L ++ [x] ++ skipn (S ln) L).
        assert (len1 : length L1 = length L).
        { unfold L1. rewrite !app_length, firstn_length, skipn_length, Nat.min_l by lia. cbn. lia. }
        assert (F1 : firstn eln L1 = firstn ln L ++ [x] ++ firstn (eln - S ln) (skipn (S ln) L)).
        { unfold L1. rewrite firstn_app, firstn_length, Nat.min_l by lia.
          rewrite firstn_all2 by (rewrite firstn_length; lia). f_equal.
          replace (eln - ln) with (S (eln - S ln)) by lia. reflexivity. }
        assert (S1 : skipn (S eln) L1 = skipn (S eln) L).
        { unfold L1. rewrite skipn_app, firstn_length, Nat.min_l by lia.
          rewrite skipn_all2 by (rewrite firstn_length; lia).
          replace (S eln - ln) with (S (eln - ln)) by lia. cbn [app]. rewrite skipn_cons.
          rewrite skipn_skipn'. f_equal. lia. }
        rewrite F1, S1.
        set (L2 := (firstn ln L ++ [x] ++ firstn (eln - S ln) (skipn (S ln) L)) ++ [y] ++ skipn (S eln) L).
        assert (F2 : firstn (S ln) L2 = firstn ln L ++ [x]).
        { unfold L2. rewrite <- !app_assoc. rewrite firstn_app, firstn_length, Nat.min_l by lia.
          rewrite firstn_all2 by (rewrite firstn_length; lia).
          replace (S ln - ln) with 1 by lia. reflexivity. }
        assert (S2 : skipn eln L2 = [y] ++ skipn (S eln) L).
        { unfold L2. rewrite skipn_app. rewrite skipn_all2.
          2:{ rewrite !app_length, !firstn_length, skipn_length. cbn. lia. }
          assert (length (firstn ln L ++ [x] ++ firstn (eln - S ln) (skipn (S ln) L)) = eln).
          { rewrite !app_length, !firstn_length, skipn_length. cbn. lia. }
          rewrite H, Nat.sub_diag. reflexivity. }
        rewrite F2, S2. rewrite <- ?app_assoc. cbn [app]. rewrite <- ?app_assoc. reflexivity.
  - (* delete *)
    cbn [glue]. rewrite app_nil_l.
    destruct (Nat.eqb_spec eln ln) as [->|Hn]; cbn [negb].
    + destruct (Nat.eqb_spec ecol col) as [->|Hc2]; cbn [negb].
      * (* nothing to delete: the splice is the identity *)
        rewrite firstn_skipn. cbn [app]. now apply nth_split.
      * reflexivity.
    + reflexivity.
Qed.

(* ---- locality of the splice ---------------------------------------------------------------------------------- *)

Lemma length_removelast {A} (l : list A) : length (removelast l) = length l - 1.
Proof.
  induction l as [|a l IH]; [reflexivity|]. destruct l as [|b l]; [reflexivity|].
  cbn [removelast length] in *. lia.
Qed.

Lemma glue_length x put y : length (glue x put y) = Nat.max 1 (length put).
Proof.
  destruct put as [|p [|q r]]; try reflexivity.
  cbn [glue length]. rewrite app_length, length_removelast. cbn [length]. lia.
Qed.

(* lines above the edit are untouched *)
Theorem put_spec_before L put ln col eln ecol i d : ln <= length L -> i < ln ->
  nth i (put_spec L put ln col eln ecol) d = nth i L d.
Proof.
  intros Hl Hi. unfold put_spec. rewrite app_nth1 by (rewrite firstn_length; lia).
  rewrite <- (firstn_skipn ln L) at 2. now rewrite app_nth1 by (rewrite firstn_length; lia).
Qed.

(* lines below the edit are untouched and keep their order: old line k is new line k - (eln-ln) + (|put|-1) *)
Theorem put_spec_after L put ln col eln ecol k d : ln <= eln < length L -> eln < k -> put <> [] ->
  nth (k - (eln - ln) + (length put - 1)) (put_spec L put ln col eln ecol) d = nth k L d.
Proof.
  intros Hl Hk Hp. unfold put_spec.
  rewrite app_nth2 by (rewrite firstn_length; lia). rewrite firstn_length, Nat.min_l by lia.
  rewrite app_nth2 by (rewrite glue_length; destruct put; [congruence|cbn [length]; lia]).
  rewrite glue_length.
  replace (k - (eln - ln) + (length put - 1) - ln - Nat.max 1 (length put)) with (k - S eln)
    by (destruct put; [congruence|cbn [length]; lia]).
  rewrite <- (firstn_skipn (S eln) L) at 2.
  rewrite app_nth2 by (rewrite firstn_length; lia). rewrite firstn_length, Nat.min_l by lia. reflexivity.
Qed.

Theorem put_spec_length L put ln col eln ecol : ln <= eln < length L -> put <> [] ->
  length (put_spec L put ln col eln ecol) = length L - (eln - ln) + (length put - 1).
Proof.
  intros Hl Hp. unfold put_spec. rewrite !app_length, glue_length, firstn_length, skipn_length, Nat.min_l by lia.
  destruct put; [congruence|cbn [length]; lia].
Qed.

(* the start line keeps its first `col` characters *)
Theorem put_spec_start_prefix L put ln col eln ecol : ln <= length L -> col <= length (lineAt L ln) ->
  firstn col (nth ln (put_spec L put ln col eln ecol) []) = firstn col (lineAt L ln).
Proof.
  intros Hl Hc. unfold put_spec. rewrite app_nth2 by (rewrite firstn_length; lia).
  rewrite firstn_length, Nat.min_l, Nat.sub_diag by lia.
  set (x := firstn col (lineAt L ln)).
  assert (Hx : length x = col) by (unfold x; rewrite firstn_length; lia).
  destruct put as [|p [|q r]]; cbn [glue app nth].
  - rewrite <- Hx at 1. rewrite firstn_app, firstn_all, Nat.sub_diag. cbn. apply app_nil_r.
  - rewrite <- Hx at 1. rewrite firstn_app, firstn_all, Nat.sub_diag. cbn. apply app_nil_r.
  - rewrite <- Hx at 1. rewrite firstn_app, firstn_all, Nat.sub_diag. cbn. apply app_nil_r.
Qed.

(* the new end line is  NEWPREFIX ++ (old end line from ecol on): text after the edit is kept verbatim *)
Definition new_prefix (L : pytext) (put : pytext) (ln col : nat) : pyline :=
  match put with
  | [] => firstn col (lineAt L ln)
  | [p] => firstn col (lineAt L ln) ++ p
  | _ => last put []
  end.

Theorem put_spec_end_line L put ln col eln ecol : ln <= length L ->
  nth (ln + (length put - 1)) (put_spec L put ln col eln ecol) []
  = new_prefix L put ln col ++ skipn ecol (lineAt L eln).
Proof.
  intros Hl. unfold put_spec. rewrite app_nth2 by (rewrite firstn_length; lia).
  rewrite firstn_length, Nat.min_l by lia.
  replace (ln + (length put - 1) - ln) with (length put - 1) by lia.
  destruct put as [|p [|q r]]; cbn [glue length new_prefix].
  - reflexivity.
  - cbn. now rewrite app_assoc.
  - replace (S (S (length r)) - 1) with (S (length r)) by lia.
    set (R := q :: r).
    assert (HL : length (removelast R) = length r).
    { rewrite length_removelast. unfold R. cbn [length]. lia. }
    cbn [app nth]. rewrite app_nth1.
    2:{ rewrite app_length. cbn [length]. lia. }
    rewrite app_nth2 by lia. rewrite HL, Nat.sub_diag. cbn [nth].
    change (last (p :: R) []) with (last R []). reflexivity.
Qed.

(* ---- byte view of a line: dropping n BYTES (n on a character boundary) ------------------------------------------ *)
Fixpoint bskip (n : nat) (l : pyline) : pyline :=
  match n, l with
  | 0, _ => l
  | _, [] => []
  | _, c :: r => bskip (n - u8w c) r
  end.

Lemma bskip_app x y k : bskip (blen_nat x + k) (x ++ y) = bskip k y.
Proof.
  induction x as [|c x IH]; [reflexivity|].
  cbn [blen_nat app]. assert (0 < u8w c) by (unfold u8w; repeat destruct (_ <? _)%N; lia).
  destruct (u8w c + blen_nat x + k) eqn:E; [lia|]. cbn [bskip]. rewrite <- E.
  replace (u8w c + blen_nat x + k - u8w c) with (blen_nat x + k) by lia. apply IH.
Qed.

(* Text after the edited region is reachable at the byte column the offset parameters predict:
   a byte column b >= (old end of region) on the old end line and b + dcol on the new end line see the same text. *)
Theorem end_line_suffix_bytes L put ln col eln ecol k : ln <= length L -> ecol <= length (lineAt L eln) ->
  bskip (blen_nat (new_prefix L put ln col) + k) (nth (ln + (length put - 1)) (put_spec L put ln col eln ecol) [])
  = bskip (c2b (lineAt L eln) ecol + k) (lineAt L eln).
Proof.
  intros Hl He. rewrite put_spec_end_line by assumption. rewrite bskip_app.
  unfold c2b. rewrite <- (firstn_skipn ecol (lineAt L eln)) at 3. now rewrite bskip_app.
Qed.
