(* C14: the walk stack machines compute the structural traversal orders, for every tree, filter and direction. *)
From Coq Require Import List Bool Arith Lia.
From PF Require Import models.Walk.
Import ListNotations.

Definition opre (k : option rtree) : list nat := match k with Some k => pre k | None => [] end.
Definition opost (k : option rtree) : list nat := match k with Some k => post k | None => [] end.
Definition oboth (k : option rtree) : list (nat * bool) := match k with Some k => both k | None => [] end.

Lemma wsize_app a b : wsize (a ++ b) = wsize a + wsize b.
Proof. induction a as [|x a IH]; [reflexivity|]. cbn [app wsize fold_right] in *. fold (wsize (a ++ b)). fold (wsize a). lia. Qed.

Lemma size_unfold i ok kids : size (RNode i ok kids) = S (wsize kids).
Proof. reflexivity. Qed.

Lemma osize_pos k : 1 <= osize k.
Proof. destruct k as [[i ok kids]|]; cbn; lia. Qed.

(* ---- enter, forwards, recursing: preorder ------------------------------------------------------------------------- *)
Lemma run_enter_pre fuel : forall stack, wsize stack <= fuel ->
  run_enter fuel false true stack = flat_map opre stack.
Proof.
  induction fuel as [|f IH]; intros stack H.
  - destruct stack as [|x s]; [reflexivity|]. cbn [wsize fold_right] in H. pose proof (osize_pos x). lia.
  - destruct stack as [|[[i ok kids]|] s]; [reflexivity| |].
    + cbn [run_enter ord flat_map opre pre]. cbn [wsize fold_right osize] in H. fold (wsize s) in H. rewrite size_unfold in H.
      rewrite IH by (rewrite wsize_app; lia). rewrite flat_map_app.
      destruct ok; cbn [app]; rewrite <- ?app_assoc; reflexivity.
    + cbn [run_enter flat_map opre app]. apply IH. cbn [wsize fold_right osize] in H. fold (wsize s) in H. lia.
Qed.

(* without recursion only the stacked nodes themselves are tested *)
Lemma run_enter_norec fuel back : forall stack, length stack <= fuel ->
  run_enter fuel back false stack = flat_map (fun k => match k with Some (RNode i true _) => [i] | _ => [] end) stack.
Proof.
  induction fuel as [|f IH]; intros stack H.
  - destruct stack; [reflexivity|cbn in H; lia].
  - destruct stack as [|[[i ok kids]|] s]; [reflexivity| |]; cbn [run_enter flat_map]; cbn in H.
    + destruct ok; cbn [app]; rewrite IH by lia; reflexivity.
    + cbn [app]. apply IH. lia.
Qed.

(* backwards = forwards on the mirrored tree *)
Lemma wsize_mirror s : wsize (map omirror s) = wsize s.
Proof.
  assert (Hs : forall t, size (mirror t) = size t).
  { fix IHt 1. intros [i ok kids]. cbn [mirror]. rewrite !size_unfold. f_equal.
    induction kids as [|k kids IHk]; [reflexivity|].
    cbn [map rev]. rewrite wsize_app. cbn [wsize fold_right] in *. fold (wsize kids).
    rewrite IHk. destruct k as [k|]; cbn [osize]; [rewrite IHt|]; lia. }
  induction s as [|k s IH]; [reflexivity|]. cbn [map wsize fold_right]. fold (wsize (map omirror s)). fold (wsize s).
  rewrite IH. destruct k as [k|]; cbn [omirror osize]; [now rewrite Hs|reflexivity].
Qed.

Lemma run_enter_back fuel recurse : forall stack,
  run_enter fuel true recurse stack = run_enter fuel false recurse (map omirror stack).
Proof.
  induction fuel as [|f IH]; intros stack; [reflexivity|].
  destruct stack as [|[[i ok kids]|] s]; [reflexivity| |].
  - cbn [run_enter map omirror mirror ord].
    assert (E : (if recurse then rev (map omirror kids) ++ map omirror s else map omirror s)
                = map omirror (if recurse then rev kids ++ s else s)).
    { destruct recurse; [|reflexivity]. now rewrite map_app, map_rev. }
    change (fun k => match k with Some k0 => Some (mirror k0) | None => None end) with omirror.
    rewrite E. destruct ok; now rewrite IH.
  - cbn [run_enter map omirror]. apply IH.
Qed.

Theorem walk_enter_preorder t : walk_enter false true t = pre t.
Proof.
  destruct t as [i ok kids]. unfold walk_enter. cbn [ord pre]. now rewrite run_enter_pre by lia.
Qed.

Theorem walk_enter_back_is_mirror_preorder t : walk_enter true true t = pre (mirror t).
Proof.
  destruct t as [i ok kids]. unfold walk_enter. cbn [ord pre mirror]. f_equal.
  rewrite run_enter_back. rewrite map_rev.
  change (fun k => match k with Some k0 => Some (mirror k0) | None => None end) with omirror.
  rewrite run_enter_pre; [reflexivity|].
  rewrite <- map_rev, wsize_mirror.
  assert (forall l, wsize (rev l) = wsize l).
  { induction l as [|x l IHl]; [reflexivity|]. cbn [rev]. rewrite wsize_app. cbn [wsize fold_right] in *. fold (wsize l). lia. }
  rewrite H. lia.
Qed.

Theorem walk_norecurse back t :
  walk_enter back false t = (if let 'RNode _ ok _ := t in ok then [rid t] else []) ++
    flat_map (fun k => match k with Some (RNode i true _) => [i] | _ => [] end) (ord back (rkids t)).
Proof.
  destruct t as [i ok kids]. unfold walk_enter. cbn [rid rkids]. f_equal.
  apply run_enter_norec.
  assert (forall l, length l <= wsize l).
  { induction l as [|x l IHl]; [reflexivity|]. cbn [length wsize fold_right]. fold (wsize l). pose proof (osize_pos x). lia. }
  unfold ord. destruct back; [rewrite rev_length|]; apply H.
Qed.

(* ---- leave: postorder; both: bracketed --------------------------------------------------------------------------- *)
Definition ipost (x : sitem) : list nat :=
  match x with SEnter k => opost k | SLeave (RNode i ok _) => if ok then [i] else [] end.
Definition iboth (x : sitem) : list (nat * bool) :=
  match x with SEnter k => oboth k | SLeave (RNode i ok _) => if ok then [(i, true)] else [] end.

Lemma lsize_app a b : lsize (a ++ b) = lsize a + lsize b.
Proof. induction a as [|x a IH]; [reflexivity|]. cbn [app lsize fold_right] in *. fold (lsize (a ++ b)). fold (lsize a). lia. Qed.

Lemma lsize_enter kids : lsize (map SEnter kids) = 2 * wsize kids.
Proof. induction kids as [|k kids IH]; [reflexivity|]. cbn [map lsize fold_right isize wsize] in *. fold (lsize (map SEnter kids)). fold (wsize kids). lia. Qed.

Lemma flat_map_enter {B} (g : sitem -> list B) (h : option rtree -> list B) kids :
  (forall k, g (SEnter k) = h k) -> flat_map g (map SEnter kids) = flat_map h kids.
Proof. intros H. induction kids as [|k kids IH]; [reflexivity|]. cbn. now rewrite H, IH. Qed.

Lemma run_leave_post fuel : forall stack, lsize stack <= fuel -> run_leave fuel false stack = flat_map ipost stack.
Proof.
  induction fuel as [|f IH]; intros stack H.
  - destruct stack as [|x s]; [reflexivity|]. cbn [lsize fold_right] in H.
    destruct x as [k|[i ok kids]]; cbn [isize] in H; [pose proof (osize_pos k)|]; lia.
  - destruct stack as [|[[[i ok kids]|]|[i ok kids]] s]; [reflexivity| | |].
    + cbn [run_leave ord flat_map ipost opost post]. cbn [lsize fold_right isize osize] in H. fold (lsize s) in H. rewrite size_unfold in H.
      destruct ok; cbn [negb].
      * destruct kids as [|k0 kids'] eqn:Ek.
        -- cbn [flat_map app]. rewrite IH by lia. reflexivity.
        -- rewrite <- Ek in *. rewrite IH.
           ++ rewrite flat_map_app. cbn [flat_map ipost]. rewrite (flat_map_enter ipost opost) by reflexivity.
              rewrite <- app_assoc. reflexivity.
           ++ rewrite lsize_app, lsize_enter. cbn [lsize fold_right isize]. fold (lsize s). lia.
      * rewrite IH.
        -- rewrite flat_map_app. rewrite (flat_map_enter ipost opost) by reflexivity. now rewrite app_nil_r.
        -- rewrite lsize_app, lsize_enter. lia.
    + cbn [run_leave flat_map ipost opost app]. apply IH. cbn [lsize fold_right isize osize] in H. fold (lsize s) in H. lia.
    + cbn [run_leave flat_map ipost]. cbn [lsize fold_right isize] in H. fold (lsize s) in H.
      destruct ok; cbn [app]; rewrite IH by lia; reflexivity.
Qed.

Theorem walk_leave_postorder t : walk_leave false t = post t.
Proof.
  destruct t as [i ok kids]. unfold walk_leave. cbn [ord post].
  rewrite run_leave_post by lia. now rewrite (flat_map_enter ipost opost) by reflexivity.
Qed.

Lemma run_both_both fuel : forall stack, lsize stack <= fuel -> run_both fuel false stack = flat_map iboth stack.
Proof.
  induction fuel as [|f IH]; intros stack H.
  - destruct stack as [|x s]; [reflexivity|]. cbn [lsize fold_right] in H.
    destruct x as [k|[i ok kids]]; cbn [isize] in H; [pose proof (osize_pos k)|]; lia.
  - destruct stack as [|[[[i ok kids]|]|[i ok kids]] s]; [reflexivity| | |].
    + cbn [run_both ord flat_map iboth oboth both]. cbn [lsize fold_right isize osize] in H. fold (lsize s) in H. rewrite size_unfold in H.
      destruct ok.
      * rewrite IH.
        -- rewrite flat_map_app. cbn [flat_map iboth]. rewrite (flat_map_enter iboth oboth) by reflexivity.
           cbn [app]. rewrite <- !app_assoc. reflexivity.
        -- rewrite lsize_app, lsize_enter. cbn [lsize fold_right isize]. fold (lsize s). lia.
      * rewrite IH.
        -- rewrite flat_map_app. rewrite (flat_map_enter iboth oboth) by reflexivity. cbn [app]. now rewrite app_nil_r.
        -- rewrite lsize_app, lsize_enter. lia.
    + cbn [run_both flat_map iboth oboth app]. apply IH. cbn [lsize fold_right isize osize] in H. fold (lsize s) in H. lia.
    + cbn [run_both flat_map iboth]. cbn [lsize fold_right isize] in H. fold (lsize s) in H.
      destruct ok; cbn [app]; rewrite IH by lia; reflexivity.
Qed.

Theorem walk_both_brackets t : walk_both false t = both t.
Proof.
  destruct t as [i ok kids]. unfold walk_both. cbn [ord both].
  rewrite run_both_both by lia. now rewrite (flat_map_enter iboth oboth) by reflexivity.
Qed.

(* ---- consequences of the structural orders ---------------------------------------------------------------------- *)
Fixpoint ids (t : rtree) : list nat :=
  let 'RNode i _ kids := t in i :: flat_map (fun k => match k with Some k => ids k | None => [] end) kids.
Fixpoint all_ok (t : rtree) : bool :=
  let 'RNode _ ok kids := t in ok && forallb (fun k => match k with Some k => all_ok k | None => true end) kids.

(* with all=True the walk yields exactly the nodes of the tree (each once when ids are distinct), parent first *)
Theorem pre_all_is_ids t : all_ok t = true -> pre t = ids t.
Proof.
  revert t. fix IH 1. intros [i ok kids] H. cbn [all_ok] in H. apply andb_prop in H. destruct H as [-> Hk].
  cbn [pre ids app]. f_equal. induction kids as [|k kids IHk]; [reflexivity|].
  cbn [forallb] in Hk. apply andb_prop in Hk. destruct Hk as [H1 H2]. cbn [flat_map]. rewrite (IHk H2).
  destruct k as [k|]; [now rewrite (IH k H1)|reflexivity].
Qed.

Theorem post_is_permutation_of_pre t : forall x, In x (post t) <-> In x (pre t).
Proof.
  revert t. fix IH 1. intros [i ok kids] x. cbn [post pre]. rewrite !in_app_iff.
  assert (K : In x (flat_map (fun k => match k with Some k => post k | None => [] end) kids)
              <-> In x (flat_map (fun k => match k with Some k => pre k | None => [] end) kids)).
  { induction kids as [|k kids IHk]; [tauto|]. cbn [flat_map]. rewrite !in_app_iff, IHk.
    destruct k as [k|]; [rewrite (IH k x)|]; tauto. }
  rewrite K. tauto.
Qed.
