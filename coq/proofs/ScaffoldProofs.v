(* Proofs about models/Scaffold.v: an edit at or below the first kept line is seen by the copy exactly as by the real source;
   an edit above it is not. *)
From Coq Require Import List NArith Arith Lia Bool.
From PF Require Import kernel.PyBase kernel.Text models.Scaffold proofs.TextProofs.
Import ListNotations.

Lemma nth_skipn' {A} n : forall (l : list A) i d, nth i (skipn n l) d = nth (n + i) l d.
Proof. induction n as [|n IH]; intros [|x l] i d; cbn [skipn Nat.add nth]; try reflexivity; [destruct i; reflexivity | apply IH]. Qed.

Lemma skipn_skipn' {A} a : forall b (l : list A), skipn a (skipn b l) = skipn (b + a) l.
Proof. intros b; induction b as [|b IH]; intros l; [reflexivity|]. destruct l; cbn [skipn Nat.add]; [apply skipn_nil | apply IH]. Qed.

Lemma lineAt_scaffold L pln i : pln <= i -> lineAt (scaffold L pln) i = lineAt L i.
Proof.
  intros H. unfold lineAt, scaffold. rewrite app_nth2 by (rewrite repeat_length; lia). rewrite repeat_length.
  rewrite nth_skipn'. f_equal. lia.
Qed.

Lemma firstn_scaffold L pln n : pln <= n -> firstn n (scaffold L pln) = repeat [] pln ++ firstn (n - pln) (skipn pln L).
Proof.
  intros H. unfold scaffold. rewrite firstn_app, repeat_length. rewrite firstn_all2 by (rewrite repeat_length; lia). reflexivity.
Qed.

Lemma skipn_scaffold L pln n : pln <= n -> skipn n (scaffold L pln) = skipn n L.
Proof.
  intros H. unfold scaffold. rewrite skipn_app, repeat_length. rewrite skipn_all2 by (rewrite repeat_length; lia).
  cbn [app]. rewrite skipn_skipn'. f_equal. lia.
Qed.

Theorem scaffold_sees_edit_below L put pln ln col eln ecol :
  pln <= ln -> ln <= eln -> ln <= length L ->
  put_spec (scaffold L pln) put ln col eln ecol = scaffold (put_spec L put ln col eln ecol) pln.
Proof.
  intros Hp Hle Hlen. unfold put_spec.
  rewrite !lineAt_scaffold by lia. rewrite firstn_scaffold by lia. rewrite skipn_scaffold by lia.
  unfold scaffold at 1. rewrite <- app_assoc. f_equal.
  rewrite skipn_app. rewrite firstn_length, Nat.min_l by lia. replace (pln - ln) with 0 by lia. cbn [skipn].
  f_equal. rewrite firstn_skipn_comm. f_equal. f_equal. lia.
Qed.

(* the kept part of the copy is the kept part of the new real source, and nothing else is in the copy *)
Corollary scaffold_copy_is_new_source_below L put pln ln col eln ecol :
  pln <= ln -> ln <= eln -> ln <= length L ->
  skipn pln (put_spec (scaffold L pln) put ln col eln ecol) = skipn pln (put_spec L put ln col eln ecol)
  /\ blank_above (put_spec (scaffold L pln) put ln col eln ecol) pln = true.
Proof.
  intros Hp Hle Hlen. rewrite scaffold_sees_edit_below by assumption. unfold scaffold. split.
  - rewrite skipn_app, repeat_length. rewrite skipn_all2 by (rewrite repeat_length; lia). replace (pln - pln) with 0 by lia. reflexivity.
  - unfold blank_above. rewrite firstn_app, repeat_length. replace (pln - pln) with 0 by lia. cbn [firstn]. rewrite app_nil_r.
    rewrite firstn_all2 by (rewrite repeat_length; lia). apply forallb_forall. intros x Hx. apply repeat_spec in Hx. now subst.
Qed.

(* above the first kept line the edit is lost: `#x` / `y = 1` with the `#` deleted - the real source has a new first line `x`,
   the copy still only `y = 1` *)
Theorem scaffold_misses_edit_above :
  exists L put pln ln col eln ecol, ln < pln /\
    blank_above (put_spec L put ln col eln ecol) pln = false /\ blank_above (put_spec (scaffold L pln) put ln col eln ecol) pln = true
    /\ skipn pln (put_spec (scaffold L pln) put ln col eln ecol) = skipn pln L.
Proof.
  exists [[35; 120]; [121; 32; 61; 32; 49]]%N, [[]], 1, 0, 0, 0, 1. repeat split; try lia; reflexivity.
Qed.
